"""Contracts for what a driver publishes (property C07; reused by C06, C01, C08):
Driver.message_from_client (getProperties branch), Vector.to_def_message / to_set_message
(three variants) and the element-level to_def_message / to_set_message.

Structure (modular): the vector-level functions are verified with the per-element
comprehension replaced by its specification "[f(e) for e in elements if e.enabled]"
(recognised syntactically by a comprehension hook: element function, filter); the
element-level functions are verified on a generic element of a vector of any size.
"""
import ast
import z3
from pyvc import smt
from pyvc.smt import (Val, VNone, VStr, VBool, VRef, VInt, is_none, is_str, is_ref, is_int, is_real, get_s, get_b, S)
from pyvc.values import *
from pyvc.spec import LoopContract, Contract, forall, exists, implies, ite
from pyvc.interp import IRaise, OutOfReach, MISSING, PathEnd
from contracts import driver as D
from contracts.codec import VOCAB, in_vocab, number_language, str_of

IntS = z3.IntSort()
DEFCLS = {"text": "DefTextVector", "number": "DefNumberVector", "switch": "DefSwitchVector", "blob": "DefBLOBVector", "light": "DefLightVector"}
SETCLS = {"text": "SetTextVector", "number": "SetNumberVector", "switch": "SetSwitchVector", "blob": "SetBLOBVector", "light": "SetLightVector"}
DEFPART = {"text": "DefText", "number": "DefNumber", "switch": "DefSwitch", "blob": "DefBLOB", "light": "DefLight"}
ONEPART = {"text": "OneText", "number": "OneNumber", "switch": "OneSwitch", "blob": "OneBLOB", "light": "OneLight"}
FORMATS = ("%f", "%.2f", "%d", "%.3m", "%.5m", "%.6m", "%.8m", "%.9m")


class ChildrenSpec:
    """[e.<fn>() for e in <elements of region> if <filter>]"""
    pyvc_sequence_spec = True
    def __init__(self, region, fn, filt):
        self.region, self.fn, self.filt = region, fn, filt


def comprehension_hook(I, node, gen, seq, env):
    """recognise  e.to_def_message() / e.to_set_message()  over the vector's elements, filtered by e.enabled"""
    if not (isinstance(seq, RSeq) and seq.kind in ("items", "values")):
        return MISSING
    tgt = gen.target
    var = None
    if isinstance(tgt, ast.Tuple) and len(tgt.elts) == 2 and isinstance(tgt.elts[1], ast.Name) and seq.kind == "items":
        var = tgt.elts[1].id
    elif isinstance(tgt, ast.Name) and seq.kind == "values":
        var = tgt.id
    if var is None:
        return MISSING
    e = node.elt
    if not (isinstance(e, ast.Call) and not e.args and not e.keywords and isinstance(e.func, ast.Attribute)
            and isinstance(e.func.value, ast.Name) and e.func.value.id == var and e.func.attr in ("to_def_message", "to_set_message")):
        return MISSING
    filt = []
    for c in gen.ifs:
        if isinstance(c, ast.Attribute) and isinstance(c.value, ast.Name) and c.value.id == var:
            filt.append(c.attr)
        else:
            return MISSING
    return ChildrenSpec(seq.region, e.func.attr, tuple(filt))


def hook_children(I):
    """checks.children through its contract (C13), extended to the children specification"""
    def children(I_, f, args, kwargs):
        value, child_class = args[0], args[1]
        if isinstance(value, ChildrenSpec):
            ecls = value.region.cls
            pc, _ = ecls.lookup("def_message_class" if value.fn == "to_def_message" else "set_message_class")
            if not (isinstance(pc, IClass) and pc.issubclass(child_class)):
                I_.raise_builtin("ValueError", "Child node has to be of type %s" % child_class.name)
            return value
        if value is None:
            return IList()
        for ch in I_.iterate(value):
            if not (isinstance(ch, (IObject, RObj)) and ch.cls.issubclass(child_class)):
                I_.raise_builtin("ValueError", "Child node has to be of type %s" % child_class.name)
        return value
    I.call_hooks[("indi/message/checks.py", "children")] = children


def c07_witness(info):
    def w(m):
        out = {"replay_kind": "driver.publish"}
        out.update(info)
        return out
    return w


def vector_invariants(I, run, v):
    """state of a driver-side vector the property quantifies over: state and metadata come from a
    valid definition (driver-author precondition) or from the validated state_ setter"""
    vec, vdef = v["vec"], v["vdef"]
    st = I.fresh_sym("cur_state")
    run.assume(in_vocab(st.term, "State"))
    vec.fields["_state"] = st
    perm = I.fresh_sym("def_perm")
    run.assume(in_vocab(perm.term, "Permissions"))
    vdef.fields["perm"] = perm
    if v["kind"] == "switch":
        run.assume(in_vocab(v["rule"], "SwitchRule"))
    lab = I.fresh_sym("def_label")
    run.assume(is_str(lab.term))
    vdef.fields["label"] = lab
    en = I.fresh("vec_enabled", z3.BoolSort())
    gen = I.fresh("group_enabled", z3.BoolSort())
    vec.fields["_enabled"] = Sym(VBool(en))
    v["group"].fields["_enabled"] = Sym(VBool(gen))
    gname = v["group"].fields["_definition"].fields["name"]
    run.assume(is_str(gname.term))
    run.assume(is_str(I.ghost["device_name"].term))
    return st, perm, lab, z3.And(en, gen)


def task_vector(kind, which):
    """Vector.to_def_message / to_set_message of the given kind, any number of elements."""
    def task(I, run):
        v = D.make_vector(I, kind, fmt="%f")
        vec = v["vec"]
        st, perm, lab, enabled = vector_invariants(I, run, v)
        I.comprehension_hook = comprehension_hook
        hook_children(I)
        fn, _ = vec.cls.lookup(which)
        label = "%s.%s" % (vec.cls.name, which)
        run.explorer.witness = c07_witness({"kind": kind, "which": which})
        I.root_func = fn
        try:
            r = I.call(IBound(fn, vec), [], {})
        except IRaise as e:
            run.fail("C07,C01|%s/raises-nothing" % label, "raised %s" % e)
            return
        if which == "to_set_message" and r is None:
            run.oblige("C07,C01|%s/no-update-only-for-a-disabled-property" % label, z3.Not(enabled))
            return
        if not isinstance(r, IObject):
            run.fail("C07,C01|%s/returns-a-message" % label, "returned %r" % (r,))
            return
        f = r.fields
        dn = I.ghost["device_name"].term
        if r.cls.name == "DelProperty":
            run.oblige("C07,C01|%s/a-disabled-property-is-announced-as-deleted-never-defined" % label, z3.Not(enabled))
            run.oblige("C07,C01|%s/delProperty-names-this-device-and-property" % label,
                       z3.And(I.to_term(f["device"]) == dn, I.to_term(f["name"]) == v["name"].term))
            return
        want_cls = (DEFCLS if which == "to_def_message" else SETCLS)[kind]
        run.oblige("C07,C01|%s/an-enabled-property-yields-its-own-kind-of-message" % label, z3.And(enabled, z3.BoolVal(r.cls.name == want_cls)))
        cs = [I.to_term(f["device"]) == dn, I.to_term(f["name"]) == v["name"].term, I.to_term(f["state"]) == st.term]
        if which == "to_def_message":
            cs += [I.to_term(f["label"]) == lab.term, I.to_term(f["group"]) == v["group"].fields["_definition"].fields["name"].term]
            if kind != "light":
                cs.append(I.to_term(f["perm"]) == perm.term)
            if kind == "switch":
                cs.append(I.to_term(f.get("rule")) == v["rule"])
        run.oblige("C07,C01|%s/carries-the-device-name-property-name-current-state-and-metadata" % label, z3.And(*cs))
        ch = f.get("children")
        ok = isinstance(ch, ChildrenSpec) and ch.region is v["E"] and ch.fn == which and ch.filt == ("enabled",)
        run.oblige("C07,C01|%s/lists-exactly-the-enabled-elements-in-order-each-through-its-own-%s" % (label, which), z3.BoolVal(bool(ok)),
                   note=None if ok else "children: %r" % (getattr(ch, "__dict__", ch),))
        # validity (C13 conformance + C03 precondition) of the vector-level attributes
        val = [in_vocab(I.to_term(f["state"]), "State"), z3.Not(is_none(I.to_term(f["device"]))), z3.Not(is_none(I.to_term(f["name"])))]
        if which == "to_def_message" and kind != "light":
            val.append(in_vocab(I.to_term(f["perm"]), "Permissions"))
        if which == "to_def_message" and kind == "switch":
            val.append(in_vocab(I.to_term(f["rule"]), "SwitchRule"))
        run.oblige("C07,C01|%s/is-a-valid-protocol-message(vocabulary-fields,required-attributes)" % label, z3.And(*val))
        run.canary("C07,C01|canary[%s]/never-enabled" % label, z3.Not(enabled))
    return task


def task_element(kind, which, fmt=None):
    """Element.to_def_message / to_set_message on a generic element of a vector of any size."""
    def task(I, run):
        from contracts.switch import ON, OFF
        v = D.make_vector(I, kind, fmt=fmt or "%f", n_min=1)
        E, Dd, n = v["E"], v["D"], v["n"]
        s = I.fresh("s", IntS)
        run.assume(D.in_range(s, n))
        el = RObj(E, s)
        D.install_publication_hooks(I)            # Read handlers: abstract, do not touch the element here
        cur = z3.Select(E.fields["_value"], s)
        lab = z3.Select(Dd.fields["label"], s)
        run.assume(is_str(lab))
        # element value invariants (established by the setters' checks / the definition)
        blobobj = None
        if kind == "text":
            run.assume(is_str(cur))
        elif kind == "switch":
            run.assume(z3.Or(cur == ON, cur == OFF))
        elif kind == "light":
            run.assume(in_vocab(cur, "State"))
        elif kind == "number":
            run.assume(z3.And(is_real(cur), smt.get_x(cur) >= -1000000000, smt.get_x(cur) <= 1000000000))
            # defaults of the definition class (min/max/step as the real constructor leaves them when not given)
            de = I.import_module("indi.device.properties.definition.elements")
            dflt = I.call(de.ns["Number"], ["N"], {})
            for a in ("min", "max", "step"):
                Dd.fields[a] = ("const", dflt.fields[a])
        else:
            unset = run.choice(2, "blob set/unset")
            if unset:
                E.fields["_value"] = z3.Store(E.fields["_value"], s, VNone)
            else:
                vals = I.import_module("indi.device.values")
                blobobj = IObject(vals.ns["BLOB"])
                blobobj.fields.update(binary=I.fresh_sym("blob_bytes"), format=I.fresh_sym("blob_format"))
                run.assume(z3.And(smt.is_bytes(blobobj.fields["binary"].term), is_str(blobobj.fields["format"].term)))
                I.ref_resolver = lambda I_, sym: blobobj if S(sym.term).eq(S(I_.to_term(blobobj))) else None
                E.fields["_value"] = z3.Store(E.fields["_value"], s, I.to_term(blobobj))
        cur = z3.Select(E.fields["_value"], s)
        label = "%s.%s%s" % (el.cls.name, which, "(%s)" % fmt if fmt else "")
        run.explorer.witness = c07_witness({"kind": kind, "which": which, "format": fmt, "element": True})
        run.cover("cover[%s]" % label)
        try:
            r = I.call(I.getattr(el, which), [], {})
        except IRaise as e:
            run.fail("C07|%s/raises-nothing" % label, "raised %s" % e)
            return
        want = (DEFPART if which == "to_def_message" else ONEPART)[kind]
        if not (isinstance(r, IObject) and r.cls.name == want):
            run.fail("C07|%s/yields-its-own-kind-of-element" % label, "returned %r" % (r,))
            return
        f = r.fields
        run.oblige("C07|%s/carries-the-element-name" % label, I.to_term(f["name"]) == z3.Select(Dd.fields["name"], s))
        if which == "to_def_message":
            run.oblige("C07|%s/carries-the-label" % label, I.to_term(f["label"]) == lab)
        vt = I.to_term(f["value"])
        # "read back unchanged" (C03) is about wire-typed content: text or nothing -- an object would travel as its repr()
        run.oblige("C07,C01|%s/element-content-is-text-or-absent(never-an-object)" % label, z3.Or(is_none(vt), is_str(vt)))
        if kind == "blob" and which == "to_def_message":
            run.oblige("C07,C01,C08|%s/a-definition-carries-no-payload" % label, is_none(vt))
        if kind in ("text", "switch", "light"):
            run.oblige("C07|%s/carries-the-current-value" % label, vt == cur)
        elif kind == "number":
            from pyvc.numfmt import value_of
            run.oblige("C07|%s/value-is-text-with-number-syntax" % label, z3.And(is_str(vt), z3.InRe(get_s(vt), number_language())))
            if which == "to_def_message":
                for a in ("format", "min", "max", "step"):
                    run.oblige("C07|%s/required-attribute-%s-is-present(own-parser-would-reject-the-definition-otherwise)" % (label, a),
                               z3.Not(is_none(I.to_term(f[a]))))
                run.oblige("C07|%s/carries-the-format" % label, I.to_term(f["format"]) == VStr(z3.StringVal(fmt or "%f")))
                # the property's metadata as declared (limits and step are not display values: they are not passed through the format)
                for a in ("min", "max", "step"):
                    decl = Dd.fields[a]
                    decl_t = I.to_term(decl[1]) if isinstance(decl, tuple) else z3.Select(decl, s)
                    run.oblige("C07,C01|%s/carries-the-declared-%s" % (label, a), I.to_term(f[a]) == decl_t)
        else:
            if which == "to_set_message":
                for a in ("size", "format"):
                    run.oblige("C07|%s/required-attribute-%s-is-present(own-parser-would-reject-the-update-otherwise)" % (label, a),
                               z3.Not(is_none(I.to_term(f[a]))))
                if blobobj is not None:
                    from pyvc.stdlib_models import b64enc
                    run.oblige("C07,C08|%s/carries-the-payload-base64-encoded-with-its-length-and-format" % label,
                               z3.And(vt == VStr(b64enc(smt.get_y(blobobj.fields["binary"].term))),
                                      I.to_term(f["format"]) == blobobj.fields["format"].term,
                                      I.to_term(f["size"]) == VInt(z3.Length(smt.get_y(blobobj.fields["binary"].term)))))
        if kind in ("switch", "light"):
            run.oblige("C07|%s/value-is-in-the-protocol-vocabulary" % label, in_vocab(vt, "SwitchState" if kind == "switch" else "State"))
    return task


def task_get_properties():
    """Driver.message_from_client(getProperties): one definition per property (only the named one when a
    name is given; nothing for an unknown name), each obtained from that property's to_def_message."""
    def task(I, run):
        v1 = D.make_vector(I, "text")
        v2 = D.make_vector(I, "number", label="_2", rid_offset=10)
        run.assume(v1["name"].term != v2["name"].term)
        drv = D.make_driver(I, [v1, v2])
        sent = []

        class RouterStub:
            def getattr(self, I_, sym, name, default=MISSING):
                if name == "process_message":
                    return Native("process_message", lambda I2, a, k: sent.append((a[0], a[1] if len(a) > 1 else k.get("sender"))))
                raise OutOfReach("router." + name)
        rt = Sym(I.fresh("router"), RouterStub())
        run.assume(is_ref(rt.term))
        drv.fields["_router"] = rt
        made = {}

        def to_def(I_, f, args, kwargs):
            m = I_.fresh_sym("def_of")
            run.assume(is_ref(m.term))
            made[id(args[0])] = made.get(id(args[0]), []) + [m]
            return m
        for nm in ("Vector.to_def_message", "SwitchVector.to_def_message", "LightVector.to_def_message"):
            I.call_hooks[(D.VEC_FILE, nm)] = to_def
        gp = I.import_module("indi.message.get_properties").ns["GetProperties"]
        msg = IObject(gp)
        nm = I.fresh_sym("req_name")
        run.assume(z3.Or(is_none(nm.term), is_str(nm.term)))
        run.assume(z3.Implies(is_str(nm.term), z3.Length(get_s(nm.term)) > 0))      # an attribute name="" is not a name
        msg.fields.update(device=drv.fields["_name"], version="1.7", name=nm)
        f = I.world.functions[(D.DRV_FILE, "Driver.message_from_client")]
        I.root_func = f
        run.explorer.witness = c07_witness({"what": "getProperties"})
        try:
            I.call(IBound(f, drv), [msg], {})
        except IRaise as e:
            run.fail("C07,C01|getProperties/raises-nothing", "raised %s" % e)
            return
        for v, tag in ((v1, "first"), (v2, "second")):
            wanted = z3.Or(is_none(nm.term), nm.term == v["name"].term)
            got = made.get(id(v["vec"]), [])
            n_sent = sum(1 for m, sender in sent if any(m is g for g in got))
            run.oblige("C07,C01|getProperties/%s-property-defined-exactly-once-iff-asked-for" % tag,
                       z3.And(z3.BoolVal(len(got) <= 1 and n_sent == len(got)), wanted == z3.BoolVal(len(got) == 1)))
        run.oblige("C07,C01|getProperties/nothing-else-is-sent-and-the-driver-is-the-sender",
                   z3.BoolVal(all(any(m is g for gs in made.values() for g in gs) and sender is drv for m, sender in sent)))
    return task


INHERIT_SRC = '''
from indi.device import Driver, properties


def g(n, enabled=True):
    return properties.Group(n, enabled=enabled, vectors={n.lower(): properties.TextVector("V" + n, elements=dict(e=properties.Text("E")))})


class A(Driver):
    name = "a"
    ga = g("GA")


class B(A):
    gb = g("GB")


class C(B):
    gc = g("GC")
    ga2 = g("GA2")


class Dm(B):
    gb = g("GBX")          # overrides B's group attribute
'''


def task_inheritance():
    """Device definitions built by subclassing other drivers (depth <= 3): an instance has the property
    groups of ALL its ancestors, own definitions last / overriding (ground obligations: the classes are
    concrete, DriverMeta.__new__, Driver.__init__ and _all_group_definitions are executed from the real source)."""
    def task(I, run):
        import ast as _ast
        from pyvc.interp import Env
        m = IModule("inherit_scn")
        m.ns["__name__"] = "inherit_scn"
        m.relpath = "<inheritance scenario>"
        env = Env()
        env.vars = m.ns
        m.env = env
        I.exec_block(_ast.parse(INHERIT_SRC).body, env, m, "")
        expect = {"A": {"VGA"}, "B": {"VGA", "VGB"}, "C": {"VGA", "VGB", "VGC", "VGA2"}, "Dm": {"VGA", "VGBX"}}
        for cn, want in expect.items():
            try:
                d = I.call(m.ns[cn], [], {})
            except IRaise as e:
                run.fail("C07,C01|inheritance[%s]/instantiates" % cn, "raised %s" % e)
                continue
            names = set(d.fields["_vectors"].d.keys())
            run.oblige("C07,C01|inheritance[%s]/has-exactly-the-properties-of-all-its-ancestors-and-its-own" % cn, z3.BoolVal(names == want),
                       note="has %s, expected %s" % (sorted(names), sorted(want)),
                       witness=lambda mm, cn=cn: {"replay_kind": "driver.inheritance", "cls": cn})
    return task
