"""Contracts for the client mirror (indi/client/*.py): properties C15 and C16.

The client's view is built by running the real code on definition messages with symbolic
names, attributes and values (two devices x two properties x two elements is the universe
shape; every name, kind, state and value is symbolic), then one message under test is
processed and the view is compared -- for an arbitrary query (device, property, element)
-- with the reference step function `apply` written from the statement.
"""
import z3
from pyvc import smt
from pyvc.smt import (Val, VNone, VStr, VBool, VRef, VInt, VBytes, is_none, is_str, is_ref, is_int, get_s, get_b, S)
from pyvc.values import *
from pyvc.spec import LoopContract, Contract, forall, exists, implies, ite
from pyvc.interp import IRaise, OutOfReach, MISSING, PathEnd, ReturnEx
from pyvc.stdlib_models import b64dec, b64valid

CLIENT = "indi/client/client.py"
DEVICE = "indi/client/device.py"
VECTORS = "indi/client/vectors.py"
ELEMENTS = "indi/client/elements.py"
KINDS = ("Text", "Number", "Switch", "Light", "BLOB")
ABSENT = VRef(z3.IntVal(-9), z3.IntVal(0))
IntS = z3.IntSort()


def sstr(I, base):
    s = I.fresh_sym(base)
    I.prover.assume(is_str(s.term))
    return s


def ostr(I, base):
    s = I.fresh_sym(base)
    I.prover.assume(z3.Or(is_str(s.term), is_none(s.term)))
    return s


STATES = ("Idle", "Ok", "Busy", "Alert")


def state_sym(I, base):
    s = sstr(I, base)
    I.prover.assume(z3.Or(*[s.term == VStr(z3.StringVal(x)) for x in STATES]))
    return s


def make_part(I, mod, cls_name, prefix, kind, is_def):
    c = mod.ns[cls_name]
    o = IObject(c)
    o.fields["name"] = sstr(I, prefix + "_name")
    v = ostr(I, prefix + "_value")
    o.fields["value"] = v
    if is_def:
        o.fields["label"] = ostr(I, prefix + "_label")
        if kind == "Number":
            o.fields.update(format="%f", min="0", max="1", step="0")
    if kind == "BLOB" and not is_def:
        o.fields["size"] = sstr(I, prefix + "_size")
        o.fields["format"] = sstr(I, prefix + "_format")
    return o


def make_def(I, kind, prefix, dev, name, nchildren):
    """a def<kind>Vector as the parser would hand it over (fields are what the real constructors
    store: strings from the wire; conformance is C13's obligation and assumed here)"""
    m = I.import_module("indi.message")
    dp = I.import_module("indi.message.def_parts")
    cls = m.ns["Def%sVector" % kind]
    o = IObject(cls)
    o.fields.update(device=dev, name=name, state=state_sym(I, prefix + "_state"), label=ostr(I, prefix + "_label"),
                    group=ostr(I, prefix + "_group"), timestamp=ostr(I, prefix + "_ts"), message=ostr(I, prefix + "_msg"))
    if kind != "Light":
        o.fields.update(perm="rw", timeout=None)
    if kind == "Switch":
        o.fields["rule"] = "OneOfMany"
    o.fields["children"] = tuple(make_part(I, dp, "Def" + kind, "%s_c%d" % (prefix, i), kind, True) for i in range(nchildren))
    return o


def make_set(I, kind, prefix, dev, name, nchildren):
    m = I.import_module("indi.message")
    op = I.import_module("indi.message.one_parts")
    o = IObject(m.ns["Set%sVector" % kind])
    o.fields.update(device=dev, name=name, state=state_sym(I, prefix + "_state"), timeout=None, timestamp=ostr(I, prefix + "_ts"),
                    message=ostr(I, prefix + "_msg"))
    o.fields["children"] = tuple(make_part(I, op, "One" + kind, "%s_c%d" % (prefix, i), kind, False) for i in range(nchildren))
    return o


def make_client(I):
    snoop = I.import_module("indi.device.snoop")
    c = I.call(snoop.ns["SnoopingClient"], [None], {})
    return c


# ---- view extraction (python-side walk over the real objects; terms are z3) ------------------------------------
def _items(d):
    return list(d.d.items())


def q_device(I, client, qd):
    """does the view contain device qd?"""
    return z3.Or(*[I.to_term(k) == qd for k, _ in _items(client.fields["devices"])]) if client.fields["devices"].d else z3.BoolVal(False)


def vec_attr(I, client, qd, qv, attr):
    """attribute of property (qd, qv), ABSENT when there is no such property"""
    t = ABSENT
    for dk, dev in reversed(_items(client.fields["devices"])):
        tv = ABSENT
        for vk, vec in reversed(_items(dev.fields["vectors"])):
            if attr == "kind":
                val = VStr(z3.StringVal(vec.cls.name))
            else:
                val = I.to_term(vec.fields[attr])
            tv = z3.If(I.to_term(vk) == qv, val, tv)
        t = z3.If(I.to_term(dk) == qd, tv, t)
    return t


def elem_value(I, client, qd, qv, qe, what="value"):
    t = ABSENT
    for dk, dev in reversed(_items(client.fields["devices"])):
        tv = ABSENT
        for vk, vec in reversed(_items(dev.fields["vectors"])):
            te = ABSENT
            for ek, el in reversed(_items(vec.fields["elements"])):
                te = z3.If(I.to_term(ek) == qe, elem_term(I, el, what), te)
            tv = z3.If(I.to_term(vk) == qv, te, tv)
        t = z3.If(I.to_term(dk) == qd, tv, t)
    return t


def elem_term(I, el, what):
    v = el.fields["_value"]
    if isinstance(v, IObject):        # a decoded BLOB
        if what == "value":
            return I.to_term(v.fields["binary"])
        return I.to_term(v.fields["format"])
    if what == "format":
        return VNone
    return I.to_term(v)


def snapshot(I, client, qd, qv, qe):
    return {"dev": q_device(I, client, qd),
            "kind": vec_attr(I, client, qd, qv, "kind"), "state": vec_attr(I, client, qd, qv, "state"),
            "label": vec_attr(I, client, qd, qv, "label"), "group": vec_attr(I, client, qd, qv, "group"),
            "value": elem_value(I, client, qd, qv, qe, "value"), "format": elem_value(I, client, qd, qv, qe, "format")}


# ---- the reference step function (from the statement of C15) ------------------------------------------------------
def expected(I, before, msg, qd, qv, qe):
    """expected view at query (qd, qv, qe) after `msg`, given the view before"""
    cn = msg.cls.name
    md = I.to_term(msg.fields.get("device")) if "device" in msg.fields else VNone
    mn = I.to_term(msg.fields.get("name")) if "name" in msg.fields else VNone
    on_dev = qd == md
    on_vec = z3.And(on_dev, qv == mn)
    out = dict(before)
    if cn.startswith("Def") and cn.endswith("Vector"):
        kind = cn[3:-6]
        out["dev"] = z3.Or(before["dev"], on_dev)
        out["kind"] = z3.If(on_vec, VStr(z3.StringVal(kind + "Vector")), before["kind"])
        for a in ("state", "label", "group"):
            out[a] = z3.If(on_vec, I.to_term(msg.fields[a]), before[a])
        te = ABSENT
        tf = ABSENT
        for ch in msg.fields["children"]:       # later duplicates win
            te = z3.If(I.to_term(ch.fields["name"]) == qe, I.to_term(ch.fields["value"]), te)
            tf = z3.If(I.to_term(ch.fields["name"]) == qe, VNone, tf)
        out["value"] = z3.If(on_vec, te, before["value"])
        out["format"] = z3.If(on_vec, tf, before["format"])
        return out
    if cn.startswith("Set") and cn.endswith("Vector"):
        kind = cn[3:-6]
        applies = z3.And(on_vec, before["kind"] == VStr(z3.StringVal(kind + "Vector")))
        out["state"] = z3.If(applies, I.to_term(msg.fields["state"]), before["state"])
        nv, nf = before["value"], before["format"]
        for ch in msg.fields["children"]:       # in order: the last listing of an element wins
            hit = z3.And(applies, I.to_term(ch.fields["name"]) == qe, before["value"] != ABSENT)
            if kind == "BLOB":
                raw = ch.fields["value"]
                rt = I.to_term(raw)
                payload = z3.If(is_none(rt), z3.StringVal(""), get_s(rt))
                # a payload that cannot be decoded leaves the element as it was (and must not stop the client); the declared size is
                # not the mirror's business (for compressed formats it is the uncompressed length)
                hit = z3.And(hit, b64valid(payload))
                nv = z3.If(hit, VBytes(b64dec(payload)), nv)
                nf = z3.If(hit, I.to_term(ch.fields["format"]), nf)
            else:
                nv = z3.If(hit, I.to_term(ch.fields["value"]), nv)
        out["value"], out["format"] = nv, nf
        return out
    if cn == "DelProperty":
        whole = z3.And(on_dev, is_none(mn))
        gone_vec = z3.Or(whole, on_vec)
        out["dev"] = z3.And(before["dev"], z3.Not(whole))
        for a in ("kind", "state", "label", "group", "value", "format"):
            out[a] = z3.If(gone_vec, ABSENT, before[a])
        return out
    return out          # everything else is ignored by the mirror


def c15_witness(I, info):
    def w(m):
        out = {"replay_kind": "client.step"}
        out.update(info)
        return out
    return w


def task_c15(msg_kind, vkind, nchildren, first_kind="Text"):
    """msg_kind: def | set | del | del-device | other:<Class>"""
    def task(I, run):
        c = make_client(I)
        d1, d2 = sstr(I, "d1"), sstr(I, "d2")
        v1, v2 = sstr(I, "v1"), sstr(I, "v2")
        run.assume(z3.And(d1.term != d2.term, v1.term != v2.term))
        pm = I.getattr(c, "process_message")
        # history: three definitions (device d1 with properties v1 [kind under test], v2 [text]; device d2 with v1)
        hist = [make_def(I, first_kind if msg_kind != "set" else vkind, "h0", d1, v1, 2), make_def(I, "Text", "h1", d1, v2, 1),
                make_def(I, "Number", "h2", d2, v1, 1)]
        for h in hist:
            for a, b in ((0, 1),):
                ch = h.fields["children"]
                if len(ch) == 2:
                    run.assume(ch[0].fields["name"].term != ch[1].fields["name"].term)
        try:
            for h in hist:
                I.call(pm, [h], {})
        except IRaise as e:
            run.fail("C15|history/definitions-are-processed-without-error", "raised %s" % e)
            return
        qd, qv, qe = (I.fresh(n) for n in ("qd", "qv", "qe"))
        run.assume(z3.And(is_str(qd), is_str(qv), is_str(qe)))
        before = snapshot(I, c, qd, qv, qe)
        md, mn = sstr(I, "md"), sstr(I, "mn")
        if msg_kind == "def":
            msg = make_def(I, vkind, "m", md, mn, nchildren)
        elif msg_kind == "set":
            msg = make_set(I, vkind, "m", md, mn, nchildren)
        elif msg_kind in ("del", "del-device"):
            m = I.import_module("indi.message")
            msg = IObject(m.ns["DelProperty"])
            msg.fields.update(device=md, name=mn if msg_kind == "del" else None, timestamp=ostr(I, "m_ts"), message=ostr(I, "m_msg"))
        else:
            m = I.import_module("indi.message")
            cls = m.ns[msg_kind.split(":")[1]]
            msg = IObject(cls)
            msg.fields.update(device=md if cls.name != "PingRequest" else None, name=mn, uid="1", version="1.7", timestamp=None, message="x")
        label = "%s%s,%d children" % (msg_kind, "[%s]" % vkind if msg_kind in ("def", "set") else "", nchildren)
        run.explorer.witness = c15_witness(I, {"msg_kind": msg_kind, "vkind": vkind, "nchildren": nchildren})
        if msg_kind == "set" and vkind == "BLOB":
            run.assume(z3.And(b64dec(z3.StringVal("")) == z3.StringVal(""), b64valid(z3.StringVal(""))))
            # ANY payload text and ANY size text: a foreign server may send damaged base64, compressed BLOBs (size = uncompressed length), junk
        run.cover("cover[%s]" % label)
        try:
            I.call(pm, [msg], {})
        except IRaise as e:
            run.fail("C15|step[%s]/processing-never-raises" % label, "BaseClient.process_message raised %s" % e)
            return
        after = snapshot(I, c, qd, qv, qe)
        want = expected(I, before, msg, qd, qv, qe)
        names = {"dev": "which-devices-exist", "kind": "property-kind(and-existence)", "state": "property-state", "label": "property-label",
                 "group": "property-group", "value": "element-values(and-existence)", "format": "blob-format"}
        for k in ("dev", "kind", "state", "label", "group", "value", "format"):
            run.oblige("C15|step[%s]/view-equals-reference/%s" % (label, names[k]), after[k] == want[k])
        if msg_kind in ("def",):
            run.canary("C15|canary[%s]/view-never-changes" % label, z3.And(after["kind"] == before["kind"], after["dev"] == before["dev"]))
    return task


# =====================================================================================================
# C16 -- client change events are complete and exact
# =====================================================================================================
EVENT_CLASSES = ("BaseEvent", "DefinitionUpdate", "ValueUpdate", "StateUpdate")


def _named(I, cls_mod, cls_name, name):
    o = IObject(I.import_module(cls_mod).ns[cls_name])
    o.fields["name"] = name
    return o


def make_event(I, run, evname):
    ev = I.import_module("indi.client.events")
    dev = _named(I, "indi.client.device", "Device", sstr(I, "ev_dev"))
    vec = IObject(I.import_module("indi.client.vectors").ns["TextVector"])
    vec.fields.update(name=sstr(I, "ev_vec"), device=dev)
    el = IObject(I.import_module("indi.client.elements").ns["Text"])
    el.fields.update(name=sstr(I, "ev_el"), vector=vec)
    if evname == "BaseEvent":
        shape = run.choice(3, "event shape")
        e = I.call(ev.ns["BaseEvent"], [], {"device": dev if shape >= 1 else None, "vector": vec if shape >= 2 else None, "element": None})
    elif evname == "DefinitionUpdate":
        e = I.call(ev.ns["DefinitionUpdate"], [vec], {})
    elif evname == "ValueUpdate":
        e = I.call(ev.ns["ValueUpdate"], [el, I.fresh_sym("old"), I.fresh_sym("new")], {})
    else:
        e = I.call(ev.ns["StateUpdate"], [vec, I.fresh_sym("old"), I.fresh_sym("new")], {})
    return e


def matches_spec(I, cfg_fields, event, type_ok):
    """statement: each filter absent or equal to the event's device/property/element name, and the event is of the type"""
    cs = [z3.BoolVal(bool(type_ok))]
    for f in ("device", "vector", "element"):
        flt = I.to_term(cfg_fields[f])
        obj = event.fields.get(f)
        nm = I.to_term(obj.fields["name"]) if isinstance(obj, IObject) else VNone
        cs.append(z3.Or(is_none(flt), flt == nm))
    return z3.And(*cs)


def task_c16_accepts(evname, typename):
    def task(I, run):
        cm = I.import_module("indi.client.client")
        evm = I.import_module("indi.client.events")
        event = make_event(I, run, evname)
        cfg = IObject(cm.ns["_CallbackConfig"])
        fields = {f: ostr(I, "flt_" + f) for f in ("device", "vector", "element")}
        cfg.fields.update(fields)
        T = evm.ns[typename]
        cfg.fields.update(event_type=T, callback=None, uuid=None)
        f = I.world.functions[(CLIENT, "_CallbackConfig.accepts_event")]
        label = "%s filter on %s" % (typename, evname)
        try:
            r = I.call(IBound(f, cfg), [event], {})
        except IRaise as e:
            run.fail("C16|accepts_event[%s]/raises-nothing" % label, "raised %s" % e)
            return
        type_ok = event.cls.issubclass(T)
        code = smt.truthy(I.to_term(r)) if isinstance(r, Sym) else z3.BoolVal(bool(I.truth(r)))
        run.oblige("C16|accepts_event[%s]/accepts-exactly-the-matching-events" % label, code == matches_spec(I, fields, event, type_ok))
    return task


acc_fn = None


class CallbackFnIface:
    callable = True

    def __init__(self, j):
        self.j = j

    def call_self(self, I, sym, args, kwargs):
        g = I.ghost
        g["cb_count"] = z3.Store(g["cb_count"], self.j, z3.Select(g["cb_count"], self.j) + 1)
        if args and args[0] is not g["the_event"]:
            I.prover.fail("C16|trigger_event/passes-the-event-itself", "a callback got something other than the event")
        if I.prover.fork(z3.Select(g["cb_raises"], self.j)):
            I.raise_builtin("RuntimeError", "callback failed")
        return Opaque("coroutine-or-None")


def _trigger_inv(ctx):
    g = ctx.ghost
    j = z3.Int("j")
    return [("every-matching-callback-visited-so-far-got-the-event-exactly-once-others-never",
             forall(j, z3.Select(g["cb_count"], j) == ite(z3.And(j >= 0, j < ctx.i, z3.Select(g["cb_accepts"], j)), 1, 0)))]


def _trigger_havoc(ctx):
    g = ctx.ghost
    j = z3.Int("j")
    g["cb_count"] = z3.Lambda([j], ite(z3.And(j >= 0, j < ctx.i, z3.Select(g["cb_accepts"], j)), 1, 0))


_TRIGGER_LOOP = LoopContract(_trigger_inv, _trigger_havoc, props="C16", label="callbacks", allowed=lambda w: False)


def _sel_trigger(I, ordinal, it):
    fn = I.frames[-1][0].qualname if I.frames else ""
    if fn == "BaseClient.trigger_event" and isinstance(it, RSeq) and it.region is I.ghost.get("CB"):
        return _TRIGGER_LOOP
    return None


TRIGGER = Contract(CLIENT, "BaseClient.trigger_event", loop_selector=_sel_trigger)


def task_c16_trigger():
    """trigger_event over ANY number of registered callbacks: exactly the accepting ones are invoked, once
    each, with the event; a callback that raises does not stop delivery to the rest; nothing escapes."""
    def task(I, run):
        cm = I.import_module("indi.client.client")
        c = make_client(I)
        n = I.fresh("n_callbacks", IntS)
        run.assume(n >= 0)
        A_IB = z3.ArraySort(IntS, z3.BoolSort())
        accepts, raises = I.fresh("cb_accepts", A_IB), I.fresh("cb_raises", A_IB)
        iscoro = I.fresh("cb_is_coro", A_IB)
        CB = Region(80, cm.ns["_CallbackConfig"], n, {
            "callback": ("fn", lambda I_, obj: Sym(VRef(z3.IntVal(81), obj.idx), CallbackFnIface(obj.idx))),
        }, "callbacks")
        c.fields["callbacks"] = RSeq(CB, None, "list", "callbacks")
        event = make_event(I, run, "ValueUpdate")
        I.ghost.update(CB=CB, cb_accepts=accepts, cb_raises=raises, cb_count=z3.K(IntS, z3.IntVal(0)), the_event=event)

        # accepts_event is used through its contract (verified separately): an abstract per-callback verdict
        def accepts_apply(I_, f, args, kwargs):
            return Sym(VBool(z3.Select(accepts, args[0].idx)))
        I.call_hooks[(CLIENT, "_CallbackConfig.accepts_event")] = accepts_apply
        asy = I.import_module("asyncio")
        from pyvc.stdlib_models import iscoro_fn
        I.contracts[TRIGGER.key] = TRIGGER
        f = I.world.functions[(CLIENT, "BaseClient.trigger_event")]
        I.root_func = f
        try:
            I.call(IBound(f, c), [event], {})
        except IRaise as e:
            run.fail("C16|trigger_event/a-raising-callback-does-not-escape-or-stop-delivery", "trigger_event raised %s" % e)
            return
        j = z3.Int("j")
        run.oblige("C16|trigger_event/exactly-the-matching-callbacks-are-invoked-once-each",
                   forall(j, implies(z3.And(j >= 0, j < n), z3.Select(I.ghost["cb_count"], j) == ite(z3.Select(accepts, j), 1, 0))))
        run.canary("C16|canary[trigger_event]/nobody-is-ever-called", forall(j, implies(z3.And(j >= 0, j < n), z3.Select(I.ghost["cb_count"], j) == 0)))
    return task


def task_c16_registry(k):
    """onevent / rmonevent on a list of k registered callbacks (k = 0..3, every field symbolic):
    onevent appends exactly one config with the given filters and returns its id; rmonevent removes
    exactly the configs that match ALL given criteria."""
    def task(I, run):
        cm = I.import_module("indi.client.client")
        evm = I.import_module("indi.client.events")
        c = make_client(I)
        pool = [evm.ns[n_] for n_ in EVENT_CLASSES]
        cfgs = []
        for i in range(k):
            cfg = IObject(cm.ns["_CallbackConfig"])
            cfg.fields.update(device=ostr(I, "c%d_dev" % i), vector=ostr(I, "c%d_vec" % i), element=ostr(I, "c%d_el" % i),
                              event_type=pool[run.choice(2, "type of cfg %d" % i) * 2], callback=Sym(VRef(z3.IntVal(82), z3.IntVal(i))),
                              uuid=Sym(VRef(z3.IntVal(83), z3.IntVal(i))))
            cfgs.append(cfg)
        c.fields["callbacks"] = IList(cfgs)
        which = run.choice(2, "operation")
        if which == 0:
            cbk = Sym(VRef(z3.IntVal(82), z3.IntVal(99)))
            kw = {"callback": cbk, "device": ostr(I, "n_dev"), "vector": ostr(I, "n_vec"), "element": ostr(I, "n_el")}
            try:
                uid = I.call(I.getattr(c, "onevent"), [], kw)
            except IRaise as e:
                run.fail("C16|onevent/raises-nothing", "raised %s" % e)
                return
            lst = c.fields["callbacks"].items
            ok = len(lst) == k + 1 and lst[:k] == cfgs and isinstance(lst[-1], IObject)
            run.oblige("C16|onevent[%d registered]/appends-exactly-one-config-keeping-the-others" % k, z3.BoolVal(ok))
            if ok:
                new = lst[-1]
                run.oblige("C16|onevent[%d registered]/the-config-carries-the-given-filters-and-the-returned-id" % k,
                           z3.And(*[I.to_term(new.fields[f]) == I.to_term(kw[f]) for f in ("device", "vector", "element", "callback")] +
                                  [z3.BoolVal(new.fields["uuid"] is uid), z3.BoolVal(new.fields["event_type"] is evm.ns["BaseEvent"])]))
            return
        crit = {"uuid": I.fresh_sym("r_uuid"), "device": ostr(I, "r_dev"), "vector": ostr(I, "r_vec"), "element": ostr(I, "r_el"),
                "callback": I.fresh_sym("r_cb")}
        run.assume(z3.Or(is_none(crit["uuid"].term), is_ref(crit["uuid"].term)))
        run.assume(z3.Or(is_none(crit["callback"].term), is_ref(crit["callback"].term)))
        tsel = run.choice(3, "event_type criterion")
        crit["event_type"] = [None, pool[0], pool[2]][tsel]
        try:
            I.call(I.getattr(c, "rmonevent"), [], crit)
        except IRaise as e:
            run.fail("C16|rmonevent/raises-nothing", "raised %s" % e)
            return
        left = c.fields["callbacks"].items
        for i, cfg in enumerate(cfgs):
            m = []
            for f in ("uuid", "device", "vector", "element", "callback"):
                ct = I.to_term(crit[f])
                m.append(z3.Or(is_none(ct), ct == I.to_term(cfg.fields[f])))
            m.append(z3.BoolVal(crit["event_type"] is None or crit["event_type"] is cfg.fields["event_type"]))
            should_go = z3.And(*m)
            still = any(x is cfg for x in left)
            run.oblige("C16|rmonevent[%d registered]/config-%d-removed-iff-it-matches-all-given-criteria" % (k, i),
                       should_go == z3.BoolVal(not still))
        run.oblige("C16|rmonevent[%d registered]/nothing-else-appears-and-order-is-kept" % k,
                   z3.BoolVal([x for x in cfgs if any(x is y for y in left)] == list(left)))
    return task


def task_c16_chain(vkind, nchildren):
    """Event chain at the raising sites: processing an update raises a ValueUpdate for an element iff its
    value changed, with old = the value before and new = the value after (chained for repeated listings),
    and a StateUpdate iff the state changed."""
    def task(I, run):
        c = make_client(I)
        d1, v1 = sstr(I, "d1"), sstr(I, "v1")
        pm = I.getattr(c, "process_message")
        h = make_def(I, vkind, "h0", d1, v1, 2)
        ch = h.fields["children"]
        run.assume(ch[0].fields["name"].term != ch[1].fields["name"].term)
        events = []

        def record(I_, f, args, kwargs):
            events.append(args[1])
            return None
        I.call_hooks[(CLIENT, "BaseClient.trigger_event")] = record
        try:
            I.call(pm, [h], {})
        except IRaise as e:
            run.fail("C16|chain/definition-processed", "raised %s" % e)
            return
        dev = list(c.fields["devices"].d.values())[0]
        vec = list(dev.fields["vectors"].d.values())[0]
        els = list(vec.fields["elements"].d.values())
        label = "set[%s],%d children" % (vkind, nchildren)
        # a definition announces every element (old None -> its value) and the property state
        run.oblige("C16|chain[def %s]/definition-raises-initial-value-and-state-and-definition-events" % vkind,
                   z3.BoolVal(sorted(e.cls.name for e in events) == sorted(["ValueUpdate"] * len(els) + ["StateUpdate", "DefinitionUpdate"])))
        del events[:]
        def content(v):
            """a value as the statement compares it: BLOB values by payload and format, everything else by the value itself"""
            if isinstance(v, IObject) and "binary" in v.fields:
                return ("blob", I.to_term(v.fields["binary"]), I.to_term(v.fields["format"]))
            return ("plain", I.to_term(v))

        def same(a, b):
            if a[0] != b[0]:
                return z3.BoolVal(False)
            return z3.And(*[x == y for x, y in zip(a[1:], b[1:])])
        before = {id(e): content(e.fields["_value"]) for e in els}
        state0 = I.to_term(vec.fields["state"])
        msg = make_set(I, vkind, "m", d1, v1, nchildren)
        try:
            I.call(pm, [msg], {})
        except IRaise as e:
            raise PathEnd()      # C15's obligation
        for el in els:
            evs = [e for e in events if e.cls.name == "ValueUpdate" and e.fields["element"] is el]
            cur = before[id(el)]
            for n_, e in enumerate(evs):
                run.oblige("C16|chain[%s]/event-old-value-is-the-previous-value" % label, same(content(e.fields["old_value"]), cur))
                run.oblige("C16|chain[%s]/an-event-means-the-value-changed" % label, z3.Not(same(content(e.fields["new_value"]), cur)))
                cur = content(e.fields["new_value"])
            run.oblige("C16|chain[%s]/last-event-new-value-is-the-current-value(no-event-means-unchanged)" % label,
                       same(content(el.fields["_value"]), cur))
        sevs = [e for e in events if e.cls.name == "StateUpdate"]
        cur = state0
        for e in sevs:
            run.oblige("C16|chain[%s]/state-event-old-is-previous-and-differs-from-new" % label,
                       z3.And(I.to_term(e.fields["old_state"]) == cur, I.to_term(e.fields["new_state"]) != cur))
            cur = I.to_term(e.fields["new_state"])
        run.oblige("C16|chain[%s]/last-state-event-is-the-current-state(no-event-means-unchanged)" % label, I.to_term(vec.fields["state"]) == cur)
    return task


# =====================================================================================================
# C17 -- waiting for an event returns the first match or times out (safety part, segment analysis)
# =====================================================================================================
class _Suspend(Exception):
    pass


def task_c17(cond, evkind, with_timeout, polling):
    """BaseClient.waitforevent split at its yield points.  asyncio is cooperative, so each atomic
    segment -- the callback `cb`, the tail of `timeout_check`, one iteration of `poll`, the tail of the
    wait itself -- is verified from an ARBITRARY shared state satisfying the invariant J:
        J:  lock set  =>  exactly one of (result.timeout, result.event is not None)
    plus 'once the lock is set the result never changes' (first match wins) and the release table of cb.
    Time and scheduling order are not modelled (DESIGN 5)."""
    def task(I, run):
        from pyvc.stdlib_models import AwaitMarker
        evm = I.import_module("indi.client.events")
        c = make_client(I)
        sent = []
        I.call_hooks[("indi/device/snoop.py", "SnoopingClient.send_message")] = lambda I_, f, a, k: sent.append(a[1])
        label = "%s/%s/%s/%s" % (cond, evkind, "timeout" if with_timeout else "no-timeout", "polling" if polling else "no-polling")
        target = I.fresh_sym("target")
        run.assume(z3.Not(is_none(target.term)))
        checked = []

        class CheckFn:
            callable = True

            def call_self(self, I_, sym, args, kwargs):
                b = I_.fresh("check_says", z3.BoolSort())
                checked.append((args[0], b))
                return Sym(VBool(b))
        kw = {"device": "D", "vector": "V", "timeout": 5.0 if with_timeout else None, "polling_enabled": polling,
              "event_type": evm.ns["ValueUpdate" if evkind == "value" else "StateUpdate"]}
        if cond == "expect":
            kw["expect"] = target
        elif cond == "initial":
            kw["initial"] = target
        else:
            kw["check"] = Sym(I.fresh("check_fn"), CheckFn())
            run.assume(is_ref(kw["check"].term))
        state = {}

        def hook(I_, v):
            if isinstance(v, AwaitMarker) and v.what == "event.wait":
                state["frame"] = I_.frames[-1][1]
                state["lock"] = v.obj
                raise _Suspend()
            return None          # sleeps etc. return
        I.await_hook = hook
        f = I.world.functions[(CLIENT, "BaseClient.waitforevent")]
        ncb0 = len(c.fields["callbacks"].items)
        co = I.call(IBound(f, c), [], kw)
        try:
            I.do_await(co)
            run.fail("C17|%s/waits-at-all" % label, "waitforevent returned without waiting")
            return
        except _Suspend:
            pass
        except IRaise as e:
            run.fail("C17|%s/setup-raises-nothing" % label, "raised %s" % e)
            return
        env = state["frame"]
        # roles are identified by what the objects ARE, not by the names of the locals holding them (renaming is harmless):
        #   the lock is the asyncio.Event being awaited; the result record is the local object with `timeout` and `event` fields;
        #   the temporary callback is the one registered with onevent; the poller is the scheduled coroutine with a loop, the
        #   timeout task the other one
        lock = state["lock"]
        recs = [v for v in env.vars.values() if isinstance(v, IObject) and "timeout" in v.fields and "event" in v.fields]
        new_cfgs = c.fields["callbacks"].items[ncb0:]
        if len(recs) != 1 or len(new_cfgs) != 1:
            raise OutOfReach("waitforevent: result record / temporary callback not identifiable (%d records, %d new callbacks)" % (len(recs), len(new_cfgs)))
        result = recs[0]
        cbf = new_cfgs[0].fields["callback"]
        tasks = list(I.ghost.get("tasks", []))
        import ast as _ast0

        def has_loop(t):
            return isinstance(t, ICoroutine) and any(isinstance(n, (_ast0.While, _ast0.For)) for n in _ast0.walk(t.func.node))
        run.oblige("C17|%s/registers-exactly-one-temporary-callback" % label, z3.BoolVal(len(c.fields["callbacks"].items) == ncb0 + 1))
        run.oblige("C17|%s/timeout-task-created-iff-a-timeout-is-given,polling-task-iff-polling" % label,
                   z3.BoolVal(len(tasks) == int(with_timeout) + int(polling)))

        def set_state(tag):
            L = I.fresh("L_" + tag, z3.BoolSort())
            T = I.fresh("T_" + tag, z3.BoolSort())
            E = I.fresh("E_" + tag)
            run.assume(z3.Or(is_none(E), is_ref(E)))
            run.assume(z3.Implies(L, z3.Xor(T, z3.Not(is_none(E)))))          # J
            run.assume(z3.Implies(z3.Not(L), z3.And(z3.Not(T), is_none(E))))  # nothing is recorded before the release
            lock.flag = Sym(VBool(L))
            result.fields["timeout"] = Sym(VBool(T))
            result.fields["event"] = Sym(E)
            return L, T, E

        def get_state():
            fl = lock.flag
            L = smt.truthy(fl.term) if isinstance(fl, Sym) else z3.BoolVal(bool(fl))
            t = result.fields["timeout"]
            T = smt.truthy(t.term) if isinstance(t, Sym) else z3.BoolVal(bool(t))
            return L, T, I.to_term(result.fields["event"])

        def J(L, T, E):
            return z3.Implies(L, z3.Xor(T, z3.Not(is_none(E))))
        seg = run.choice(4, "segment")
        if seg == 0:
            # --- segment: cb(event) for an arbitrary event of either kind
            L0, T0, E0 = set_state("cb")
            which = run.choice(2, "event class")
            ev = IObject(evm.ns["ValueUpdate" if which == 0 else "StateUpdate"])
            nv = I.fresh_sym("ev_new")
            ev.fields.update(device=None, vector=None, element=None, old_value=I.fresh_sym("ev_old"), new_value=nv, old_state=I.fresh_sym("ev_olds"), new_state=nv)
            try:
                I.call(cbf, [ev], {})
            except IRaise as e:
                run.fail("C17|%s/cb/raises-nothing" % label, "cb raised %s" % e)
                return
            L1, T1, E1 = get_state()
            evt = I.to_term(ev)
            if cond == "expect":
                satisfies = nv.term == target.term
            elif cond == "initial":
                satisfies = nv.term != target.term
            else:
                satisfies = checked[-1][1] if checked else z3.BoolVal(False)
            run.oblige("C17|%s/cb/preserves-J(never-both-never-neither)" % label, J(L1, T1, E1))
            run.oblige("C17|%s/cb/once-completed-the-result-never-changes(first-match-wins)" % label,
                       z3.Implies(L0, z3.And(L1, T1 == T0, E1 == E0)))
            run.oblige("C17|%s/cb/releases-with-this-event-iff-it-satisfies-the-condition" % label,
                       z3.Implies(z3.Not(L0), z3.And(L1 == satisfies, z3.Implies(satisfies, z3.And(E1 == evt, z3.Not(T1))),
                                                     z3.Implies(z3.Not(satisfies), z3.And(is_none(E1), z3.Not(T1))))))
            run.canary("C17|canary[%s]/cb-never-releases" % label, z3.Not(L1))
        elif seg == 1:
            if not with_timeout:
                raise PathEnd()
            # --- segment: the tail of timeout_check (after its sleep)
            tc = [t for t in tasks if isinstance(t, ICoroutine) and not has_loop(t)]
            run.oblige("C17|%s/timeout_check/is-the-scheduled-task" % label, z3.BoolVal(len(tc) == 1))
            if not tc:
                return
            L0, T0, E0 = set_state("to")
            try:
                I.do_await(tc[0])
            except IRaise as e:
                run.fail("C17|%s/timeout_check/raises-nothing" % label, "raised %s" % e)
                return
            L1, T1, E1 = get_state()
            run.oblige("C17|%s/timeout_check/preserves-J" % label, J(L1, T1, E1))
            run.oblige("C17|%s/timeout_check/does-nothing-once-completed" % label, z3.Implies(L0, z3.And(L1, T1 == T0, E1 == E0)))
            run.oblige("C17|%s/timeout_check/otherwise-completes-the-wait-with-a-timeout" % label, z3.Implies(z3.Not(L0), z3.And(L1, T1, is_none(E1))))
        elif seg == 2:
            if not polling:
                raise PathEnd()
            # --- segment: poll -- it re-requests the properties only while the wait has not completed
            pl = [t for t in tasks if has_loop(t)]
            run.oblige("C17|%s/poll/is-the-scheduled-task" % label, z3.BoolVal(len(pl) == 1))
            if not pl:
                return
            L0, T0, E0 = set_state("poll")
            n_before = len(sent)
            I.max_unroll = 3
            try:
                I.do_await(pl[0])
            except IRaise as e:
                run.fail("C17|%s/poll/raises-nothing" % label, "raised %s" % e)
                return
            except OutOfReach:
                # still unrolling: the wait has not completed on this path, sends are allowed
                run.oblige("C17|%s/poll/keeps-requesting-only-while-not-completed" % label, z3.Not(L0))
                for m in sent[n_before:]:
                    run.oblige("C17|%s/poll/re-requests-the-waited-for-properties" % label,
                               z3.BoolVal(isinstance(m, IObject) and m.cls.name == "GetProperties" and m.fields.get("device") == "D" and m.fields.get("name") == "V"))
                raise PathEnd()
            run.oblige("C17|%s/poll/stops-without-sending-once-completed" % label, z3.Implies(L0, z3.BoolVal(len(sent) == n_before)))
            L1, T1, E1 = get_state()
            run.oblige("C17|%s/poll/never-touches-the-result" % label, z3.And(L1 == L0, T1 == T0, E1 == E0))
        else:
            # --- segment: the tail of the wait, resumed with the lock set in any state satisfying J
            L0, T0, E0 = set_state("tail")
            run.assume(L0)
            outcome = None
            I.await_hook = lambda I_, v: None
            try:
                # resume: re-run the remaining statements of waitforevent in the captured frame
                import ast as _ast
                body = f.node.body
                idx = [i for i, st in enumerate(body) if isinstance(st, _ast.Expr) and isinstance(st.value, _ast.Await)]
                I.frames.append((f, env))
                try:
                    I.exec_block(body[idx[-1] + 1:], env, f.module, f.qualname + ".<locals>")
                    outcome = ("fell-through", None)
                except ReturnEx as r:
                    outcome = ("returned", r.value)
                finally:
                    I.frames.pop()
            except IRaise as e:
                outcome = ("raised", e)
            run.oblige("C17|%s/tail/leaves-no-callback-registered" % label, z3.BoolVal(len(c.fields["callbacks"].items) == ncb0))
            if outcome[0] == "raised":
                run.oblige("C17|%s/tail/fails-only-when-the-timeout-fired" % label, T0)
            elif outcome[0] == "returned":
                run.oblige("C17|%s/tail/returns-the-recorded-first-match-when-no-timeout-fired" % label,
                           z3.And(z3.Not(T0), I.to_term(outcome[1]) == E0, z3.Not(is_none(E0))))
            else:
                run.fail("C17|%s/tail/returns-or-raises" % label, "fell through")
    return task
