"""Contracts and symbolic message construction for the message codec
(indi/message/*.py): properties C20 (structural equality), C13 (parser
conformance), C03 (round trip).

Messages are always built by running the *real* constructors on symbolic
arguments, so the object shapes (which fields exist, what the constructor
stores) are those of the code under verification.  Children are a symbolic-size
family of part objects whose field map is derived by running the real part
constructor once at a generic index.
"""
import z3
from pyvc import smt
from pyvc.smt import (Val, VNone, VStr, VBool, VRef, VInt, is_none, is_str, is_ref, get_s, S)
from pyvc.values import *
from pyvc.spec import LoopContract, Contract, forall, exists, implies, ite
from pyvc.interp import IRaise, OutOfReach, MISSING, PathEnd, Env

BASE_FILE = "indi/message/base.py"
CHECKS_FILE = "indi/message/checks.py"
IntS = z3.IntSort()
A_IV = z3.ArraySort(IntS, Val)


def classes(I):
    """(message classes, part classes) of the real class table; concrete leaves only."""
    base = I.import_module("indi.message.base")
    I.import_module("indi.message")
    IM, IP = base.ns["IndiMessage"], base.ns["IndiMessagePart"]
    msgs = [c for c in I.world.all_subclasses(IM) if c is not IM and not c.subclasses]
    parts = [c for c in I.world.all_subclasses(IP) if c is not IP and not c.subclasses]
    return msgs, parts


def class_names(repo_root):
    from pyvc.interp import World, Interp
    from pyvc import values
    values.reset_ids()
    I = Interp(World(repo_root))
    m, p = classes(I)
    return [c.name + "@" + c.module.name for c in m], [c.name + "@" + c.module.name for c in p]


def find_class(I, ident):
    name, mod = ident.split("@")
    m = I.import_module(mod)
    c = m.ns.get(name)
    if not isinstance(c, IClass):
        raise OutOfReach("class %s vanished" % ident)
    return c


def init_params(cls):
    from contracts.router import init_params as ip
    return ip(cls)


def children_class_of(I, cls):
    for nm in ("children_class", "child_class"):
        c, owner = cls.lookup(nm)
        if isinstance(c, IClass):
            return c
    return None


def any_val(I, base):
    """An attribute value as the wire or a driver can supply it: None, str, int or bool
    (rendered by str())."""
    s = I.fresh_sym(base)
    t = s.term
    I.prover.assume(z3.Or(is_none(t), is_str(t), smt.is_int(t)))
    return s


def wire_val(I, base):
    s = I.fresh_sym(base)
    I.prover.assume(z3.Or(is_none(s.term), is_str(s.term)))
    return s


def derive_region(I, cls, rid, n, label, mk=None):
    """A symbolic-size family of objects of part class `cls`: the real constructor is
    summarised by path enumeration on generic arguments (pyvc.summary); the field map
    of element k is the constructor's result at k, and "the constructor accepts element
    k" (no raising path) is the per-element conformance precondition."""
    from pyvc.summary import summarize
    from pyvc.builtins_model import subst_value
    names, required = init_params(cls)
    jname = "gen_" + label
    j = z3.Const(jname, IntS)
    arrays = {p: z3.Const("%s_%s" % (label, p), A_IV) for p in names}

    def typed(t):
        return z3.Or(is_none(t), is_str(t), smt.is_int(t))
    pre = [typed(z3.Select(arrays[p], j)) for p in names]
    ident = cls.name + "@" + cls.module.name

    def call(I2):
        c2 = find_class(I2, ident)
        return I2.call(c2, [], {p: Sym(z3.Select(arrays[p], j)) for p in names})
    paths = summarize(I, call, I.world.repo_root, I.world.sources, pre)
    ok = [p for p in paths if p.outcome == "ok"]
    if not ok:
        raise OutOfReach("constructor of %s accepts nothing" % cls.name)
    fnames = list(ok[0].value.fields)
    for p in ok:
        if list(p.value.fields) != fnames:
            raise OutOfReach("constructor of %s builds different shapes on different paths" % cls.name)
    fields = {}
    for f in fnames:
        # value of field f at the generic index: an if-chain over the accepting paths
        vals = [(z3.And(*p.pc) if p.pc else z3.BoolVal(True), I.to_term(_rebind(I, p.value.fields[f]))) for p in ok]
        t = vals[-1][1]
        for c, v in reversed(vals[:-1]):
            t = z3.If(c, v, t)
        t = S(t)
        fields[f] = ("fn", (lambda t_: (lambda I_, obj: Sym(S(z3.substitute(t_, (j, obj.idx))))))(t))
    R = Region(rid, cls, n, fields, label)
    R.arrays = arrays
    P = I.prover
    P.assume(n >= 0)
    k = z3.Int("k")
    for p in names:
        t = z3.Select(arrays[p], k)
        P.assume(forall(k, typed(t), patterns=[t]))
    accept = z3.Or(*[z3.And(*p.pc) if p.pc else z3.BoolVal(True) for p in ok])
    R.accept = (j, accept)
    P.assume(forall(k, implies(z3.And(k >= 0, k < n), z3.substitute(accept, (j, k)))))
    return R


def _rebind(I, v):
    """values coming out of a nested exploration: only data (terms / primitives) is allowed"""
    if isinstance(v, (Sym, str, int, bool, float, bytes, type(None))):
        return v
    raise OutOfReach("constructor stores a structured value in a part field: %r" % (v,))


def hook_children_check(I):
    """checks.children is used through its contract (verified on its own in C13):
    returns [] for None, the value itself when every child is an instance of the
    required class, raises ValueError otherwise."""
    def children(I_, f, args, kwargs):
        value, child_class = args[0], args[1]
        if value is None:
            return IList()
        if isinstance(value, RSeq):
            if not value.region.cls.issubclass(child_class):
                I_.raise_builtin("ValueError", "Child node has to be of type %s" % child_class.name)
            return value
        if isinstance(value, MapSeq):
            v = value.value
            if isinstance(v, (IObject, RObj)) and v.cls.issubclass(child_class):
                return value
            raise OutOfReach("checks.children on a mapped sequence of unknown class")
        for ch in I_.iterate(value):
            if not (isinstance(ch, (IObject, RObj)) and ch.cls.issubclass(child_class)):
                I_.raise_builtin("ValueError", "Child node has to be of type %s" % child_class.name)
        return value
    I.call_hooks[(CHECKS_FILE, "children")] = children


def make_message(I, cls, tag, rid, mk=any_val, children="symbolic"):
    """An instance of message class `cls` built by its real constructor.
    children: 'symbolic' (any number), an int k (exactly k children built by the
    real part constructor), or None."""
    names, required = init_params(cls)
    kw = {}
    for p in names:
        if p == "children":
            continue
        kw[p] = mk(I, "%s_%s" % (tag, p))
    kcls = children_class_of(I, cls)
    R = None
    if "children" in names and kcls is not None and children is not None:
        if children == "symbolic":
            n = I.fresh("%s_nchildren" % tag, IntS)
            R = derive_region(I, kcls, rid, n, "%s_child" % tag, mk)
            kw["children"] = RSeq(R, None, "list", "%s_children" % tag)
        else:
            items = []
            for c in range(children):
                pn, _ = init_params(kcls)
                items.append(I.call(kcls, [], {p: mk(I, "%s_c%d_%s" % (tag, c, p)) for p in pn}))
            kw["children"] = tuple(items)
    m = I.call(cls, [], kw)
    return m, R


def make_part(I, cls, tag, mk=any_val):
    names, _ = init_params(cls)
    return I.call(cls, [], {p: mk(I, "%s_%s" % (tag, p)) for p in names})


# ---- spec view (from the statement of C20) -----------------------------------------------------
def render_eq(I, x, y):
    """attributes agree: both absent, or both present with the same wire rendering"""
    from pyvc.builtins_model import py_str_of
    tx, ty = I.to_term(x), I.to_term(y)
    sx, sy = py_str_of(I, x), py_str_of(I, y)
    e = get_s(I.to_term(sx)) == get_s(I.to_term(sy))
    return z3.And(is_none(tx) == is_none(ty), implies(z3.Not(is_none(tx)), e))


def view_eq_obj(I, a, b, skip=("children",)):
    """same attributes (every instance field incl. the text value), per the spec view"""
    fa = a.fields if isinstance(a, IObject) else {k: I.getattr(a, k) for k in a.region.fields}
    fb = b.fields if isinstance(b, IObject) else {k: I.getattr(b, k) for k in b.region.fields}
    if set(fa) != set(fb):
        return z3.BoolVal(False)
    cs = []
    for k in fa:
        if k in skip:
            continue
        cs.append(render_eq(I, fa[k], fb[k]))
    return z3.And(*cs) if cs else z3.BoolVal(True)


def view_eq_message(I, a, b):
    if a.cls is not b.cls:
        return z3.BoolVal(False)
    cs = [view_eq_obj(I, a, b)]
    ca, cb = a.fields.get("children", MISSING), b.fields.get("children", MISSING)
    if (ca is MISSING) != (cb is MISSING):
        return z3.BoolVal(False)
    if ca is not MISSING:
        if isinstance(ca, RSeq) and isinstance(cb, RSeq):
            j = z3.Int("vj")
            ea = view_eq_obj(I, RObj(ca.region, j), RObj(cb.region, j), skip=())
            cs.append(ca.region.length == cb.region.length)
            cs.append(forall(j, implies(z3.And(j >= 0, j < ca.region.length), ea)))
        else:
            la = list(ca) if isinstance(ca, tuple) else list(ca.items)
            lb = list(cb) if isinstance(cb, tuple) else list(cb.items)
            if len(la) != len(lb):
                return z3.BoolVal(False)
            for x, y in zip(la, lb):
                if x.cls is not y.cls:
                    return z3.BoolVal(False)
                cs.append(view_eq_obj(I, x, y, skip=()))
    return z3.And(*cs)


def truth_term(I, r):
    if isinstance(r, Sym):
        return smt.truthy(r.term)
    return z3.BoolVal(bool(I.truth(r)))


# ---- C20 tasks ------------------------------------------------------------------------------------
def c20_witness(I, a, b):
    def w(m):
        def conc(v):
            t = m.eval(I.to_term(v), model_completion=True)
            if z3.is_true(m.eval(is_str(t), model_completion=True)):
                return m.eval(get_s(t), model_completion=True).as_string()
            if z3.is_true(m.eval(smt.is_int(t), model_completion=True)):
                return m.eval(smt.get_i(t), model_completion=True).as_long()
            return None

        def obj(o):
            d = {"class": o.cls.name, "module": o.cls.module.name, "fields": {}}
            for k, v in o.fields.items():
                if k == "children":
                    if isinstance(v, RSeq):
                        n = m.eval(v.region.length, model_completion=True).as_long()
                        if n > 4:
                            d["too_large"] = True
                            n = 4
                        d["children"] = []
                        for i in range(n):
                            ro = RObj(v.region, z3.IntVal(i))
                            d["children"].append({"class": v.region.cls.name, "module": v.region.cls.module.name,
                                                  "fields": {f: conc(I.getattr(ro, f)) for f in v.region.fields}})
                    else:
                        d["children"] = [obj(x) for x in (v if isinstance(v, tuple) else v.items)]
                else:
                    d["fields"][k] = conc(v)
            return d
        return {"replay_kind": "codec.eq", "a": obj(a), "b": obj(b)}
    return w


def task_c20_message(ident, children):
    """(a == b)  <=>  same kind, same attributes, same text, same ordered children."""
    def task(I, run):
        cls = find_class(I, ident)
        hook_children_check(I)
        try:
            a, Ra = make_message(I, cls, "a", 30, children=children)
            b, Rb = make_message(I, cls, "b", 31, children=children)
        except IRaise:
            raise PathEnd()
        label = "%s,children=%s" % (cls.name, children)
        run.explorer.witness = c20_witness(I, a, b)
        run.explorer.minimize = [r.length for r in (Ra, Rb) if r is not None]
        run.cover("cover[%s]" % label)
        try:
            r = I.compare(__import__("ast").Eq(), a, b)
        except IRaise as e:
            run.fail("C20|eq[%s]/raises-nothing" % label, "== raised %s" % e)
            return
        code = truth_term(I, r)
        spec = view_eq_message(I, a, b)
        kind = "C20" if children == "symbolic" else "C20"
        run.oblige("%s|eq[%s]/equal-objects-compare-equal" % (kind, label), implies(spec, code))
        run.oblige("%s|eq[%s]/any-difference-compares-unequal" % (kind, label), implies(code, spec))
        run.canary("C20|canary[%s]/everything-compares-equal" % label, code)
        run.canary("C20|canary[%s]/nothing-compares-equal" % label, z3.Not(code))
    return task


def task_c20_part(ident):
    def task(I, run):
        cls = find_class(I, ident)
        try:
            a = make_part(I, cls, "a")
            b = make_part(I, cls, "b")
        except IRaise:
            raise PathEnd()
        label = cls.name
        run.explorer.witness = c20_witness(I, a, b)
        try:
            r = I.compare(__import__("ast").Eq(), a, b)
        except IRaise as e:
            run.fail("C20|eq[%s]/raises-nothing" % label, "== raised %s" % e)
            return
        code = truth_term(I, r)
        spec = view_eq_obj(I, a, b, skip=())
        run.oblige("C20|eq[%s]/equal-objects-compare-equal" % label, implies(spec, code))
        run.oblige("C20|eq[%s]/any-difference-compares-unequal" % label, implies(code, spec))
        run.canary("C20|canary[%s]/everything-compares-equal" % label, code)
    return task


def task_c20_cross(ident):
    """messages / parts of different kinds never compare equal (one task per class, against every other)."""
    def task(I, run):
        cls = find_class(I, ident)
        hook_children_check(I)
        msgs, parts = classes(I)
        is_msg = cls in msgs
        try:
            a = make_message(I, cls, "a", 30, children=0)[0] if is_msg else make_part(I, cls, "a")
        except IRaise:
            raise PathEnd()
        others = [c for c in (msgs if is_msg else parts) if c is not cls]
        k = run.choice(len(others), "other class")
        oc = others[k]
        try:
            b = make_message(I, oc, "b", 31, children=0)[0] if is_msg else make_part(I, oc, "b")
        except IRaise:
            raise PathEnd()
        run.explorer.witness = c20_witness(I, a, b)
        try:
            r = I.compare(__import__("ast").Eq(), a, b)
        except IRaise as e:
            run.fail("C20|eq[%s vs %s]/raises-nothing" % (cls.name, oc.name), "== raised %s" % e)
            return
        run.oblige("C20|eq[%s vs %s]/different-kinds-compare-unequal" % (cls.name, oc.name), z3.Not(truth_term(I, r)))
    return task


# =====================================================================================================
# C13 -- the parser accepts only protocol-conformant messages
# =====================================================================================================
# oracle: the protocol's vocabularies and syntax (INDI white paper), independent of indi/message/const.py
VOCAB = {
    "State": ("Idle", "Ok", "Busy", "Alert"),
    "Permissions": ("ro", "wo", "rw"),
    "SwitchRule": ("OneOfMany", "AtMostOne", "AnyOfMany"),
    "SwitchState": ("On", "Off"),
    "BLOBEnable": ("Never", "Also", "Only"),
}
# constrained fields per tag: field -> vocabulary
FIELD_VOCAB = {
    "defTextVector": {"state": "State", "perm": "Permissions"},
    "defNumberVector": {"state": "State", "perm": "Permissions"},
    "defSwitchVector": {"state": "State", "perm": "Permissions", "rule": "SwitchRule"},
    "defBLOBVector": {"state": "State", "perm": "Permissions"},
    "defLightVector": {"state": "State"},
    "setTextVector": {"state": "State"}, "setNumberVector": {"state": "State"}, "setSwitchVector": {"state": "State"},
    "setBLOBVector": {"state": "State"}, "setLightVector": {"state": "State"},
    "enableBLOB": {"value": "BLOBEnable"},
    "oneLight": {"value": "State"},
    "defSwitch": {"value": "SwitchState"}, "oneSwitch": {"value": "SwitchState"},
    "defLight": {"value": "State"},
}
# attributes the protocol requires (must be present, i.e. not None, on every parsed message)
REQUIRED = {
    "defTextVector": ("device", "name", "state", "perm"), "defNumberVector": ("device", "name", "state", "perm"),
    "defSwitchVector": ("device", "name", "state", "perm", "rule"), "defBLOBVector": ("device", "name", "state", "perm"),
    "defLightVector": ("device", "name", "state"),
    "setTextVector": ("device", "name"), "setNumberVector": ("device", "name"), "setSwitchVector": ("device", "name"),
    "setBLOBVector": ("device", "name"), "setLightVector": ("device", "name"),
    "newTextVector": ("device", "name"), "newNumberVector": ("device", "name"), "newSwitchVector": ("device", "name"),
    "newBLOBVector": ("device", "name"),
    "enableBLOB": ("device", "value"), "delProperty": ("device",), "getProperties": ("version",),
    "message": (), "pingRequest": ("uid",), "pingReply": ("uid",), "oneLight": ("name", "value"),
    "defText": ("name",), "defNumber": ("name", "format", "min", "max", "step"), "defSwitch": ("name", "value"),
    "defLight": ("name", "value"), "defBLOB": ("name",),
    "oneText": ("name",), "oneNumber": ("name",), "oneSwitch": ("name", "value"), "oneBLOB": ("name", "size", "format"),
}
# child kind each vector requires
CHILD_TAG = {
    "defTextVector": "defText", "defNumberVector": "defNumber", "defSwitchVector": "defSwitch", "defBLOBVector": "defBLOB",
    "defLightVector": "defLight", "setTextVector": "oneText", "setNumberVector": "oneNumber", "setSwitchVector": "oneSwitch",
    "setBLOBVector": "oneBLOB", "setLightVector": "oneLight", "newTextVector": "oneText", "newNumberVector": "oneNumber",
    "newSwitchVector": "oneSwitch", "newBLOBVector": "oneBLOB",
}
NUMBER_TAGS = ("defNumber", "oneNumber")


THOROUGH = __import__("os").environ.get("VERIF_TIER") == "thorough"


def number_language():
    """INDI number syntax (generous superset of what a peer may send): integer, decimal,
    exponent notation, or sexagesimal with ':' ';' or blank separators."""
    d = z3.Range("0", "9")
    ds = z3.Plus(d)
    sign = z3.Option(z3.Union(z3.Re("-"), z3.Re("+")))
    dec = z3.Union(z3.Concat(ds, z3.Option(z3.Concat(z3.Re("."), z3.Star(d)))), z3.Concat(z3.Re("."), ds))
    exp = z3.Option(z3.Concat(z3.Union(z3.Re("e"), z3.Re("E")), sign, ds))
    sep = z3.Union(z3.Re(":"), z3.Re(";"), z3.Re(" "))
    field = z3.Concat(ds, z3.Option(z3.Concat(z3.Re("."), z3.Star(d))))
    sexa = z3.Concat(sign, ds, sep, field, z3.Option(z3.Concat(sep, field)))
    return z3.Union(z3.Concat(sign, dec, exp), sexa)


def in_vocab(t, vocab):
    return z3.Or(*[t == VStr(z3.StringVal(x)) for x in VOCAB[vocab]])


def str_of(I, v):
    from pyvc.builtins_model import py_str_of
    return get_s(I.to_term(py_str_of(I, v)))


def conformance(I, obj, tag):
    """list of (clause-name, formula): the constrained fields of a parsed object per the oracle."""
    out = []
    f = obj.fields
    for fld, voc in FIELD_VOCAB.get(tag, {}).items():
        if fld not in f:
            out.append(("%s-field-exists" % fld, z3.BoolVal(False)))
            continue
        out.append(("%s-in-%s-vocabulary" % (fld, voc), in_vocab(I.to_term(f[fld]), voc)))
    for fld in REQUIRED.get(tag, ()):
        if fld not in f:
            out.append(("required-%s-present" % fld, z3.BoolVal(False)))
        else:
            out.append(("required-%s-present" % fld, z3.Not(is_none(I.to_term(f[fld])))))
    if tag in NUMBER_TAGS:
        v = f.get("value")
        t = I.to_term(v)
        out.append(("value-has-number-syntax", z3.Or(is_none(t), z3.InRe(str_of(I, v), number_language()))))
    return out


def tag_of(I, cls):
    return I.call(I.getattr(cls, "tag_name"), [], {})


def c13_witness(I, terms):
    def w(m):
        out = {"replay_kind": "codec.parse"}
        for k, t in terms.items():
            if isinstance(t, (str, int, bool, type(None))):
                out[k] = t
                continue
            v = m.eval(I.to_term(t), model_completion=True)
            if z3.is_true(m.eval(is_str(v), model_completion=True)):
                out[k] = m.eval(get_s(v), model_completion=True).as_string()
            elif str(v) == "VNone":
                out[k] = None
            else:
                out[k] = str(v)
        return out
    return w


def task_c13_dictionary(vocab):
    def task(I, run):
        ch = I.import_module("indi.message.checks")
        const = I.import_module("indi.message.const")
        cls = const.ns[vocab]
        v = I.fresh_sym("v")
        run.explorer.witness = c13_witness(I, {"value": v, "vocab": vocab, "what": "dictionary"})
        f = ch.ns["dictionary"]
        try:
            r = I.call(f, [v, cls], {})
        except IRaise as e:
            if e.value.cls.name != "ValueError":
                run.fail("C13|checks.dictionary[%s]/raises-only-ValueError" % vocab, "raised %s" % e)
                return
            run.oblige("C13|checks.dictionary[%s]/rejects-only-foreign-values" % vocab, z3.Not(in_vocab(v.term, vocab)))
            return
        run.oblige("C13|checks.dictionary[%s]/accepts-only-the-vocabulary" % vocab, in_vocab(v.term, vocab))
        run.oblige("C13|checks.dictionary[%s]/returns-the-value" % vocab, I.to_term(r) == v.term)
        run.canary("C13|canary[dictionary %s]/accepts-nothing" % vocab, z3.BoolVal(False))
    return task


def _children_loop(I, ordinal, it):
    g = I.ghost
    if it is g.get("children_arg"):
        return _CHILDREN_LOOP
    return None


def _children_inv(ctx):
    g = ctx.ghost
    seq = g["children_arg"]
    K = ctx.role("required child class (2nd parameter)", lambda n: n.args.args[1].arg, "child_class")      # the class the code actually checks against
    if not isinstance(K, IClass):
        raise OutOfReach("checks.children: child_class is not a class")
    j = z3.Int("j")
    inst = ctx.interp.world.isinstance_one(ctx.interp, Sym(z3.Select(seq.elt, j)), K)
    inst = z3.BoolVal(inst) if isinstance(inst, bool) else inst
    return [("all-visited-children-are-of-the-required-kind", forall(j, implies(z3.And(j >= 0, j < ctx.i), inst)))]


_CHILDREN_LOOP = LoopContract(_children_inv, None, props="C13", label="children")
CHILDREN = Contract(CHECKS_FILE, "children", loop_selector=_children_loop)


def task_c13_children(ident):
    """checks.children(value, K): any sequence of arbitrary objects."""
    def task(I, run):
        ch = I.import_module("indi.message.checks")
        K = find_class(I, ident)
        n = I.fresh("n", IntS)
        run.assume(n >= 0)
        seq = SList(n, I.fresh("items", A_IV), None, "value")
        I.ghost.update(children_arg=seq, children_class=K)
        I.contracts[CHILDREN.key] = CHILDREN
        j = z3.Int("j")
        inst = I.world.isinstance_one(I, Sym(z3.Select(seq.elt, j)), K)
        allinst = forall(j, implies(z3.And(j >= 0, j < n), inst))
        try:
            r = I.call(ch.ns["children"], [seq, K], {})
        except IRaise as e:
            if e.value.cls.name != "ValueError":
                run.fail("C13|checks.children[%s]/raises-only-ValueError" % K.name, "raised %s" % e)
            return
        run.oblige("C13|checks.children[%s]/accepts-only-children-of-the-required-kind" % K.name, allinst)
        run.oblige("C13|checks.children[%s]/returns-the-sequence" % K.name, z3.BoolVal(r is seq))
    return task


def task_c13_ctor(ident):
    """A vector constructor given an arbitrary sequence of arbitrary objects as children and
    arbitrary attribute values: either it raises or the message is conformant -- in particular
    every child is of the kind the protocol requires for this vector (any number of children)."""
    def task(I, run):
        cls = find_class(I, ident)
        msgs, parts = classes(I)
        tag = tag_of(I, cls)
        names, _ = init_params(cls)
        n = I.fresh("n", IntS)
        run.assume(n >= 0)
        seq = SList(n, I.fresh("items", A_IV), None, "children")
        I.ghost.update(children_arg=seq)
        I.contracts[CHILDREN.key] = CHILDREN
        kw = {p: wire_val(I, "arg_" + p) for p in names if p != "children"}
        kw["children"] = seq
        try:
            m = I.call(cls, [], kw)
        except IRaise:
            return
        want = [p for p in parts if tag_of(I, p) == CHILD_TAG[tag]]
        if len(want) != 1:
            run.fail("C13|ctor[%s]/required-child-kind-exists" % tag, "no unique part class with tag %s" % CHILD_TAG[tag])
            return
        j = z3.Int("j")
        inst = I.world.isinstance_one(I, Sym(z3.Select(seq.elt, j)), want[0])
        run.oblige("C13|ctor[%s]/every-child-is-of-the-required-kind" % tag, forall(j, implies(z3.And(j >= 0, j < n), inst)))
        for nm, fml in conformance(I, m, tag):
            if nm.startswith("required-"):
                continue        # presence is a property of the parser's keyword binding (task_c13_parse)
            run.oblige("C13|ctor[%s]/%s" % (tag, nm), fml)
    return task


def task_c13_number():
    def task(I, run):
        ch = I.import_module("indi.message.checks")
        v = I.fresh_sym("v")
        run.assume(z3.Or(is_none(v.term), is_str(v.term)))
        run.explorer.witness = c13_witness(I, {"value": v, "what": "number"})
        try:
            r = I.call(ch.ns["number"], [v], {})
        except IRaise as e:
            if e.value.cls.name != "ValueError":
                run.fail("C13|checks.number/raises-only-ValueError", "raised %s" % e)
            return
        # (the regexps' `$` tolerates one trailing newline; the parser strips text before it gets here --
        #  the tight clause is proved on from_xml's result, see task_c13_parse)
        run.oblige("C13|checks.number/accepts-only-number-syntax",
                   z3.Or(is_none(v.term), z3.InRe(get_s(v.term), z3.Concat(number_language(), z3.Option(z3.Re("\n"))))))
        run.oblige("C13|checks.number/returns-the-value", I.to_term(r) == v.term)
    return task


def xml_attrib(I, names, label):
    """attribute map of an arbitrary XML element, restricted to the names the constructors
    can see (every other attribute lands in **junk): each present or absent, any string."""
    d = IDict()
    for p in names:
        v = I.fresh_sym("%s_attr_%s" % (label, p))
        I.prover.assume(is_str(v.term))
        d.d[p] = Maybe(I.fresh("%s_has_%s" % (label, p), z3.BoolSort()), v)
    return d


def xml_text(I, label):
    t = I.fresh_sym("%s_text" % label)
    I.prover.assume(z3.Or(is_none(t.term), is_str(t.term)))
    return t


def task_c13_parse(ident, nchildren):
    """IndiMessage.from_xml on an arbitrary element carrying this class's tag: either the
    parse fails or the result is conformant."""
    def task(I, run):
        from pyvc.stdlib_models import XElem
        base = I.import_module("indi.message.base")
        I.import_module("indi.message")
        cls = find_class(I, ident)
        msgs, parts = classes(I)
        is_msg = cls in msgs
        tag = tag_of(I, cls)
        names, _ = init_params(cls)
        attr_names = list(dict.fromkeys(list(names) + ["children", "value", "zz_other"]))
        x = XElem(tag, xml_attrib(I, attr_names, "x"), xml_text(I, "x"))
        wit = {"tag": tag, "what": "parse", "text": x.text}
        for k, mv in x.attrib.d.items():
            wit["attr:" + k] = Sym(z3.If(mv.cond, mv.value.term, VNone))
        if is_msg:
            for c in range(nchildren):
                kinds = list(parts)
                if not THOROUGH:
                    # quick tier: the required kind and one foreign kind
                    req = [p for p in parts if tag_of(I, p) == CHILD_TAG.get(tag)]
                    other = [p for p in parts if p not in req][:1]
                    kinds = req + other
                pk = run.choice(len(kinds), "child kind")
                pc = kinds[pk]
                pn, _ = init_params(pc)
                cx = XElem(tag_of(I, pc), xml_attrib(I, list(dict.fromkeys(list(pn) + ["value", "zz_other"])), "c%d" % c), xml_text(I, "c%d" % c))
                x.children.append(cx)
                wit["child%d" % c] = tag_of(I, pc)
        run.explorer.witness = c13_witness(I, wit)
        label = "%s,%d children" % (tag, nchildren) if is_msg else tag
        root = base.ns["IndiMessage"] if is_msg else base.ns["IndiMessagePart"]
        try:
            r = I.call(I.getattr(root, "from_xml"), [x], {})
        except IRaise:
            run.cover("cover[%s]/rejected" % label)
            return          # parsing failed: allowed
        run.cover("cover[%s]/accepted" % label)
        if not isinstance(r, IObject):
            run.fail("C13|parse[%s]/yields-a-message-object" % label, "from_xml returned %r" % (r,))
            return
        run.oblige("C13|parse[%s]/kind-matches-the-tag" % label, z3.BoolVal(tag_of(I, r.cls) == tag))
        for nm, fml in conformance(I, r, tag):
            run.oblige("C13|parse[%s]/%s" % (label, nm), fml)
        if tag in CHILD_TAG:
            ch = r.fields.get("children")
            items = list(ch) if isinstance(ch, tuple) else (list(ch.items) if isinstance(ch, IList) else None)
            if isinstance(ch, (Sym, str)):
                # an XML *attribute* named "children": no child elements at all -- must behave as an empty sequence
                lt = z3.Length(get_s(I.to_term(ch)))
                run.oblige("C13|parse[%s]/children-attribute-is-not-mistaken-for-children" % label, lt == 0)
            elif items is None:
                run.fail("C13|parse[%s]/children-are-a-sequence-of-parts" % label, "children is %r" % (ch,))
            else:
                for n_, c in enumerate(items):
                    okc = isinstance(c, IObject) and tag_of(I, c.cls) == CHILD_TAG[tag]
                    run.oblige("C13|parse[%s]/child-%d-is-of-the-required-kind" % (label, n_), z3.BoolVal(okc))
                    if okc:
                        for nm, fml in conformance(I, c, CHILD_TAG[tag]):
                            run.oblige("C13|parse[%s]/child-%d/%s" % (label, n_, nm), fml)
        run.canary("C13|canary[%s]/nothing-is-ever-accepted" % label, z3.BoolVal(False))
    return task


def task_c13_unknown_tag():
    def task(I, run):
        from pyvc.stdlib_models import XElem
        base = I.import_module("indi.message.base")
        I.import_module("indi.message")
        msgs, parts = classes(I)
        which = run.choice(2, "message or part")
        known = [tag_of(I, c) for c in (msgs if which == 0 else parts)]
        t = I.fresh_sym("tag")
        run.assume(is_str(t.term))
        for k in known:
            run.assume(t.term != VStr(z3.StringVal(k)))
        x = XElem(t, IDict(), None)
        root = base.ns["IndiMessage"] if which == 0 else base.ns["IndiMessagePart"]
        try:
            I.call(I.getattr(root, "from_xml"), [x], {})
        except IRaise:
            return
        run.fail("C13|parse[unknown tag]/is-rejected", "an element whose tag names no protocol %s was parsed" % ("message" if which == 0 else "part"),
                 witness=c13_witness(I, {"tag": t, "what": "parse"}))
    return task


# =====================================================================================================
# C03 -- serialize-then-parse is the identity
# =====================================================================================================
def stripped_text(I, base):
    """text XML can carry without surrounding whitespace (the statement excludes it), or absent"""
    from pyvc.strings import STRIPPED, py_strip
    s = I.fresh_sym(base)
    t = s.term
    I.prover.assume(z3.Or(is_none(t), is_str(t)))
    I.prover.assume(implies(is_str(t), z3.And(z3.InRe(get_s(t), STRIPPED), py_strip(get_s(t)) == get_s(t))))
    return s


def valid_args(I, cls, tag, prefix):
    """constructor arguments of a valid protocol message: parameters without default are
    present; the element text (`value`) has no surrounding whitespace"""
    names, required = init_params(cls)
    kw = {}
    for p in names:
        if p == "children":
            continue
        if p == "value":
            v = stripped_text(I, "%s_%s" % (prefix, p))
        else:
            v = any_val(I, "%s_%s" % (prefix, p))
        if p in required:
            I.prover.assume(z3.Not(is_none(v.term)))
        kw[p] = v
    return kw


def render(I, v):
    """wire rendering of an attribute: None stays absent, anything else is str(v)"""
    from pyvc.builtins_model import py_str_of
    t = I.to_term(v)
    return z3.If(is_none(t), VNone, VStr(get_s(I.to_term(py_str_of(I, v)))))


def norm_text(I, v):
    """statement's normalisation of text: empty text equals absent text"""
    r = render(I, v)
    return z3.If(r == VStr(z3.StringVal("")), VNone, r)


def same_after_roundtrip(I, run, label, m, m2, text_field="value"):
    ok = True
    run.oblige("C03|%s/same-kind" % label, z3.BoolVal(isinstance(m2, IObject) and m2.cls is m.cls))
    if not (isinstance(m2, IObject) and m2.cls is m.cls):
        return False
    run.oblige("C03|%s/same-set-of-fields" % label, z3.BoolVal(list(m.fields) == list(m2.fields)))
    for f, v in m.fields.items():
        if f == "children" or f not in m2.fields:
            continue
        want = norm_text(I, v) if f == text_field else render(I, v)
        run.oblige("C03|%s/attribute-%s-survives" % (label, f), I.to_term(m2.fields[f]) == want)
    return ok


def xml_equal(I, a, b):
    """element equality: tag, attributes (names, values, order), text, children"""
    from pyvc.builtins_model import py_eq
    cs = [py_eq(I, a.tag, b.tag)]
    ka, kb = list(a.attrib.d), list(b.attrib.d)
    if ka != kb:
        return z3.BoolVal(False)
    cs.append(py_eq(I, a.attrib, b.attrib))
    # the serializer writes empty text and absent text identically (short empty element)
    empty = VStr(z3.StringVal(""))
    ta = I.to_term(a.text) if a.text is not None else VNone
    tb = I.to_term(b.text) if b.text is not None else VNone
    cs.append(z3.If(ta == empty, VNone, ta) == z3.If(tb == empty, VNone, tb))
    if len(a.children) != len(b.children):
        return z3.BoolVal(False)
    for x, y in zip(a.children, b.children):
        cs.append(xml_equal(I, x, y))
    cs = [z3.BoolVal(c) if isinstance(c, bool) else c for c in cs]
    return z3.And(*cs)


def c03_witness(I, m):
    w0 = c20_witness(I, m, m)

    def w(model):
        d = w0(model)
        return {"replay_kind": "codec.roundtrip", "m": d["a"]}
    return w


def task_c03_message(ident, nchildren):
    def task(I, run):
        base = I.import_module("indi.message.base")
        I.import_module("indi.message")
        cls = find_class(I, ident)
        tag = tag_of(I, cls)
        label = "roundtrip[%s,%d children]" % (tag, nchildren)
        kcls = children_class_of(I, cls)
        names, _ = init_params(cls)
        kw = valid_args(I, cls, tag, "m")
        if "children" in names and kcls is not None:
            items = []
            try:
                for c in range(nchildren):
                    items.append(I.call(kcls, [], valid_args(I, kcls, tag_of(I, kcls), "c%d" % c)))
            except IRaise:
                raise PathEnd()      # not a valid child
            kw["children"] = tuple(items)
        elif nchildren:
            raise PathEnd()
        try:
            m = I.call(cls, [], kw)
        except IRaise:
            raise PathEnd()          # not a valid message
        run.explorer.witness = c03_witness(I, m)
        run.cover("cover[%s]" % label)
        IM = base.ns["IndiMessage"]
        try:
            e = I.call(I.getattr(m, "to_xml"), [], {})
        except IRaise as ex:
            run.fail("C03|%s/serialising-a-valid-message-raises-nothing" % label, "to_xml raised %s" % ex)
            return
        run.oblige("C03|%s/element-tag-is-the-kind's-tag" % label, z3.BoolVal(e.tag == tag))
        import copy
        e_snapshot = snapshot_xml(e)
        try:
            m2 = I.call(I.getattr(IM, "from_xml"), [e], {})
        except IRaise as ex:
            run.fail("C03|%s/own-output-parses" % label, "from_xml(to_xml(m)) raised %s" % ex)
            return
        same_after_roundtrip(I, run, label, m, m2)
        ch, ch2 = m.fields.get("children", MISSING), m2.fields.get("children", MISSING) if isinstance(m2, IObject) else MISSING
        if ch is not MISSING and isinstance(m2, IObject) and m2.cls is m.cls:
            l1 = list(ch) if isinstance(ch, tuple) else list(ch.items)
            l2 = list(ch2) if isinstance(ch2, tuple) else (list(ch2.items) if isinstance(ch2, IList) else None)
            run.oblige("C03|%s/same-number-of-children" % label, z3.BoolVal(l2 is not None and len(l1) == len(l2)))
            if l2 is not None and len(l1) == len(l2):
                for n_, (x, y) in enumerate(zip(l1, l2)):
                    same_after_roundtrip(I, run, "%s/child-%d" % (label, n_), x, y)
        if isinstance(m2, IObject):
            try:
                e2 = I.call(I.getattr(m2, "to_xml"), [], {})
                run.oblige("C03|%s/second-serialisation-is-identical" % label, xml_equal(I, e_snapshot, e2))
            except IRaise as ex:
                run.fail("C03|%s/second-serialisation-raises-nothing" % label, "to_xml of the parsed message raised %s" % ex)
        run.canary("C03|canary[%s]/every-attribute-is-lost" % label, z3.BoolVal(False))
        # byte level: to_string / from_string under the assumed serializer/parser round-trip contract
        install_et_contract(I)
        try:
            data = I.call(I.getattr(m, "to_string"), [], {})
            m3 = I.call(I.getattr(IM, "from_string"), [data], {})
        except IRaise as ex:
            run.fail("C03|%s/from_string(to_string(m))-raises-nothing" % label, "raised %s" % ex)
            return
        same_after_roundtrip(I, run, label + "/bytes", m, m3)
        try:
            data2 = I.call(I.getattr(m3, "to_string"), [], {})
            if isinstance(data, bytes) and isinstance(data2, bytes):
                # a path on which everything is concrete (e.g. no attribute set at all): compare the bytes themselves
                run.oblige("C03|%s/bytes/serialising-again-yields-identical-bytes" % label, z3.BoolVal(data == data2))
            else:
                e3 = I.ghost["et_serialised"].get(_tostring_key(I, data2))
                e1 = I.ghost["et_serialised"].get(_tostring_key(I, data))
                if e1 is None or e3 is None:
                    raise OutOfReach("to_string does not frame the serialised element as declaration + element + newline in a recognisable way")
                run.oblige("C03|%s/bytes/serialising-again-yields-identical-bytes" % label, xml_equal(I, e1, e3))
        except IRaise as ex:
            run.fail("C03|%s/bytes/second-serialisation-raises-nothing" % label, "raised %s" % ex)
    return task


DECL = b'<?xml version="1.0"?>\n'


def _tostring_key(I, data):
    """the serialised-element term inside  DECL + tostring(e) + b"\\n"  (None if the framing differs)"""
    t = S(I.to_term(data))
    for k, (term, snap) in I.ghost.get("et_terms", {}).items():
        want = S(smt.VBytes(z3.Concat(z3.StringVal(DECL.decode()), term, z3.StringVal("\n"))))
        if t.eq(want):
            return k
    return None


def install_et_contract(I):
    """Assumed contract of xml.etree (sampled natively on every run, never proved):
    tostring is injective up to XML equivalence and fromstring(decl + tostring(e) + newline)
    is an element with e's tag, attribute map, text and children (empty text == absent)."""
    I.ghost.setdefault("et_terms", {})
    I.ghost.setdefault("et_serialised", {})

    def tostring(I_, x):
        k = len(I_.ghost["et_terms"])
        term = z3.Const("et_bytes!%d" % k, z3.StringSort())
        snap = snapshot_xml(x)
        I_.ghost["et_terms"][k] = (term, snap)
        I_.ghost["et_serialised"][k] = snap
        return Sym(smt.VBytes(term))

    def fromstring(I_, s):
        k = _tostring_key(I_, s)
        if k is None:
            raise OutOfReach("ET.fromstring on text that is not  declaration + tostring(e) + newline")
        return snapshot_xml(I_.ghost["et_serialised"][k])
    I.et_tostring_hook = tostring
    I.et_fromstring_hook = fromstring


def task_c03_foreign(ident):
    """Equivalent foreign spelling of the library's own output -- attributes in another order,
    text surrounded by (indentation) whitespace -- parses to the same message."""
    def task(I, run):
        from pyvc.strings import py_strip, _WS
        from pyvc.stdlib_models import XElem
        base = I.import_module("indi.message.base")
        I.import_module("indi.message")
        cls = find_class(I, ident)
        msgs, parts = classes(I)
        is_msg = cls in msgs
        tag = tag_of(I, cls)
        label = "foreign-spelling[%s]" % tag
        try:
            m = I.call(cls, [], valid_args(I, cls, tag, "m"))
        except IRaise:
            raise PathEnd()
        run.explorer.witness = c03_witness(I, m)
        root = base.ns["IndiMessage"] if is_msg else base.ns["IndiMessagePart"]
        try:
            e = I.call(I.getattr(m, "to_xml"), [] if is_msg else [XElem("parent", IDict(), None)], {})
            m1 = I.call(I.getattr(root, "from_xml"), [snapshot_xml(e)], {})
        except IRaise:
            raise PathEnd()      # reported by the round-trip task
        f = XElem(e.tag, IDict(dict(reversed(list(e.attrib.d.items())))), e.text)
        if e.text is not None:
            ws1, ws2 = I.fresh("ws1", z3.StringSort()), I.fresh("ws2", z3.StringSort())
            t = get_s(I.to_term(e.text))
            run.assume(z3.And(z3.InRe(ws1, z3.Star(_WS)), z3.InRe(ws2, z3.Star(_WS))))
            padded = z3.Concat(ws1, t, ws2)
            # assumed contract of str.strip on this term: surrounding whitespace is removed, nothing else
            run.assume(py_strip(padded) == py_strip(t))
            f.text = Sym(VStr(padded))
        try:
            m2 = I.call(I.getattr(root, "from_xml"), [f], {})
        except IRaise as ex:
            run.fail("C03|%s/parses" % label, "a reordered / indented spelling of the library's own output raised %s" % ex)
            return
        run.oblige("C03|%s/same-kind" % label, z3.BoolVal(isinstance(m2, IObject) and isinstance(m1, IObject) and m2.cls is m1.cls))
        if isinstance(m2, IObject) and isinstance(m1, IObject) and m2.cls is m1.cls:
            for fld, v in m1.fields.items():
                if fld == "children" or fld not in m2.fields:
                    continue
                a_, b_ = I.to_term(m2.fields[fld]), I.to_term(v)
                if fld == "value":      # statement: empty text equals absent text
                    empty = VStr(z3.StringVal(""))
                    a_, b_ = z3.If(a_ == empty, VNone, a_), z3.If(b_ == empty, VNone, b_)
                run.oblige("C03|%s/attribute-%s-is-read-the-same" % (label, fld), a_ == b_)
    return task


def snapshot_xml(e):
    from pyvc.stdlib_models import XElem
    x = XElem(e.tag, IDict(e.attrib.d), e.text)
    x.children = [snapshot_xml(c) for c in e.children]
    return x


def task_c03_part(ident):
    def task(I, run):
        from pyvc.stdlib_models import XElem
        base = I.import_module("indi.message.base")
        cls = find_class(I, ident)
        tag = tag_of(I, cls)
        label = "roundtrip[%s]" % tag
        try:
            p = I.call(cls, [], valid_args(I, cls, tag, "p"))
        except IRaise:
            raise PathEnd()
        run.explorer.witness = c03_witness(I, p)
        parent = XElem("parent", IDict(), None)
        try:
            e = I.call(I.getattr(p, "to_xml"), [parent], {})
        except IRaise as ex:
            run.fail("C03|%s/serialising-a-valid-part-raises-nothing" % label, "to_xml raised %s" % ex)
            return
        run.oblige("C03|%s/appended-to-its-parent-exactly-once" % label, z3.BoolVal(parent.children == [e]))
        snap = snapshot_xml(e)
        try:
            p2 = I.call(I.getattr(base.ns["IndiMessagePart"], "from_xml"), [e], {})
        except IRaise as ex:
            run.fail("C03|%s/own-output-parses" % label, "from_xml(to_xml(p)) raised %s" % ex)
            return
        same_after_roundtrip(I, run, label, p, p2)
        if isinstance(p2, IObject):
            parent2 = XElem("parent", IDict(), None)
            try:
                e2 = I.call(I.getattr(p2, "to_xml"), [parent2], {})
                run.oblige("C03|%s/second-serialisation-is-identical" % label, xml_equal(I, snap, e2))
            except IRaise as ex:
                run.fail("C03|%s/second-serialisation-raises-nothing" % label, "to_xml of the parsed part raised %s" % ex)
    return task


def task_c03_registry():
    """every kind the library can emit is registered with the parser, under pairwise distinct tags;
    to_string frames the element with the XML declaration and a newline"""
    def task(I, run):
        base = I.import_module("indi.message.base")
        I.import_module("indi.message")
        msgs, parts = classes(I)
        IM = base.ns["IndiMessage"]
        reg = list(I.getattr(IM, "_message_classes").items)
        tags = {}
        for c in msgs:
            emit = bool(I.getattr(c, "from_client")) or bool(I.getattr(c, "from_device"))
            if emit:
                run.oblige("C03|registry/%s-is-registered-with-the-parser" % c.name, z3.BoolVal(c in reg),
                           witness=lambda m, c=c: {"replay_kind": "codec.registry", "class": c.name, "module": c.module.name})
        for c in reg:
            t = tag_of(I, c)
            run.oblige("C03|registry/tag-%s-is-unique" % t, z3.BoolVal(t not in tags))
            tags[t] = c
        # the wire names are the protocol's (INDI white paper), not whatever tag_name computes
        protocol = {"defTextVector", "defNumberVector", "defSwitchVector", "defLightVector", "defBLOBVector", "setTextVector",
                    "setNumberVector", "setSwitchVector", "setLightVector", "setBLOBVector", "newTextVector", "newNumberVector",
                    "newSwitchVector", "newBLOBVector", "getProperties", "delProperty", "message", "enableBLOB", "pingRequest", "pingReply"}
        for t in sorted(protocol):
            run.oblige("C03|registry/protocol-kind-%s-has-a-class" % t, z3.BoolVal(t in tags))
        pprotocol = {"defText", "defNumber", "defSwitch", "defLight", "defBLOB", "oneText", "oneNumber", "oneSwitch", "oneLight", "oneBLOB"}
        ptags = {}
        for t in sorted(pprotocol):
            run.oblige("C03|registry/protocol-part-%s-has-a-class" % t, z3.BoolVal(t in [tag_of(I, c) for c in parts]))
        for c in parts:
            t = tag_of(I, c)
            run.oblige("C03|registry/part-tag-%s-is-unique" % t, z3.BoolVal(t not in ptags))
            ptags[t] = c
    return task
