"""Contracts and symbolic message construction for the message codec
(indi/message/*.py): properties C20 (structural equality), C13 (parser
conformance), C03 (round trip).

Messages are always built by running the *real* constructors on symbolic
arguments, so the object shapes (which fields exist, what the constructor
stores) are those of the code under verification.  Children are a symbolic-size
family of part objects whose field map is derived by running the real part
constructor once at a generic index.
"""
import z3
from pyvc import smt
from pyvc.smt import (Val, VNone, VStr, VBool, VRef, VInt, is_none, is_str, is_ref, get_s, S)
from pyvc.values import *
from pyvc.spec import LoopContract, Contract, forall, exists, implies, ite
from pyvc.interp import IRaise, OutOfReach, MISSING, PathEnd, Env

BASE_FILE = "indi/message/base.py"
CHECKS_FILE = "indi/message/checks.py"
IntS = z3.IntSort()
A_IV = z3.ArraySort(IntS, Val)


def classes(I):
    """(message classes, part classes) of the real class table; concrete leaves only."""
    base = I.import_module("indi.message.base")
    I.import_module("indi.message")
    IM, IP = base.ns["IndiMessage"], base.ns["IndiMessagePart"]
    msgs = [c for c in I.world.all_subclasses(IM) if c is not IM and not c.subclasses]
    parts = [c for c in I.world.all_subclasses(IP) if c is not IP and not c.subclasses]
    return msgs, parts


def class_names(repo_root):
    from pyvc.interp import World, Interp
    from pyvc import values
    values.reset_ids()
    I = Interp(World(repo_root))
    m, p = classes(I)
    return [c.name + "@" + c.module.name for c in m], [c.name + "@" + c.module.name for c in p]


def find_class(I, ident):
    name, mod = ident.split("@")
    m = I.import_module(mod)
    c = m.ns.get(name)
    if not isinstance(c, IClass):
        raise OutOfReach("class %s vanished" % ident)
    return c


def init_params(cls):
    from contracts.router import init_params as ip
    return ip(cls)


def children_class_of(I, cls):
    for nm in ("children_class", "child_class"):
        c, owner = cls.lookup(nm)
        if isinstance(c, IClass):
            return c
    return None


def any_val(I, base):
    """An attribute value as the wire or a driver can supply it: None, str, int or bool
    (rendered by str())."""
    s = I.fresh_sym(base)
    t = s.term
    I.prover.assume(z3.Or(is_none(t), is_str(t), smt.is_int(t)))
    return s


def wire_val(I, base):
    s = I.fresh_sym(base)
    I.prover.assume(z3.Or(is_none(s.term), is_str(s.term)))
    return s


def derive_region(I, cls, rid, n, label, mk=None):
    """A symbolic-size family of objects of part class `cls`: the real constructor is
    summarised by path enumeration on generic arguments (pyvc.summary); the field map
    of element k is the constructor's result at k, and "the constructor accepts element
    k" (no raising path) is the per-element conformance precondition."""
    from pyvc.summary import summarize
    from pyvc.builtins_model import subst_value
    names, required = init_params(cls)
    jname = "gen_" + label
    j = z3.Const(jname, IntS)
    arrays = {p: z3.Const("%s_%s" % (label, p), A_IV) for p in names}

    def typed(t):
        return z3.Or(is_none(t), is_str(t), smt.is_int(t))
    pre = [typed(z3.Select(arrays[p], j)) for p in names]
    ident = cls.name + "@" + cls.module.name

    def call(I2):
        c2 = find_class(I2, ident)
        return I2.call(c2, [], {p: Sym(z3.Select(arrays[p], j)) for p in names})
    paths = summarize(I, call, I.world.repo_root, I.world.sources, pre)
    ok = [p for p in paths if p.outcome == "ok"]
    if not ok:
        raise OutOfReach("constructor of %s accepts nothing" % cls.name)
    fnames = list(ok[0].value.fields)
    for p in ok:
        if list(p.value.fields) != fnames:
            raise OutOfReach("constructor of %s builds different shapes on different paths" % cls.name)
    fields = {}
    for f in fnames:
        # value of field f at the generic index: an if-chain over the accepting paths
        vals = [(z3.And(*p.pc) if p.pc else z3.BoolVal(True), I.to_term(_rebind(I, p.value.fields[f]))) for p in ok]
        t = vals[-1][1]
        for c, v in reversed(vals[:-1]):
            t = z3.If(c, v, t)
        t = S(t)
        fields[f] = ("fn", (lambda t_: (lambda I_, obj: Sym(S(z3.substitute(t_, (j, obj.idx))))))(t))
    R = Region(rid, cls, n, fields, label)
    R.arrays = arrays
    P = I.prover
    P.assume(n >= 0)
    k = z3.Int("k")
    for p in names:
        t = z3.Select(arrays[p], k)
        P.assume(forall(k, typed(t), patterns=[t]))
    accept = z3.Or(*[z3.And(*p.pc) if p.pc else z3.BoolVal(True) for p in ok])
    R.accept = (j, accept)
    P.assume(forall(k, implies(z3.And(k >= 0, k < n), z3.substitute(accept, (j, k)))))
    return R


def _rebind(I, v):
    """values coming out of a nested exploration: only data (terms / primitives) is allowed"""
    if isinstance(v, (Sym, str, int, bool, float, bytes, type(None))):
        return v
    raise OutOfReach("constructor stores a structured value in a part field: %r" % (v,))


def hook_children_check(I):
    """checks.children is used through its contract (verified on its own in C13):
    returns [] for None, the value itself when every child is an instance of the
    required class, raises ValueError otherwise."""
    def children(I_, f, args, kwargs):
        value, child_class = args[0], args[1]
        if value is None:
            return IList()
        if isinstance(value, RSeq):
            if not value.region.cls.issubclass(child_class):
                I_.raise_builtin("ValueError", "Child node has to be of type %s" % child_class.name)
            return value
        if isinstance(value, MapSeq):
            v = value.value
            if isinstance(v, (IObject, RObj)) and v.cls.issubclass(child_class):
                return value
            raise OutOfReach("checks.children on a mapped sequence of unknown class")
        for ch in I_.iterate(value):
            if not (isinstance(ch, (IObject, RObj)) and ch.cls.issubclass(child_class)):
                I_.raise_builtin("ValueError", "Child node has to be of type %s" % child_class.name)
        return value
    I.call_hooks[(CHECKS_FILE, "children")] = children


def make_message(I, cls, tag, rid, mk=any_val, children="symbolic"):
    """An instance of message class `cls` built by its real constructor.
    children: 'symbolic' (any number), an int k (exactly k children built by the
    real part constructor), or None."""
    names, required = init_params(cls)
    kw = {}
    for p in names:
        if p == "children":
            continue
        kw[p] = mk(I, "%s_%s" % (tag, p))
    kcls = children_class_of(I, cls)
    R = None
    if "children" in names and kcls is not None and children is not None:
        if children == "symbolic":
            n = I.fresh("%s_nchildren" % tag, IntS)
            R = derive_region(I, kcls, rid, n, "%s_child" % tag, mk)
            kw["children"] = RSeq(R, None, "list", "%s_children" % tag)
        else:
            items = []
            for c in range(children):
                pn, _ = init_params(kcls)
                items.append(I.call(kcls, [], {p: mk(I, "%s_c%d_%s" % (tag, c, p)) for p in pn}))
            kw["children"] = tuple(items)
    m = I.call(cls, [], kw)
    return m, R


def make_part(I, cls, tag, mk=any_val):
    names, _ = init_params(cls)
    return I.call(cls, [], {p: mk(I, "%s_%s" % (tag, p)) for p in names})


# ---- spec view (from the statement of C20) -----------------------------------------------------
def render_eq(I, x, y):
    """attributes agree: both absent, or both present with the same wire rendering"""
    from pyvc.builtins_model import py_str_of
    tx, ty = I.to_term(x), I.to_term(y)
    sx, sy = py_str_of(I, x), py_str_of(I, y)
    e = get_s(I.to_term(sx)) == get_s(I.to_term(sy))
    return z3.And(is_none(tx) == is_none(ty), implies(z3.Not(is_none(tx)), e))


def view_eq_obj(I, a, b, skip=("children",)):
    """same attributes (every instance field incl. the text value), per the spec view"""
    fa = a.fields if isinstance(a, IObject) else {k: I.getattr(a, k) for k in a.region.fields}
    fb = b.fields if isinstance(b, IObject) else {k: I.getattr(b, k) for k in b.region.fields}
    if set(fa) != set(fb):
        return z3.BoolVal(False)
    cs = []
    for k in fa:
        if k in skip:
            continue
        cs.append(render_eq(I, fa[k], fb[k]))
    return z3.And(*cs) if cs else z3.BoolVal(True)


def view_eq_message(I, a, b):
    if a.cls is not b.cls:
        return z3.BoolVal(False)
    cs = [view_eq_obj(I, a, b)]
    ca, cb = a.fields.get("children", MISSING), b.fields.get("children", MISSING)
    if (ca is MISSING) != (cb is MISSING):
        return z3.BoolVal(False)
    if ca is not MISSING:
        if isinstance(ca, RSeq) and isinstance(cb, RSeq):
            j = z3.Int("vj")
            ea = view_eq_obj(I, RObj(ca.region, j), RObj(cb.region, j), skip=())
            cs.append(ca.region.length == cb.region.length)
            cs.append(forall(j, implies(z3.And(j >= 0, j < ca.region.length), ea)))
        else:
            la = list(ca) if isinstance(ca, tuple) else list(ca.items)
            lb = list(cb) if isinstance(cb, tuple) else list(cb.items)
            if len(la) != len(lb):
                return z3.BoolVal(False)
            for x, y in zip(la, lb):
                if x.cls is not y.cls:
                    return z3.BoolVal(False)
                cs.append(view_eq_obj(I, x, y, skip=()))
    return z3.And(*cs)


def truth_term(I, r):
    if isinstance(r, Sym):
        return smt.truthy(r.term)
    return z3.BoolVal(bool(I.truth(r)))


# ---- C20 tasks ------------------------------------------------------------------------------------
def c20_witness(I, a, b):
    def w(m):
        def conc(v):
            t = m.eval(I.to_term(v), model_completion=True)
            if z3.is_true(m.eval(is_str(t), model_completion=True)):
                return m.eval(get_s(t), model_completion=True).as_string()
            if z3.is_true(m.eval(smt.is_int(t), model_completion=True)):
                return m.eval(smt.get_i(t), model_completion=True).as_long()
            return None

        def obj(o):
            d = {"class": o.cls.name, "module": o.cls.module.name, "fields": {}}
            for k, v in o.fields.items():
                if k == "children":
                    if isinstance(v, RSeq):
                        n = m.eval(v.region.length, model_completion=True).as_long()
                        if n > 4:
                            d["too_large"] = True
                            n = 4
                        d["children"] = []
                        for i in range(n):
                            ro = RObj(v.region, z3.IntVal(i))
                            d["children"].append({"class": v.region.cls.name, "module": v.region.cls.module.name,
                                                  "fields": {f: conc(I.getattr(ro, f)) for f in v.region.fields}})
                    else:
                        d["children"] = [obj(x) for x in (v if isinstance(v, tuple) else v.items)]
                else:
                    d["fields"][k] = conc(v)
            return d
        return {"replay_kind": "codec.eq", "a": obj(a), "b": obj(b)}
    return w


def task_c20_message(ident, children):
    """(a == b)  <=>  same kind, same attributes, same text, same ordered children."""
    def task(I, run):
        cls = find_class(I, ident)
        hook_children_check(I)
        try:
            a, Ra = make_message(I, cls, "a", 30, children=children)
            b, Rb = make_message(I, cls, "b", 31, children=children)
        except IRaise:
            raise PathEnd()
        label = "%s,children=%s" % (cls.name, children)
        run.explorer.witness = c20_witness(I, a, b)
        run.explorer.minimize = [r.length for r in (Ra, Rb) if r is not None]
        run.cover("cover[%s]" % label)
        try:
            r = I.compare(__import__("ast").Eq(), a, b)
        except IRaise as e:
            run.fail("C20|eq[%s]/raises-nothing" % label, "== raised %s" % e)
            return
        code = truth_term(I, r)
        spec = view_eq_message(I, a, b)
        kind = "C20" if children == "symbolic" else "C20"
        run.oblige("%s|eq[%s]/equal-objects-compare-equal" % (kind, label), implies(spec, code))
        run.oblige("%s|eq[%s]/any-difference-compares-unequal" % (kind, label), implies(code, spec))
        run.canary("C20|canary[%s]/everything-compares-equal" % label, code)
        run.canary("C20|canary[%s]/nothing-compares-equal" % label, z3.Not(code))
    return task


def task_c20_part(ident):
    def task(I, run):
        cls = find_class(I, ident)
        try:
            a = make_part(I, cls, "a")
            b = make_part(I, cls, "b")
        except IRaise:
            raise PathEnd()
        label = cls.name
        run.explorer.witness = c20_witness(I, a, b)
        try:
            r = I.compare(__import__("ast").Eq(), a, b)
        except IRaise as e:
            run.fail("C20|eq[%s]/raises-nothing" % label, "== raised %s" % e)
            return
        code = truth_term(I, r)
        spec = view_eq_obj(I, a, b, skip=())
        run.oblige("C20|eq[%s]/equal-objects-compare-equal" % label, implies(spec, code))
        run.oblige("C20|eq[%s]/any-difference-compares-unequal" % label, implies(code, spec))
        run.canary("C20|canary[%s]/everything-compares-equal" % label, code)
    return task


def task_c20_cross(ident):
    """messages / parts of different kinds never compare equal (one task per class, against every other)."""
    def task(I, run):
        cls = find_class(I, ident)
        hook_children_check(I)
        msgs, parts = classes(I)
        is_msg = cls in msgs
        try:
            a = make_message(I, cls, "a", 30, children=0)[0] if is_msg else make_part(I, cls, "a")
        except IRaise:
            raise PathEnd()
        others = [c for c in (msgs if is_msg else parts) if c is not cls]
        k = run.choice(len(others), "other class")
        oc = others[k]
        try:
            b = make_message(I, oc, "b", 31, children=0)[0] if is_msg else make_part(I, oc, "b")
        except IRaise:
            raise PathEnd()
        run.explorer.witness = c20_witness(I, a, b)
        try:
            r = I.compare(__import__("ast").Eq(), a, b)
        except IRaise as e:
            run.fail("C20|eq[%s vs %s]/raises-nothing" % (cls.name, oc.name), "== raised %s" % e)
            return
        run.oblige("C20|eq[%s vs %s]/different-kinds-compare-unequal" % (cls.name, oc.name), z3.Not(truth_term(I, r)))
    return task
