"""Contracts for indi/routing/router.py (properties C04, C05; reused by C12, C18, C08).

Abstract view of a Router:
  clients : sequence of endpoints  (n_c, celt)      devices : (n_d, delt)
  policy  : client x device-name -> {unset, Never, Also, Only}
            = rows[row(c)][name] when blob_routing has c and the row has name
well_formed:
  clients pairwise distinct, devices pairwise distinct (ghost position maps),
  dom(blob_routing) == set(clients), rows of distinct clients are distinct
  allocated dict objects.
The top-level postconditions are written from the property statements (C04,
C05), never from the code: direction table, `is_payload`, `lets_through`.
"""
import z3
from pyvc import smt
from pyvc.smt import (Val, VNone, VStr, VRef, VInt, is_none, is_str, is_ref, get_rg, get_ix, S)
from pyvc.values import *
from pyvc.spec import LoopContract, Contract, forall, implies, ite
from pyvc.interp import IRaise, OutOfReach, MISSING

FILE = "indi/routing/router.py"
ROW_RID = 10

IntS = z3.IntSort()
A_IV = z3.ArraySort(IntS, Val)
A_VI = z3.ArraySort(Val, IntS)
A_VB = z3.ArraySort(Val, z3.BoolSort())
A_VV = z3.ArraySort(Val, Val)

# ---- oracle (from the statements of C04 / C05) -----------------------------------------
# direction of every protocol message kind, by tag
FROM_DEVICE_TAGS = {"defBLOBVector", "defLightVector", "defNumberVector", "defSwitchVector",
                    "defTextVector", "setBLOBVector", "setLightVector", "setNumberVector",
                    "setSwitchVector", "setTextVector", "delProperty", "message", "pingRequest",
                    "getProperties"}
FROM_CLIENT_TAGS = {"newBLOBVector", "newNumberVector", "newSwitchVector", "newTextVector",
                    "enableBLOB", "pingReply", "getProperties"}
PAYLOAD_TAGS = {"setBLOBVector"}          # "BLOB payload updates"
NEVER, ALSO, ONLY = (VStr(z3.StringVal(x)) for x in ("Never", "Also", "Only"))
UNSET = VNone


def lets_through(p, payload):
    """C05: Never (the default) everything except payloads; Also everything; Only payloads only."""
    if payload:
        return z3.Or(p == ALSO, p == ONLY)
    return z3.Or(p == UNSET, p == NEVER, p == ALSO)


accepts_fn = z3.Function("accepts", Val, Val, z3.BoolSort())   # endpoint.accepts(name): unknown pure predicate


# ---- endpoint interfaces (abstract devices and clients) ---------------------------------
class DeviceIface:
    """Abstract registered device.  Assumed: accepts() is pure; message_from_client
    does not mutate the router's registries/policies and does not raise."""
    name = "device-endpoint"

    def getattr(self, I, sym, name, default=MISSING):
        if name == "accepts":
            def accepts(I_, a, k):
                I_.ghost["accepts_calls"] = I_.ghost.get("accepts_calls", 0) + 1
                from pyvc.builtins_model import boolval
                return boolval(accepts_fn(sym.term, I_.to_term(a[0])))
            return Native("accepts", accepts)
        if name == "message_from_client":
            def mfc(I_, a, k):
                if a[0] is not I_.ghost["routed_message"]:
                    I_.prover.fail("delivers-the-routed-message", "a different object was delivered to a device")
                cnt = I_.ghost["dev_cnt"]
                I_.ghost["dev_cnt"] = z3.Store(cnt, sym.term, z3.Select(cnt, sym.term) + 1)
                return None
            return Native("message_from_client", mfc)
        raise OutOfReach("device endpoint attribute %s" % name)


class ClientIface:
    name = "client-endpoint"

    def getattr(self, I, sym, name, default=MISSING):
        if name == "message_from_device":
            def mfd(I_, a, k):
                if a[0] is not I_.ghost["routed_message"]:
                    I_.prover.fail("delivers-the-routed-message", "a different object was delivered to a client")
                cnt = I_.ghost["cli_cnt"]
                I_.ghost["cli_cnt"] = z3.Store(cnt, sym.term, z3.Select(cnt, sym.term) + 1)
                return None
            return Native("message_from_device", mfd)
        raise OutOfReach("client endpoint attribute %s" % name)


DEVICE_IFACE = DeviceIface()
CLIENT_IFACE = ClientIface()


# ---- symbolic router state ---------------------------------------------------------------
class RouterState:
    """Snapshot of the abstract view (z3 terms)."""
    def __init__(self, nc, celt, nd, delt, has, get, rhas, rget, rnext):
        self.nc, self.celt, self.nd, self.delt = nc, celt, nd, delt
        self.has, self.get, self.rhas, self.rget, self.rnext = has, get, rhas, rget, rnext

    def policy(self, c, name):
        row = get_ix(z3.Select(self.get, c))
        return ite(z3.And(z3.Select(self.has, c), z3.Select(z3.Select(self.rhas, row), name)),
                   z3.Select(z3.Select(self.rget, row), name), UNSET)

    def is_client(self, e, pos_c):
        p = z3.Select(pos_c, e)
        return z3.And(p >= 0, p < self.nc, z3.Select(self.celt, p) == e)

    def is_device(self, e, pos_d):
        p = z3.Select(pos_d, e)
        return z3.And(p >= 0, p < self.nd, z3.Select(self.delt, p) == e)


def snapshot(router):
    c, d, b = router.fields["clients"], router.fields["devices"], router.fields["blob_routing"]
    if not (isinstance(c, SList) and isinstance(d, SList) and isinstance(b, SDict) and b.row_region is not None):
        raise OutOfReach("router registries were replaced by objects outside the router view")
    rg = b.row_region
    return RouterState(c.length, c.elt, d.length, d.elt, b.has, b.get, rg.has, rg.get, rg.next)


def well_formed(st, pos_c, pos_d, owner):
    """Representation invariant; returns list of (name, formula)."""
    j = z3.Int("j")
    v = z3.Const("v", Val)
    w = z3.Const("w", Val)
    cell = z3.Select(z3.Select(st.rget, j), w)
    return [
        ("policy-cells-in-vocabulary", forall([j, w], implies(z3.Select(z3.Select(st.rhas, j), w),
                                                               z3.Or(cell == NEVER, cell == ALSO, cell == ONLY)))),
        ("endpoints-are-objects", forall(j, z3.And(implies(z3.And(j >= 0, j < st.nc), is_ref(z3.Select(st.celt, j))),
                                                    implies(z3.And(j >= 0, j < st.nd), is_ref(z3.Select(st.delt, j)))))),
        ("sizes", z3.And(st.nc >= 0, st.nd >= 0, st.rnext >= 0)),
        ("clients-distinct", forall(j, implies(z3.And(j >= 0, j < st.nc),
                                                 z3.Select(pos_c, z3.Select(st.celt, j)) == j))),
        ("devices-distinct", forall(j, implies(z3.And(j >= 0, j < st.nd),
                                                 z3.Select(pos_d, z3.Select(st.delt, j)) == j))),
        ("policy-rows-of-clients", forall(j, implies(z3.And(j >= 0, j < st.nc),
                                                       z3.Select(st.has, z3.Select(st.celt, j))))),
        ("policy-rows-only-of-clients", forall(v, implies(z3.Select(st.has, v), st.is_client(v, pos_c)))),
        ("rows-allocated", forall(v, implies(z3.Select(st.has, v),
                                              z3.And(is_ref(z3.Select(st.get, v)),
                                                     get_rg(z3.Select(st.get, v)) == ROW_RID,
                                                     get_ix(z3.Select(st.get, v)) >= 0,
                                                     get_ix(z3.Select(st.get, v)) < st.rnext,
                                                     z3.Select(owner, get_ix(z3.Select(st.get, v))) == v)))),
    ]


def make_router(I, label=""):
    """A Router object in an arbitrary well-formed state (any number of
    clients/devices, any policies).  Returns (router, state0, ghosts)."""
    P = I.prover
    mod = I.import_module("indi.routing.router")
    R = mod.ns["Router"]
    r = IObject(R)
    nc, nd = I.fresh("n_clients", IntS), I.fresh("n_devices", IntS)
    celt, delt = I.fresh("clients", A_IV), I.fresh("devices", A_IV)
    rows = DictRegion(ROW_RID, I.fresh("rows_has", z3.ArraySort(IntS, A_VB)),
                      I.fresh("rows_get", z3.ArraySort(IntS, A_VV)), I.fresh("rows_next", IntS))
    r.fields["clients"] = SList(nc, celt, CLIENT_IFACE, "clients")
    r.fields["devices"] = SList(nd, delt, DEVICE_IFACE, "devices")
    r.fields["blob_routing"] = SDict(I.fresh("br_has", A_VB), I.fresh("br_get", A_VV), rows, "blob_routing")
    pos_c, pos_d = I.fresh("pos_c", A_VI), I.fresh("pos_d", A_VI)
    owner = I.fresh("row_owner", A_IV)
    st = snapshot(r)
    for nm, f in well_formed(st, pos_c, pos_d, owner):
        P.assume(f)
    return r, st, {"pos_c": pos_c, "pos_d": pos_d, "owner": owner}


def message_classes(I):
    """All message classes of the real class table: registered ones plus every
    subclass of IndiMessage that is concrete (has a tag a peer could send)."""
    base = I.import_module("indi.message.base")
    I.import_module("indi.message")
    IM = base.ns["IndiMessage"]
    reg = list(I.getattr(IM, "_message_classes").items)
    out = []
    for c in I.world.all_subclasses(IM):
        if c is IM:
            continue
        out.append((c, c in reg))
    return out


def tag_of(I, cls):
    return I.call(I.getattr(cls, "tag_name"), [], {})


def init_params(cls):
    """Named parameters accepted along the real __init__ chain of cls."""
    names, required = [], set()
    for c in cls.mro:
        f = c.attrs.get("__init__")
        if isinstance(f, IFunction):
            a = f.node.args
            pos = a.posonlyargs + a.args
            nd = len(a.defaults)
            for i, p in enumerate(pos[1:], start=1):
                if p.arg not in names:
                    names.append(p.arg)
                if i < len(pos) - nd:
                    required.add(p.arg)
            for p, d in zip(a.kwonlyargs, a.kw_defaults):
                if p.arg not in names:
                    names.append(p.arg)
                if d is None:
                    required.add(p.arg)
    return names, required


def opt_str(I, base):
    s = I.fresh_sym(base)
    I.prover.assume(z3.Or(is_none(s.term), is_str(s.term)))
    return s


def make_message(I, cls, children=None):
    """A message of class `cls` built by its real constructor from arbitrary
    (None-or-string) attribute values: every conformant message of that kind."""
    names, required = init_params(cls)
    kwargs = {}
    for n in names:
        if n == "children":
            continue
        kwargs[n] = opt_str(I, "m_" + n)
    try:
        m = I.call(cls, [], kwargs)
    except IRaise:
        from pyvc.interp import PathEnd
        raise PathEnd()      # constructor rejected these attribute values: not a message
    if "children" in m.fields:
        m.fields["children"] = children if children is not None else SList(
            I.fresh("n_children", IntS), I.fresh("children", A_IV), None, "children")
        if isinstance(m.fields["children"], SList):
            I.prover.assume(m.fields["children"].length >= 0)
    return m


# ---- loop invariants of Router.process_message ----------------------------------------------
def _dev_inv(ctx):
    g = ctx.ghost
    st, pos_d = g["st0"], g["pos_d"]
    e = z3.Const("e", Val)
    sender, mdev = g["sender_t"], g["mdev_t"]
    spec = z3.And(z3.Select(pos_d, e) < ctx.i, st.is_device(e, pos_d), e != sender, accepts_fn(e, mdev))
    return [("device-deliveries-prefix", forall(e, z3.Select(g["dev_cnt"], e) == ite(spec, 1, 0)))]


def _dev_havoc(ctx):
    # the invariant is in defining form (dev_cnt == lambda e. ...): havoc to exactly
    # the states satisfying it, which keeps refutations decidable for the solver
    g = ctx.ghost
    st, pos_d = g["st0"], g["pos_d"]
    e = z3.Const("e", Val)
    spec = z3.And(z3.Select(pos_d, e) < ctx.i, st.is_device(e, pos_d), e != g["sender_t"], accepts_fn(e, g["mdev_t"]))
    g["dev_cnt"] = z3.Lambda([e], ite(spec, 1, 0))


def _cli_inv(ctx):
    g = ctx.ghost
    st, pos_c = g["st0"], g["pos_c"]
    e = z3.Const("e", Val)
    sender, mdev = g["sender_t"], g["mdev_t"]
    spec = z3.And(z3.Select(pos_c, e) < ctx.i, st.is_client(e, pos_c), e != sender,
                  lets_through(g["st_mid"].policy(e, mdev), g["payload"]))
    return [("client-deliveries-prefix", forall(e, z3.Select(g["cli_cnt"], e) == ite(spec, 1, 0)))]


def _cli_havoc(ctx):
    g = ctx.ghost
    st, pos_c = g["st0"], g["pos_c"]
    e = z3.Const("e", Val)
    spec = z3.And(z3.Select(pos_c, e) < ctx.i, st.is_client(e, pos_c), e != g["sender_t"],
                  lets_through(g["st_mid"].policy(e, g["mdev_t"]), g["payload"]))
    g["cli_cnt"] = z3.Lambda([e], ite(spec, 1, 0))


def _cli_enter(ctx):
    # the policy view the client loop reads is the one after a possible enableBLOB update
    ctx.ghost["st_mid"] = snapshot(ctx.ghost["router"])


class _CliLoop(LoopContract):
    def enter(self, ctx):
        _cli_enter(ctx)


_DEV_LOOP = LoopContract(_dev_inv, _dev_havoc, props="C04", label="devices")
_CLI_LOOP = _CliLoop(_cli_inv, _cli_havoc, props="C04,C05", label="clients")


def _select_loop(I, ordinal, it):
    """Loops are identified by the registry they iterate, not by position."""
    r = I.ghost.get("router")
    if r is not None and it is r.fields.get("devices"):
        return _DEV_LOOP
    if r is not None and it is r.fields.get("clients"):
        return _CLI_LOOP
    return None


PROCESS_MESSAGE = Contract(
    FILE, "Router.process_message", loop_selector=_select_loop,
    doc="deliveries == [devices accepting, != sender | from_client] ++ [clients let through by policy, != sender | from_device]")


# ---- proof tasks ---------------------------------------------------------------------------
def K0():
    return z3.K(Val, z3.IntVal(0))


def router_witness(I, st0, gh, extra):
    """Concretise a counter-model into a small router scenario (for native replay)."""
    def w(m):
        ev = lambda t: m.eval(t, model_completion=True)
        nc, nd = ev(st0.nc).as_long(), ev(st0.nd).as_long()
        out = {"n_clients": nc, "n_devices": nd}
        if nc > 6 or nd > 6:
            out["too_large"] = True
            return out
        mdev = extra.get("mdev_t")
        sender = extra.get("sender_t")
        cl = [ev(z3.Select(st0.celt, k)) for k in range(nc)]
        dv = [ev(z3.Select(st0.delt, k)) for k in range(nd)]
        sv = ev(sender) if sender is not None else None
        out["sender"] = None
        if sv is not None:
            if str(sv) == "VNone":
                out["sender"] = None
            else:
                out["sender"] = "other"
                for k, c in enumerate(cl):
                    if z3.is_true(ev(c == sv)):
                        out["sender"] = ["client", k]
                for k, d in enumerate(dv):
                    if z3.is_true(ev(d == sv)):
                        out["sender"] = ["device", k]
        if mdev is not None:
            mv = ev(mdev)
            out["msg_device"] = None if str(mv) == "VNone" else (ev(smt.get_s(mv)).as_string() if z3.is_true(ev(is_str(mv))) else str(mv))
            out["policies"] = []
            for c in cl:
                pv = ev(st0.policy(c, mdev))
                out["policies"].append(None if str(pv) == "VNone" else (ev(smt.get_s(pv)).as_string() if z3.is_true(ev(is_str(pv))) else str(pv)))
            out["accepts"] = [z3.is_true(ev(accepts_fn(d, mdev))) for d in dv]
        for k, v in extra.items():
            if isinstance(v, (str, int, bool, type(None))):
                out[k] = v
        return out
    return w


def task_process_message(cls, registered):
    """Router.process_message for one message class, arbitrary well-formed router,
    arbitrary sender."""
    def task(I, run):
        r, st0, gh = make_router(I)
        tag = tag_of(I, cls)
        msg = make_message(I, cls)
        sender = I.fresh_sym("sender")
        run.assume(z3.Or(is_none(sender.term), is_ref(sender.term)))
        mdev = I.to_term(msg.fields["device"])
        payload = tag in PAYLOAD_TAGS
        I.ghost.update(router=r, st0=st0, st_mid=st0, routed_message=msg, dev_cnt=K0(), cli_cnt=K0(),
                       sender_t=sender.term, mdev_t=mdev, payload=payload, **gh)
        pos_c, pos_d = gh["pos_c"], gh["pos_d"]
        run.explorer.witness = router_witness(I, st0, gh, {"mdev_t": mdev, "sender_t": sender.term, "msg_class": cls.name, "tag": tag})
        run.explorer.minimize = [st0.nc, st0.nd]
        I.contracts[PROCESS_MESSAGE.key] = PROCESS_MESSAGE
        f = I.world.functions[(FILE, "Router.process_message")]
        I.root_func = f
        run.cover("cover[%s]/pre" % tag)
        try:
            I.call(IBound(f, r), [msg, sender], {})
        except IRaise as e:
            run.fail("C04,C05,C12,C18,C01|process_message[%s]/raises-nothing" % tag,
                     "process_message raised %s" % (e,))
            return
        run.cover("cover[%s]/post" % tag)
        run.oblige("C12|process_message[%s]/returned-normally-on-this-path(any router state, any sender)" % tag, z3.BoolVal(True))
        st1 = snapshot(r)
        e = z3.Const("e", Val)
        fc, fd = tag in FROM_CLIENT_TAGS, tag in FROM_DEVICE_TAGS
        dspec = z3.And(z3.BoolVal(fc), st0.is_device(e, pos_d), e != sender.term, accepts_fn(e, mdev))
        run.oblige("C04|process_message[%s]/devices-exactly-once" % tag,
                   forall(e, z3.Select(I.ghost["dev_cnt"], e) == ite(dspec, 1, 0)))
        # originates from a device: its sender is not one of the registered clients; of the client-originated kinds only
        # getProperties (both flags) is relayed to the other clients (C04), anything else a client sends must not reach them (C12)
        relayed = z3.Or(z3.BoolVal(fc), z3.Not(st0.is_client(sender.term, pos_c)))
        cspec = z3.And(z3.BoolVal(fd), relayed, st0.is_client(e, pos_c), e != sender.term,
                       lets_through(st0.policy(e, mdev), payload))
        if fd and not fc:
            run.oblige("C12,C04|process_message[%s]/a-device-kind-message-sent-by-a-client-reaches-no-other-client" % tag,
                       implies(st0.is_client(sender.term, pos_c), forall(e, z3.Select(I.ghost["cli_cnt"], e) == 0)))
        run.oblige("C05,C04,C18,C01|process_message[%s]/clients-exactly-once-by-policy" % tag,
                   forall(e, z3.Select(I.ghost["cli_cnt"], e) == ite(cspec, 1, 0)))
        if payload:
            run.oblige("C08,C05|process_message[%s]/clients-that-did-not-enable-BLOBs-receive-no-payload" % tag,
                       forall(e, implies(z3.Or(st0.policy(e, mdev) == UNSET, st0.policy(e, mdev) == NEVER), z3.Select(I.ghost["cli_cnt"], e) == 0)))
            run.oblige("C08,C05|process_message[%s]/every-other-client-that-enabled-BLOBs-receives-the-payload-once" % tag,
                       implies(z3.Not(st0.is_client(sender.term, pos_c)),          # (published by a device)
                               forall(e, implies(z3.And(st0.is_client(e, pos_c), e != sender.term, z3.Or(st0.policy(e, mdev) == ALSO, st0.policy(e, mdev) == ONLY)),
                                                 z3.Select(I.ghost["cli_cnt"], e) == 1))))
        if fc:
            run.canary("C04|canary[%s]/no-device-ever-receives-it" % tag, forall(e, z3.Select(I.ghost["dev_cnt"], e) == 0))
        if fd:
            run.canary("C05|canary[%s]/no-client-ever-receives-it" % tag, forall(e, z3.Select(I.ghost["cli_cnt"], e) == 0))
        # frame: registries unchanged, policy changed only by enableBLOB of a registered sender
        run.oblige("C04,C05|process_message[%s]/registries-unchanged" % tag,
                   z3.And(st1.nc == st0.nc, st1.nd == st0.nd, st1.celt == st0.celt, st1.delt == st0.delt))
        nm = z3.Const("nm", Val)
        if tag == "enableBLOB":
            newpol = ite(z3.And(e == sender.term, nm == mdev, st0.is_client(e, pos_c)),
                         I.to_term(msg.fields["value"]), st0.policy(e, nm))
        else:
            newpol = st0.policy(e, nm)
        run.oblige("C05|process_message[%s]/policy-frame" % tag,
                   forall([e, nm], implies(st0.is_client(e, pos_c), st1.policy(e, nm) == newpol)))
        for n_, f_ in well_formed(st1, pos_c, pos_d, gh["owner"]):
            run.oblige("C04,C05|process_message[%s]/preserves-well-formed/%s" % (tag, n_), f_)
    return task


def task_pm(class_name, registered):
    """Factory addressable by name from worker processes."""
    def task(I, run):
        for c, r in message_classes(I):
            if c.name == class_name and r == registered:
                return task_process_message(c, r)(I, run)
        raise OutOfReach("message class %s vanished" % class_name)
    return task


def pm_class_names(repo_root):
    from pyvc.interp import World, Interp
    from pyvc import values
    values.reset_ids()
    I = Interp(World(repo_root))
    out = []
    for c, reg in message_classes(I):
        if c.subclasses:
            continue            # abstract bases (DefVector, SetVector, NewVector ...)
        tag = tag_of(I, c)
        if tag not in FROM_DEVICE_TAGS and tag not in FROM_CLIENT_TAGS:
            continue            # not a protocol message kind the statements give a direction (e.g. top-level oneLight)
        out.append((c.name, reg))
    return out


def _call(I, run, r, fname, args, props, label):
    f = I.world.functions[(FILE, fname)]
    I.root_func = f
    try:
        return True, I.call(IBound(f, r), args, {})
    except IRaise as e:
        run.fail("%s|%s/raises-nothing" % (props, label), "%s raised %s" % (fname, e))
        return False, None


def _same(a, b):
    return a == b


def task_mutator(which):
    """Representation invariant and exact view update for the registry mutators:
    holds after *every* history because each mutator preserves it from an
    arbitrary well-formed state."""
    def task(I, run):
        P = run
        r, st0, gh = make_router(I)
        run.explorer.minimize = [st0.nc, st0.nd]
        pos_c, pos_d, owner = gh["pos_c"], gh["pos_d"], gh["owner"]
        I.ghost.update(router=r, st0=st0, **gh)
        x = I.fresh_sym("endpoint")
        P.assume(is_ref(x.term))
        e, nm = z3.Const("e", Val), z3.Const("nm", Val)
        j = z3.Int("j")
        props = "C04,C05,C18"
        run.explorer.witness = lambda m: {"n_clients": m.eval(st0.nc, model_completion=True).as_long(),
                                          "n_devices": m.eval(st0.nd, model_completion=True).as_long(),
                                          "replay_kind": "router.mutator", "which": which,
                                          "registered": bool(z3.is_true(m.eval(st0.is_client(x.term, pos_c), model_completion=True)))}
        if which == "register_device":
            # precondition of registration (stated assumption): an endpoint is registered once
            P.assume(z3.Not(st0.is_device(x.term, pos_d)))
            j0 = z3.Int("j0")
            P.assume(forall(j0, implies(z3.And(j0 >= 0, j0 < st0.nd), z3.Select(st0.delt, j0) != x.term)))
            ok, _ = _call(I, run, r, "Router.register_device", [x], props, which)
            if not ok:
                return
            st1 = snapshot(r)
            run.oblige("%s|%s/appends-exactly-the-device" % (props, which),
                       z3.And(st1.nd == st0.nd + 1, st1.delt == z3.Store(st0.delt, st0.nd, x.term),
                              st1.nc == st0.nc, st1.celt == st0.celt))
            run.oblige("%s|%s/policies-unchanged" % (props, which),
                       forall([e, nm], st1.policy(e, nm) == st0.policy(e, nm)))
            pos_d1 = z3.Store(pos_d, x.term, st0.nd)
            for n_, f_ in well_formed(st1, pos_c, pos_d1, owner):
                run.oblige("%s|%s/preserves-well-formed/%s" % (props, which, n_), f_)
        elif which == "register_client":
            P.assume(z3.Not(st0.is_client(x.term, pos_c)))
            j0 = z3.Int("j0")
            P.assume(forall(j0, implies(z3.And(j0 >= 0, j0 < st0.nc), z3.Select(st0.celt, j0) != x.term)))
            ok, _ = _call(I, run, r, "Router.register_client", [x], props, which)
            if not ok:
                return
            st1 = snapshot(r)
            run.oblige("%s|%s/appends-exactly-the-client" % (props, which),
                       z3.And(st1.nc == st0.nc + 1, st1.celt == z3.Store(st0.celt, st0.nc, x.term),
                              st1.nd == st0.nd, st1.delt == st0.delt))
            run.oblige("%s|%s/new-client-starts-with-default-policy" % (props, which),
                       forall(nm, st1.policy(x.term, nm) == UNSET))
            run.oblige("%s|%s/other-policies-unchanged" % (props, which),
                       forall([e, nm], implies(e != x.term, st1.policy(e, nm) == st0.policy(e, nm))))
            pos_c1 = z3.Store(pos_c, x.term, st0.nc)
            owner1 = z3.Store(owner, st0.rnext, x.term)
            for n_, f_ in well_formed(st1, pos_c1, pos_d, owner1):
                run.oblige("%s|%s/preserves-well-formed/%s" % (props, which, n_), f_)
        elif which == "unregister_client":
            ok, _ = _call(I, run, r, "Router.unregister_client", [x], props, which)
            if not ok:
                return
            st1 = snapshot(r)
            was = st0.is_client(x.term, pos_c)
            p = z3.Select(pos_c, x.term)
            run.oblige("%s|%s/removes-exactly-the-client" % (props, which),
                       z3.And(st1.nd == st0.nd, st1.delt == st0.delt,
                              st1.nc == ite(was, st0.nc - 1, st0.nc),
                              forall(j, implies(z3.And(j >= 0, j < st1.nc),
                                                z3.Select(st1.celt, j) == ite(z3.And(was, j >= p), z3.Select(st0.celt, j + 1),
                                                                              z3.Select(st0.celt, j))))))
            pos_c1 = z3.Lambda([e], ite(e == x.term, z3.IntVal(-1),
                                        ite(z3.And(was, z3.Select(pos_c, e) > p), z3.Select(pos_c, e) - 1, z3.Select(pos_c, e))))
            run.oblige("%s|%s/forgets-the-client/not-registered" % (props, which), z3.Not(st1.is_client(x.term, pos_c1)))
            run.oblige("%s|%s/forgets-the-client/no-policy-row" % (props, which), z3.Not(z3.Select(st1.has, x.term)))
            run.oblige("%s|%s/forgets-the-client/policy-reset" % (props, which), forall(nm, st1.policy(x.term, nm) == UNSET))
            run.oblige("%s|%s/other-policies-unchanged" % (props, which),
                       forall([e, nm], implies(e != x.term, st1.policy(e, nm) == st0.policy(e, nm))))
            run.oblige("%s|%s/other-clients-stay-registered" % (props, which),
                       forall(e, implies(z3.And(e != x.term, st0.is_client(e, pos_c)), st1.is_client(e, pos_c1))))
            for n_, f_ in well_formed(st1, pos_c1, pos_d, owner):
                run.oblige("%s|%s/preserves-well-formed/%s" % (props, which, n_), f_)
        elif which == "process_enable_blob":
            EB = [c for c, _ in message_classes(I) if c.name == "EnableBLOB"][0]
            msg = make_message(I, EB)
            mdev = I.to_term(msg.fields["device"])
            ok, _ = _call(I, run, r, "Router.process_enable_blob", [msg, x], "C05,C12", which)
            if not ok:
                return
            st1 = snapshot(r)
            newpol = ite(z3.And(e == x.term, nm == mdev, st0.is_client(e, pos_c)),
                         I.to_term(msg.fields["value"]), st0.policy(e, nm))
            run.oblige("C05|%s/sets-exactly-one-policy-cell" % which,
                       forall([e, nm], implies(st0.is_client(e, pos_c), st1.policy(e, nm) == newpol)))
            run.oblige("C05|%s/registries-unchanged" % which,
                       z3.And(st1.nc == st0.nc, st1.nd == st0.nd, st1.celt == st0.celt, st1.delt == st0.delt))
            for n_, f_ in well_formed(st1, pos_c, pos_d, owner):
                run.oblige("C05|%s/preserves-well-formed/%s" % (which, n_), f_)
        elif which == "__init__":
            mod = I.import_module("indi.routing.router")
            rr = I.call(mod.ns["Router"], [], {})
            # the concrete empty router is an instance of the abstract view with n = 0
            c, d, b = rr.fields.get("clients"), rr.fields.get("devices"), rr.fields.get("blob_routing")
            okc = isinstance(c, IList) and not c.items and isinstance(d, IList) and not d.items \
                and isinstance(b, IDict) and not b.d and c is not d
            run.oblige("C04,C05,C18|__init__/establishes-empty-well-formed-router", z3.BoolVal(bool(okc)))
        else:
            raise OutOfReach("unknown mutator %s" % which)
    return task


# ---- what the repository's own devices accept (C04: "every registered device that accepts the message's device name") ----
def task_accepts(which):
    def task(I, run):
        from pyvc.smt import get_s
        if which == "Driver":
            mod = I.import_module("indi.device.driver")
            cls = mod.ns["Driver"]
        else:
            mod = I.import_module("indi.device.proxy")
            cls = mod.ns["Proxy"]
        d = IObject(cls)
        name = I.fresh_sym("driver_name")
        run.assume(is_str(name.term))
        d.fields["_name"] = name
        dev = I.fresh_sym("addressed")
        run.assume(z3.Or(is_none(dev.term), is_str(dev.term)))

        def w(m):
            ev = lambda t: m.eval(t, model_completion=True)
            dv = ev(dev.term)
            return {"replay_kind": "router.accepts", "which": which, "name": ev(get_s(name.term)).as_string(),
                    "device": None if str(dv) == "VNone" else ev(get_s(dv)).as_string()}
        run.explorer.witness = w
        f, _ = cls.lookup("accepts")
        try:
            r = I.call(IBound(f, d), [dev], {})
        except IRaise as e:
            run.fail("C04|%s.accepts/raises-nothing" % which, "accepts raised %s" % e)
            return
        rt = smt.truthy(I.to_term(r))
        if which == "Driver":
            run.oblige("C04|Driver.accepts/own-name-or-no-name-only", rt == z3.Or(is_none(dev.term), dev.term == name.term))
        else:
            run.oblige("C04|Proxy.accepts/catch-all", rt)
        run.canary("C04|canary[%s.accepts]/never-accepts" % which, z3.Not(rt))
    return task
