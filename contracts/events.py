"""Contracts for the driver event machinery (property C14): indi/device/events.py
EventSource.raise_event and the element operations of instance/elements.py.

Handlers are abstract: any number per event kind, each a plain function or a coroutine
function (unknown predicate), a plain Write handler may veto (unknown predicate), a plain
Read handler may refresh the element's stored value.  Ghost state: per event kind an
invocation counter per handler, the element value seen at invocation time, the payload,
and a global ordered trace of (handler call | task creation | serialisation | send).
"""
import z3
from pyvc import smt
from pyvc.smt import (Val, VNone, VStr, VBool, VRef, VInt, is_none, is_str, is_ref, is_int, get_b, S)
from pyvc.values import *
from pyvc.spec import LoopContract, Contract, forall, exists, implies, ite
from pyvc.interp import IRaise, OutOfReach, MISSING, PathEnd
from contracts import driver as D

IntS = z3.IntSort()
A_II = z3.ArraySort(IntS, IntS)
A_IV = z3.ArraySort(IntS, Val)
A_IB = z3.ArraySort(IntS, z3.BoolSort())
KINDS3 = ("Write", "Read", "Change")
H_RID = {"Write": 70, "Read": 71, "Change": 72}


def in_range(j, n):
    return z3.And(j >= 0, j < n)


def make_handlers(I, elem_region, s):
    """event_handlers table of the element definition: kind -> {uid: handler}, any number of handlers each"""
    B = I.world.builtins
    ev = I.import_module("indi.device.events")
    g = I.ghost
    g["H"] = {}
    g["trace"] = []
    table = IDict()
    for kind in KINDS3:
        n = I.fresh("n_%s_handlers" % kind, IntS)
        I.prover.assume(n >= 0)
        is_coro = I.fresh("is_coro_%s" % kind, A_IB)
        veto = I.fresh("vetoes_%s" % kind, A_IB)

        def call(I_, a, k, kind=kind):
            h, event = a[0], a[1]
            gg = I_.ghost
            H = gg["H"][kind]
            j = h.idx
            E = gg["E"]
            coro = z3.Select(H["is_coro"], j)
            H["count"] = z3.Store(H["count"], j, z3.Select(H["count"], j) + 1)
            H["seen_value"] = z3.Store(H["seen_value"], j, z3.Select(E.fields["_value"], gg["s"]))
            for fld in ("new_value", "old_value"):
                if isinstance(event, IObject) and fld in event.fields:
                    H["payload_" + fld] = z3.Store(H["payload_" + fld], j, I_.to_term(event.fields[fld]))
            H["element_ok"] = z3.Store(H["element_ok"], j, z3.BoolVal(isinstance(event, IObject) and event.fields.get("element") is gg["element"]
                                                                   and event.cls.name == kind))
            gg["trace"].append(("handler", kind, j, len(gg["trace"])))
            if kind == "Write" and isinstance(event, IObject):
                cur = event.fields.get("prevent_default", False)
                ct = smt.truthy(I_.to_term(cur)) if isinstance(cur, Sym) else z3.BoolVal(bool(cur))
                # a coroutine function called synchronously only creates a coroutine object: its body (and a veto in it) does not run here
                event.fields["prevent_default"] = Sym(VBool(S(z3.Or(ct, z3.And(z3.Not(coro), z3.Select(H["veto"], j))))))
            if kind == "Read":
                # a plain Read handler may refresh the stored value (reset_value bypasses rules by design)
                fresh = I_.fresh("refreshed", Val)
                if gg.get("refresh_target") is not None:   # deterministic refresh: every plain Read handler stores the same (legal) value
                    fresh = gg["refresh_target"]
                old = z3.Select(E.fields["_value"], gg["s"])
                E.fields["_value"] = z3.Store(E.fields["_value"], gg["s"], z3.If(coro, old, fresh))
            m = Opaque("coroutine-or-None")
            m.coro_of = (kind, j)
            return m
        hc = IClass("Handler" + kind, [B["object"]], {}, None, "Handler" + kind)
        cn = Native("__call__", call)
        cn.is_method = True
        hc.attrs["__call__"] = cn
        R = Region(H_RID[kind], hc, n, {"is_coro": is_coro}, "%s-handlers" % kind)
        keys = I.fresh("uid_%s" % kind, A_IV)
        g["H"][kind] = {"region": R, "n": n, "is_coro": is_coro, "veto": veto,
                        "count": z3.K(IntS, z3.IntVal(0)), "seen_value": I.fresh("seen0_%s" % kind, A_IV),
                        "payload_new_value": I.fresh("pn0_%s" % kind, A_IV), "payload_old_value": I.fresh("po0_%s" % kind, A_IV),
                        "element_ok": z3.K(IntS, z3.BoolVal(False)), "tasks": z3.K(IntS, z3.IntVal(0))}
        table.d[ev.ns[kind]] = RSeq(R, keys, "dict", "%s-handlers" % kind)
    return table


def install(I):
    """asyncio model hooks: iscoroutinefunction on abstract handlers; create_task records the task"""
    asy = I.import_module("asyncio")
    orig = asy.ns["iscoroutinefunction"]

    def iscoro(I_, a, k):
        f = a[0]
        if isinstance(f, RObj) and "is_coro" in f.region.fields:
            return Sym(VBool(z3.Select(f.region.fields["is_coro"], f.idx)))
        return orig.fn(I_, a, k)
    asy.ns["iscoroutinefunction"] = Native("iscoroutinefunction", iscoro)

    class TaskLoop:
        def pyvc_getattr(self, I_, name):
            if name == "create_task":
                def create_task(I2, a, k):
                    co = getattr(a[0], "coro_of", None)
                    if co is not None:
                        H = I2.ghost["H"][co[0]]
                        H["tasks"] = z3.Store(H["tasks"], co[1], z3.Select(H["tasks"], co[1]) + 1)
                    I2.ghost.setdefault("tasks", []).append(a[0])
                    return Opaque("task")
                return Native(name, create_task)
            return MISSING
    loop = TaskLoop()
    asy.ns["get_running_loop"] = Native("get_running_loop", lambda I_, a, k: loop)
    asy.ns["get_event_loop"] = Native("get_event_loop", lambda I_, a, k: loop)


# ---- loop invariant of EventSource.raise_event ------------------------------------------------------------
class _RaiseLoop(LoopContract):
    def enter(self, ctx):
        g = ctx.ghost
        kind = None
        for k, H in g["H"].items():
            if ctx.seq.region is H["region"]:
                kind = k
        if kind is None:
            raise OutOfReach("raise_event iterates something that is not a handler table")
        g["loop_kind"] = kind
        H = g["H"][kind]
        g["loop_entry"] = {f: H[f] for f in ("count", "seen_value", "payload_new_value", "payload_old_value", "element_ok", "tasks")}
        g["loop_entry_value"] = g["E"].fields["_value"]
        ev = ctx.role("the event being raised (2nd parameter)", lambda n: n.args.args[1].arg, "event")
        g["loop_event"] = ev
        pd = ev.fields.get("prevent_default", False) if isinstance(ev, IObject) else False
        g["loop_entry_pd"] = smt.truthy(ctx.interp.to_term(pd)) if isinstance(pd, Sym) else z3.BoolVal(bool(pd))
        g["loop_trace_len"] = len(g["trace"])


def _raise_inv(ctx):
    g = ctx.ghost
    H = g["H"][g["loop_kind"]]
    j = z3.Int("j")
    e0 = g["loop_entry"]
    out = [("each-handler-visited-so-far-was-invoked-exactly-once",
            forall(j, z3.Select(H["count"], j) == z3.Select(e0["count"], j) + ite(z3.And(j >= 0, j < ctx.i), 1, 0))),
           ("coroutine-handlers-visited-so-far-were-scheduled-as-one-task-each,plain-ones-never",
            forall(j, z3.Select(H["tasks"], j) == z3.Select(e0["tasks"], j) + ite(z3.And(j >= 0, j < ctx.i, z3.Select(H["is_coro"], j)), 1, 0)))]
    return out


def _raise_havoc(ctx):
    g = ctx.ghost
    kind = g["loop_kind"]
    H = g["H"][kind]
    j = z3.Int("j")
    e0 = g["loop_entry"]
    I = ctx.interp
    H["count"] = z3.Lambda([j], z3.Select(e0["count"], j) + ite(z3.And(j >= 0, j < ctx.i), 1, 0))
    H["tasks"] = z3.Lambda([j], z3.Select(e0["tasks"], j) + ite(z3.And(j >= 0, j < ctx.i, z3.Select(H["is_coro"], j)), 1, 0))
    ev = g["loop_event"]
    visited = lambda jj: z3.And(jj >= 0, jj < ctx.i)
    if kind == "Read":
        # value may have been refreshed by the plain handlers visited so far
        mid = I.fresh("val_after_reads", A_IV)
        k = z3.Int("k")
        I.prover.assume(forall(k, implies(k != g["s"], z3.Select(mid, k) == z3.Select(g["loop_entry_value"], k))))
        if g.get("refresh_target") is not None:
            jj = z3.Int("jj")
            some_plain = z3.Exists([jj], z3.And(visited(jj), z3.Not(z3.Select(H["is_coro"], jj))))
            I.prover.assume(z3.Select(mid, g["s"]) == ite(some_plain, g["refresh_target"], z3.Select(g["loop_entry_value"], g["s"])))
        g["E"].fields["_value"] = mid
        seen = I.fresh("seen_mid", A_IV)
        H["seen_value"] = seen
    else:
        # Write/Change handlers do not touch the element (stated assumption): they all see the value at loop entry
        cur = z3.Select(g["E"].fields["_value"], g["s"])
        H["seen_value"] = z3.Lambda([j], ite(visited(j), cur, z3.Select(e0["seen_value"], j)))
    for fld in ("new_value", "old_value"):
        if isinstance(ev, IObject) and fld in ev.fields:
            t = I.to_term(ev.fields[fld])
            H["payload_" + fld] = z3.Lambda([j], ite(visited(j), t, z3.Select(e0["payload_" + fld], j)))
    okv = z3.BoolVal(isinstance(ev, IObject) and ev.fields.get("element") is g["element"] and ev.cls.name == kind)
    H["element_ok"] = z3.Lambda([j], ite(visited(j), okv, z3.Select(e0["element_ok"], j)))
    if kind == "Write" and isinstance(ev, IObject):
        vetoed = z3.Exists([j], z3.And(visited(j), z3.Not(z3.Select(H["is_coro"], j)), z3.Select(H["veto"], j)))
        ev.fields["prevent_default"] = Sym(VBool(z3.Or(g["loop_entry_pd"], vetoed)))
    # the ordered trace: the visited handlers were invoked after everything recorded before the loop
    g["trace"] = g["trace"][:g["loop_trace_len"]] + [("handlers", kind, ctx.i, len(g["trace"]))]


RAISE_LOOP = _RaiseLoop(_raise_inv, _raise_havoc, props="C14", label="handlers",
                        allowed=lambda w: (w[0] == "field" and w[2] == "prevent_default") or (w[0] == "region" and w[2] == "_value"))


def select_loop(I, ordinal, it):
    fn = I.frames[-1][0].qualname if I.frames else ""
    if fn == "EventSource.raise_event" and isinstance(it, RSeq) and any(it.region is H["region"] for H in I.ghost.get("H", {}).values()):
        return RAISE_LOOP
    return D.select_loop(I, ordinal, it)


RAISE = Contract(D.EVT_FILE, "EventSource.raise_event", loop_selector=select_loop)
APPLY_RULE = Contract(D.VEC_FILE, "SwitchVector.apply_rule", loop_selector=select_loop)


def c14_witness(I, info):
    def w(m):
        ev = lambda t: m.eval(t, model_completion=True)
        out = {"replay_kind": "driver.events"}
        for k, v in info.items():
            if isinstance(v, z3.ExprRef):
                x = ev(v)
                out[k] = x.as_long() if z3.is_int_value(x) else (z3.is_true(x) if z3.is_bool(x) else str(x))
            else:
                out[k] = v
        return out
    return w


def task_c14(kind, op):
    """kind: element kind (text, number, light, blob; switch is C09's); op: write (client message),
    set_value, assign, read."""
    def task(I, run):
        v = D.make_vector(I, kind, fmt="%f", n_min=1)
        E, n = v["E"], v["n"]
        s = I.fresh("s", IntS)
        run.assume(in_range(s, n))
        el = RObj(E, s)
        I.ghost.update(E=E, s=s, element=None)
        table = make_handlers(I, E, s)
        # the element instance consults its *definition's* handler table
        v["D"].fields["event_handlers"] = ("const", table)
        I.ghost["element"] = el
        install(I)
        published = []

        def on_serialise(I_, vec, k):
            published.append((len(I_.ghost["trace"]), z3.Select(E.fields["_value"], s)))
        # publication abstracted; raise_event is the REAL code here
        D.install_publication_hooks(I, on_serialise=on_serialise)
        del I.call_hooks[(D.EVT_FILE, "EventSource.raise_event")]
        for c in (RAISE, APPLY_RULE):
            I.contracts[c.key] = c
        old = z3.Select(v["val0"], s)
        label = "%s/%s" % (kind, op)
        HW, HR, HC = (I.ghost["H"][k] for k in KINDS3)
        run.explorer.minimize = [n, HW["n"], HR["n"], HC["n"]]
        run.explorer.witness = c14_witness(I, {"kind": kind, "op": op, "n_write": HW["n"], "n_change": HC["n"], "n_read": HR["n"]})
        # requested value: a legal value of the element's type
        if kind == "switch":
            from contracts.switch import ON, OFF, vocab
            req = I.fresh_sym("req")
            run.assume(z3.Or(req.term == ON, req.term == OFF))
            run.assume(vocab(v["val0"], n))
        elif kind in ("text", "light"):
            req = I.fresh_sym("req")
            run.assume(is_str(req.term))
            if kind == "light":
                run.assume(z3.Or(*[req.term == VStr(z3.StringVal(x)) for x in ("Idle", "Ok", "Busy", "Alert")]))
        elif kind == "number":
            req = I.fresh_sym("req")
            run.assume(smt.is_real(req.term))
        else:
            vals = I.import_module("indi.device.values")
            req = IObject(vals.ns["BLOB"])
            req.fields.update(binary=I.fresh_sym("blob_bytes"), format=I.fresh_sym("blob_format"))
            run.assume(smt.is_bytes(req.fields["binary"].term))
        reqt = I.to_term(req)
        run.cover("cover[%s]" % label)
        result = None
        try:
            if op == "assign":
                I.setattr(el, "value", req)
            elif op == "set_value":
                I.call(I.getattr(el, "set_value"), [req], {})
            elif op == "write":
                opm = I.import_module("indi.message.one_parts")
                part = IObject(opm.ns["OneText" if kind == "text" else "OneLight"])
                part.fields.update(name=Sym(z3.Select(v["D"].fields["name"], s)), value=req)
                I.call(I.getattr(el, "set_value_from_message"), [part], {})
            elif op == "read":
                result = I.getattr(el, "value")
            elif op == "publish":
                legal = {"text": lambda t: is_str(t), "light": lambda t: z3.Or(*[t == VStr(z3.StringVal(x)) for x in ("Idle", "Ok", "Busy", "Alert")]),
                         "switch": lambda t: z3.Or(t == VStr(z3.StringVal("On")), t == VStr(z3.StringVal("Off"))),
                         "blob": lambda t: z3.Or(smt.is_none(t), smt.is_ref(t))}[kind]
                target = I.fresh("refresh_target", Val)
                run.assume(z3.And(legal(target), legal(old)))
                I.ghost["refresh_target"] = target
                if kind == "blob":
                    # whatever the Read handlers left in the element is either None or a BLOB value (one generic object stands for it)
                    vals_ = I.import_module("indi.device.values")
                    gb = IObject(vals_.ns["BLOB"])
                    gb.fields.update(binary=I.fresh_sym("refreshed_bytes"), format=I.fresh_sym("refreshed_format"))
                    run.assume(z3.And(smt.is_bytes(gb.fields["binary"].term), is_str(gb.fields["format"].term)))
                    I.ref_resolver = lambda I_, sym: gb if I_.kind(sym) == "ref" else None
                result = I.call(I.getattr(el, "to_set_message"), [], {})
            else:
                raise OutOfReach("op")
        except IRaise as e:
            run.fail("C14|%s/raises-nothing" % label, "raised %s" % e)
            return
        j = z3.Int("j")
        val1 = z3.Select(E.fields["_value"], s)
        cnt = lambda H, jj: z3.Select(H["count"], jj)
        once = lambda H: forall(j, implies(in_range(j, H["n"]), cnt(H, j) == 1))
        never = lambda H: forall(j, implies(in_range(j, H["n"]), cnt(H, j) == 0))
        trace = I.ghost["trace"]
        pos = lambda pred: [ix for ix, t in enumerate(trace) if pred(t)]
        tasks_ok = lambda H, expect: forall(j, implies(in_range(j, H["n"]),
                                                       z3.Select(H["tasks"], j) == ite(z3.And(expect, z3.Select(H["is_coro"], j)), 1, 0)))
        if op == "publish":
            # "plain Read handlers run before a value is ... published so that they can refresh it"
            run.oblige("C14|%s/every-Read-handler-runs-before-the-element-is-published" % label,
                       forall(j, implies(in_range(j, HR["n"]), cnt(HR, j) >= 1)))
            run.oblige("C14|%s/no-Write-or-Change-event" % label, z3.And(never(HW), never(HC)))
            if kind in ("text", "light", "switch") and isinstance(result, IObject):
                run.oblige("C14|%s/publishes-the-value-as-refreshed-by-the-Read-handlers" % label, I.to_term(result.fields["value"]) == val1)
            return
        if op == "read":
            run.oblige("C14|%s/every-Read-handler-invoked-exactly-once" % label, once(HR))
            run.oblige("C14|%s/no-Write-or-Change-event" % label, z3.And(never(HW), never(HC)))
            run.oblige("C14|%s/returns-the-value-as-refreshed-by-the-Read-handlers" % label, I.to_term(result) == val1)
            run.oblige("C14|%s/Read-handlers-get-the-element" % label, forall(j, implies(in_range(j, HR["n"]), z3.Select(HR["element_ok"], j))))
            return
        vetoed = z3.Exists([j], z3.And(in_range(j, HW["n"]), z3.Not(z3.Select(HW["is_coro"], j)), z3.Select(HW["veto"], j)))
        if op == "assign":
            run.oblige("C14|%s/raises-no-Write-event" % label, never(HW))
            vetoed = z3.BoolVal(False)
        else:
            run.oblige("C14|%s/every-Write-handler-invoked-exactly-once" % label, once(HW))
            run.oblige("C14|%s/coroutine-Write-handlers-are-scheduled-as-tasks-plain-ones-are-not" % label, tasks_ok(HW, z3.BoolVal(True)))
            run.oblige("C14|%s/Write-handlers-get-the-requested-value-and-the-element" % label,
                       forall(j, implies(in_range(j, HW["n"]), z3.And(z3.Select(HW["payload_new_value"], j) == I.to_term(req), z3.Select(HW["element_ok"], j)))))
            run.oblige("C14|%s/plain-Write-handlers-run-before-any-state-change" % label,
                       forall(j, implies(in_range(j, HW["n"]), z3.Select(HW["seen_value"], j) == old)))
        nserial = len(published)
        # vetoed: nothing changes, nothing is published, no Change
        if op != "assign":
            run.oblige("C14|%s/vetoed-write-changes-nothing" % label, implies(vetoed, z3.And(val1 == old, never(HC))))
            if nserial:
                run.oblige("C14,C01|%s/vetoed-write-publishes-nothing" % label, z3.Not(vetoed))
        if nserial == 0:
            run.oblige("C14,C01|%s/unvetoed-write-publishes-exactly-one-update" % label, vetoed)
            return
        if kind != "switch":
            run.oblige("C14|%s/takes-the-value" % label, val1 == reqt)
        else:
            # a switch takes the value the rule allows (C09); the event contract is about the value actually stored
            reqt = val1
        run.oblige("C14,C01|%s/publishes-exactly-one-update" % label, z3.BoolVal(nserial == 1))
        run.oblige("C14,C01|%s/the-published-update-carries-the-new-value" % label, published[0][1] == reqt)
        changed = old != reqt
        run.oblige("C14|%s/Change-handlers-invoked-exactly-once-iff-the-value-changed" % label,
                   z3.And(implies(changed, once(HC)), implies(z3.Not(changed), never(HC))))
        run.oblige("C14|%s/coroutine-Change-handlers-are-scheduled-as-tasks-iff-the-value-changed" % label, tasks_ok(HC, changed))
        run.oblige("C14|%s/Change-handlers-get-old-and-new-value" % label,
                   implies(changed, forall(j, implies(in_range(j, HC["n"]), z3.And(z3.Select(HC["payload_old_value"], j) == old,
                                                                                   z3.Select(HC["payload_new_value"], j) == reqt,
                                                                                   z3.Select(HC["element_ok"], j))))))
        # order: Write handlers, then store+publication, then Change handlers
        ser = pos(lambda t: t[0] == "serialise")
        run.oblige("C14,C01|%s/publication-recorded-in-the-trace" % label, z3.BoolVal(len(ser) == nserial))
        wr = pos(lambda t: t[0] in ("handler", "handlers") and t[1] == "Write")
        ch = pos(lambda t: t[0] in ("handler", "handlers") and t[1] == "Change")
        order_ok = all(a < b for a in wr for b in ser) and all(a < b for a in ser for b in ch)
        run.oblige("C14|%s/order-Write-then-publication-then-Change" % label, z3.BoolVal(order_ok))
        run.oblige("C14|%s/Change-handlers-see-the-new-value-already-stored" % label,
                   forall(j, implies(z3.And(in_range(j, HC["n"]), changed), z3.Select(HC["seen_value"], j) == reqt)))
        run.canary("C14|canary[%s]/value-never-changes" % label, val1 == old)
    return task


def task_c14_dispatch():
    """raise_event dispatch: plain handlers are called, coroutine functions are handed to create_task
    (exactly one task each, not run synchronously), handlers of other event kinds are not touched."""
    def task(I, run):
        v = D.make_vector(I, "text", n_min=1)
        E, n = v["E"], v["n"]
        s = I.fresh("s", IntS)
        run.assume(in_range(s, n))
        el = RObj(E, s)
        I.ghost.update(E=E, s=s, element=el)
        table = make_handlers(I, E, s)
        v["D"].fields["event_handlers"] = ("const", table)
        install(I)
        I.contracts[RAISE.key] = RAISE
        evm = I.import_module("indi.device.events")
        kind = KINDS3[run.choice(3, "event kind")]
        if kind == "Read":
            ev = I.call(evm.ns["Read"], [], {"element": el})
        elif kind == "Write":
            ev = I.call(evm.ns["Write"], [], {"element": el, "new_value": I.fresh_sym("nv")})
        else:
            ev = I.call(evm.ns["Change"], [], {"element": el, "old_value": I.fresh_sym("ov"), "new_value": I.fresh_sym("nv")})
        I.ghost["tasks"] = []
        f = I.world.functions[(D.EVT_FILE, "EventSource.raise_event")]
        I.root_func = f
        try:
            I.call(IBound(f, el), [ev], {})
        except IRaise as e:
            run.fail("C14|raise_event[%s]/raises-nothing" % kind, "raised %s" % e)
            return
        j = z3.Int("j")
        for k2 in KINDS3:
            H = I.ghost["H"][k2]
            want = 1 if k2 == kind else 0
            run.oblige("C14|raise_event[%s]/%s-handlers-invoked-%s" % (kind, k2, "exactly-once" if want else "not-at-all"),
                       forall(j, implies(in_range(j, H["n"]), z3.Select(H["count"], j) == want)))
            run.oblige("C14|raise_event[%s]/%s-coroutine-handlers-become-exactly-one-task-each" % (kind, k2),
                       forall(j, implies(in_range(j, H["n"]), z3.Select(H["tasks"], j) == ite(z3.And(z3.BoolVal(bool(want)), z3.Select(H["is_coro"], j)), 1, 0))))
    return task


# ---- handler registration through @on / attach_event_handlers: ground scenario executed from the real source -----------------
TWO_INSTANCES_SRC = '''
from indi.device import Driver, properties
from indi.device.events import on, Write, Change, Read


class Focuser(Driver):
    main = properties.Group("MAIN", vectors=dict(
        pos=properties.NumberVector("POS", elements=dict(x=properties.Number("X", default=1.0), target=properties.Number("TARGET", default=0.0))),
    ))

    def __init__(self, *a, **k):
        super().__init__(*a, **k)
        self.calls = []

    @on(main.pos.x, Write)
    def on_write_x(self, event):
        self.calls.append("write")

    @on(main.pos.x, Change)
    def on_change_x(self, event):
        self.calls.append("change")

    @on(main.pos.x, Read)
    def on_read_x(self, event):
        self.calls.append("read")


A = Focuser(name="A")
B = Focuser(name="B")
A.main.pos.x.set_value(5.0)
'''


def task_c14_instances():
    """every handler subscribed to THE ELEMENT's event is invoked exactly once: with two devices of the same driver class the
    handlers declared with @on are attached per instance; a write to A's element runs A's handlers only (ground obligation)"""
    def task(I, run):
        import ast as _ast
        from pyvc.interp import Env
        m = IModule("two_instances_scn")
        m.ns["__name__"] = "two_instances_scn"
        m.relpath = "<two instances scenario>"
        env = Env()
        env.vars = m.ns
        m.env = env
        install(I)
        try:
            I.exec_block(_ast.parse(TWO_INSTANCES_SRC).body, env, m, "")
        except IRaise as e:
            run.fail("C14|instances/scenario-runs", "raised %s" % e)
            return
        a, b = m.ns["A"], m.ns["B"]
        ca = [x for x in a.fields["calls"].items]
        cb = [x for x in b.fields["calls"].items]
        w = lambda mm: {"replay_kind": "driver.two_instances"}
        run.oblige("C14|instances/the-written-device's-Write-and-Change-handlers-run-exactly-once", z3.BoolVal(ca.count("write") == 1 and ca.count("change") == 1),
                   note="A's handlers saw %r" % (ca,), witness=w)
        run.oblige("C14|instances/handlers-of-another-instance-of-the-same-driver-class-are-not-invoked", z3.BoolVal(cb == []),
                   note="B's handlers saw %r" % (cb,), witness=w)
    return task
