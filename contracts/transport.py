"""Contracts for the transports (indi/transport/server/tcp.py, server/tty.py, client/tcp.py):
properties C12 (receive path), C18 (connection teardown), C19 (outbound ordering discipline).

asyncio is cooperative: between two awaits a coroutine runs atomically.  Coroutines are
executed symbolically segment by segment; what an await returns is havocked under the
awaited object's assumed contract (reader.read(n) returns any bytes or raises; sleep
returns; lock acquisition returns).  Scheduling order and time are not modelled.
"""
import z3
from pyvc import smt
from pyvc.smt import (Val, VNone, VStr, VBool, VRef, VInt, VBytes, is_none, is_str, is_ref, is_bytes, get_s, get_y, S)
from pyvc.values import *
from pyvc.spec import LoopContract, Contract, forall, exists, implies, ite
from pyvc.interp import IRaise, OutOfReach, MISSING, PathEnd
from pyvc.stdlib_models import AwaitMarker, StringIOModel

TCP_S = "indi/transport/server/tcp.py"
TTY_S = "indi/transport/server/tty.py"
TCP_C = "indi/transport/client/tcp.py"
BUF = "indi/transport/buffer.py"


class IOError_(Exception):
    pass


class RouterIface:
    """the router as seen from a connection handler (its own behaviour is C04/C05/C12-router)"""
    def getattr(self, I, sym, name, default=MISSING):
        g = I.ghost
        if name == "process_message":
            def pm(I_, a, k):
                g.setdefault("routed", []).append((a[0] if a else k.get("message"), k.get("sender", a[1] if len(a) > 1 else None)))
                if g.get("router_may_raise"):
                    if I_.prover.fork(I_.fresh("router_raises", z3.BoolSort())):
                        I_.raise_builtin("RuntimeError", "error while handling the message")
                return None
            return Native("process_message", pm)
        if name == "register_client":
            def rc(I_, a, k):
                g.setdefault("registered", []).append(a[0])
                g.setdefault("trace", []).append(("register", a[0]))
            return Native("register_client", rc)
        if name == "unregister_client":
            def uc(I_, a, k):
                g.setdefault("unregistered", []).append(a[0])
                g.setdefault("trace", []).append(("unregister", a[0]))
            return Native("unregister_client", uc)
        raise OutOfReach("router attribute %s" % name)

    def isinstance(self, I, v, c):
        return None


class ReaderIface:
    def getattr(self, I, sym, name, default=MISSING):
        if name in ("read", "readline"):
            return Native(name, lambda I_, a, k: AwaitMarker(name, sym, tuple(a)))
        raise OutOfReach("reader attribute %s" % name)


class WriterIface:
    def getattr(self, I, sym, name, default=MISSING):
        g = I.ghost
        if name == "write":
            def write(I_, a, k):
                g.setdefault("trace", []).append(("write", sym, a[0]))
                if name == "write" and g.get("write_is_awaitable"):
                    return AwaitMarker("write", sym, tuple(a))
                return None
            return Native("write", write)
        if name in ("drain", "flush"):
            return Native(name, lambda I_, a, k: AwaitMarker(name, sym, ()))
        if name == "close":
            def close(I_, a, k):
                g.setdefault("trace", []).append(("close", sym))
                g["writer_closed"] = g.get("writer_closed", 0) + 1
            return Native("close", close)
        raise OutOfReach("writer attribute %s" % name)


def default_await(I, v):
    """what an await returns: any result of the awaited operation, or an exception of the I/O layer"""
    g = I.ghost
    if isinstance(v, AwaitMarker):
        g.setdefault("trace", []).append(("await", v.what, v.obj))
        if v.what in ("read", "readline"):
            if g.get("io_may_fail") and I.prover.fork(I.fresh("read_fails", z3.BoolSort())):
                I.raise_builtin("ConnectionResetError", "read failed")
            data = I.fresh_sym("chunk")
            g["unappended"] = True
            if v.what == "read":
                I.prover.assume(is_bytes(data.term))
            else:
                I.prover.assume(is_str(data.term))
            return data
        if v.what in ("drain", "flush", "write"):
            if g.get("io_may_fail") and I.prover.fork(I.fresh("write_fails", z3.BoolSort())):
                I.raise_builtin("BrokenPipeError", "write failed")
            return None
        return None
    raise OutOfReach("await on %r" % (v,))


def _apply_buffer_process(I, f, args, kwargs):
    """Buffer.process through its contract (C11): raises only what the callback raises; the callback
    gets genuine messages only.  One generic delivery stands for each of the deliveries (they are
    independent: the callback's effect on the router is abstract)."""
    cb = args[1]
    I.ghost["unprocessed"] = False
    I.ghost["process_calls"] = I.ghost.get("process_calls", 0) + 1
    n = I.prover.choice(2, "deliveries in this call")
    if n == 1:
        from contracts.buffer import MSG_RID
        m = Sym(VRef(z3.IntVal(MSG_RID), I.fresh("delivered_msg", z3.IntSort())))
        I.call(cb, [m], {})
    return None


BUFFER_PROCESS = Contract(BUF, "Buffer.process", modular=True, apply=_apply_buffer_process)


def make_tcp_server_handler(I, with_router=True):
    mod = I.import_module("indi.transport.server.tcp")
    CH = mod.ns["ConnectionHandler"]
    I.contracts[BUFFER_PROCESS.key] = BUFFER_PROCESS
    install_promptness_ghost(I)
    I.await_hook = default_await
    reader, writer = Sym(I.fresh("reader"), ReaderIface()), Sym(I.fresh("writer"), WriterIface())
    router = Sym(I.fresh("router"), RouterIface()) if with_router else None
    if router is not None:
        I.prover.assume(is_ref(router.term))
    h = I.call(CH, [reader, writer, router], {})
    return h, CH, router, reader, writer


def make_tty_handler(I):
    mod = I.import_module("indi.transport.server.tty")
    CH = mod.ns["ConnectionHandler"]
    I.contracts[BUFFER_PROCESS.key] = BUFFER_PROCESS
    install_promptness_ghost(I)
    I.await_hook = default_await
    stdin, stdout = Sym(I.fresh("stdin"), ReaderIface()), Sym(I.fresh("stdout"), WriterIface())
    router = Sym(I.fresh("router"), RouterIface())
    I.prover.assume(is_ref(router.term))
    h = I.call(CH, [router, stdin, stdout], {})
    return h, CH, router, stdin, stdout


def _recv_loop(I, ordinal, it):
    fn = I.frames[-1][0].qualname if I.frames else ""
    if fn.endswith("ConnectionHandler.wait_for_messages") and it is None:
        return _RECV_LOOP
    return None


def _recv_inv(ctx):
    g = ctx.interp.ghost
    return [("connection-keeps-serving(no-exception-escaped-the-iteration)", z3.BoolVal(True)),
            ("C02,C08,C15:every-chunk-read-is-appended-to-the-buffer-before-the-next-read", z3.BoolVal(not g.get("unappended", False))),
            ("C02,C08,C15:the-buffer-is-processed-after-every-append-before-the-next-read(promptness)", z3.BoolVal(not g.get("unprocessed", False)))]


def _recv_havoc(ctx):
    ctx.interp.ghost["unappended"] = False
    ctx.interp.ghost["unprocessed"] = False


_RECV_LOOP = LoopContract(_recv_inv, _recv_havoc, props="C12,C18", label="receive")


def install_promptness_ghost(I):
    """ghost flags for the call-site half of C02's promptness clause: a chunk that was read is appended, and the buffer is
    processed, before the connection waits for more data"""
    def append(I_, f, a, k):
        I_.ghost["unappended"] = False
        I_.ghost["unprocessed"] = True
        return I_.run_function(f, a, k)
    I.call_hooks[(BUF, "Buffer.append")] = append
RECV_TCP = Contract(TCP_S, "ConnectionHandler.wait_for_messages", loop_selector=_recv_loop)
RECV_TTY = Contract(TTY_S, "ConnectionHandler.wait_for_messages", loop_selector=_recv_loop)
RECV_CLI = Contract(TCP_C, "ConnectionHandler.wait_for_messages", loop_selector=_recv_loop)


def task_c12_receive(which):
    """One iteration of the receive loop, for any bytes read: decoding, buffering and dispatch raise
    nothing (given the router raises nothing, C12's router/driver obligations) -- so the connection
    keeps serving; every message the buffer delivers goes to the router with this connection as sender."""
    def task(I, run):
        if which == "tcp":
            h, CH, router, _, _ = make_tcp_server_handler(I)
            I.contracts[RECV_TCP.key] = RECV_TCP
            f = I.world.functions[(TCP_S, "ConnectionHandler.wait_for_messages")]
        else:
            h, CH, router, _, _ = make_tty_handler(I)
            I.contracts[RECV_TTY.key] = RECV_TTY
            f = I.world.functions[(TTY_S, "ConnectionHandler.wait_for_messages")]
        I.ghost["routed"] = []
        I.root_func = f
        label = "%s.wait_for_messages" % which
        try:
            I.do_await(I.call(IBound(f, h), [], {}))
        except IRaise as e:
            run.fail("C12,C02|%s/receive-loop-raises-nothing-for-any-bytes-read" % label, "raised %s" % e)
            return
        # reached only through `break` (EOF): fine
        run.cover("cover[%s]/eof" % label)
    return task


def task_c12_dispatch(which):
    def task(I, run):
        if which == "tcp":
            h, CH, router, _, _ = make_tcp_server_handler(I)
            f = I.world.functions[(TCP_S, "ConnectionHandler.message_from_client")]
        else:
            h, CH, router, _, _ = make_tty_handler(I)
            f = I.world.functions[(TTY_S, "ConnectionHandler.message_from_client")]
        m = I.fresh_sym("message")
        I.ghost["routed"] = []
        label = "%s.message_from_client" % which
        try:
            I.call(IBound(f, h), [m], {})
        except IRaise as e:
            run.fail("C12|%s/adds-no-exception-of-its-own" % label, "raised %s" % e)
            return
        routed = I.ghost["routed"]
        run.oblige("C12|%s/hands-the-message-to-the-router-once-with-itself-as-sender" % label,
                   z3.BoolVal(len(routed) == 1 and routed[0][0] is m and routed[0][1] is h))
    return task


def task_client_receive():
    """client TCP connection: one receive-loop iteration for any bytes read raises nothing given the
    consumer (BaseClient.process_message, C15) raises nothing; every delivered message goes to it."""
    def task(I, run):
        mod = I.import_module("indi.transport.client.tcp")
        CH = mod.ns["ConnectionHandler"]
        I.contracts[BUFFER_PROCESS.key] = BUFFER_PROCESS
        I.contracts[RECV_CLI.key] = RECV_CLI
        install_promptness_ghost(I)
        I.await_hook = default_await
        got = []

        class Consumer:
            callable = True

            def call_self(self, I_, sym, args, kwargs):
                got.append(args[0])
                return None
        reader, writer = Sym(I.fresh("reader"), ReaderIface()), Sym(I.fresh("writer"), WriterIface())
        cb = Sym(I.fresh("consumer"), Consumer())
        for_blobs = bool(run.choice(2, "for_blobs"))
        h = I.call(CH, [reader, writer, cb], {"for_blobs": for_blobs})
        th = h.fields["buffer"].fields["max_buffer_size_before_frontal_cleanup"]
        run.oblige("C15,C08|client.tcp/blob-connection-disables-the-junk-threshold-control-connection-keeps-it",
                   z3.BoolVal((th is None) == for_blobs))
        f = I.world.functions[(TCP_C, "ConnectionHandler.wait_for_messages")]
        I.root_func = f
        try:
            I.do_await(I.call(IBound(f, h), [], {}))
        except IRaise as e:
            run.fail("C15,C02|client.tcp.wait_for_messages/receive-loop-raises-nothing-for-any-bytes-read", "raised %s" % e)
            return
        run.cover("cover[client.tcp]/eof")
    return task


# =====================================================================================================
# C18 -- every way a connection can end leaves the router clean
# =====================================================================================================
def cancellable_await(I, v):
    """like default_await, plus: any await may be the point where the task is cancelled"""
    g = I.ghost
    if g.get("cancel_may_happen") and I.prover.fork(I.fresh("cancelled_here", z3.BoolSort())):
        asy = I.import_module("asyncio")
        raise IRaise(IObject(asy.ns["CancelledError"]))
    return default_await(I, v)


def task_c18(which):
    """The per-connection coroutine of the server (tcp: handler_func; tty: ConnectionHandler.handle) for
    EVERY way the receive loop can end: EOF at any iteration (also inside a message / after junk: the buffer
    content is arbitrary), a read error, an exception out of message handling, cancellation at any await."""
    def task(I, run):
        I.ghost.update(io_may_fail=True, router_may_raise=True, cancel_may_happen=True, trace=[], registered=[], unregistered=[])
        label = which
        if which == "tcp":
            mod = I.import_module("indi.transport.server.tcp")
            CH = mod.ns["ConnectionHandler"]
            I.contracts[BUFFER_PROCESS.key] = BUFFER_PROCESS
            I.contracts[RECV_TCP.key] = RECV_TCP
            install_promptness_ghost(I)
            I.await_hook = cancellable_await
            reader, writer = Sym(I.fresh("reader"), ReaderIface()), Sym(I.fresh("writer"), WriterIface())
            router = Sym(I.fresh("router"), RouterIface())
            run.assume(is_ref(router.term))
            other = IObject(CH)          # another live connection in the class-level list
            CH.attrs["connections"] = IList([other])
            hf = I.call(I.getattr(CH, "handler"), [router], {})
            coro = I.call(hf, [reader, writer], {})
        else:
            h, CH, router, stdin, stdout = make_tty_handler(I)
            I.contracts[RECV_TTY.key] = RECV_TTY
            I.await_hook = cancellable_await
            I.ghost.update(trace=[t for t in I.ghost["trace"]])
            coro = I.call(I.getattr(h, "handle"), [], {})
        ended = "returned"
        try:
            I.do_await(coro)
        except IRaise as e:
            ended = "raised %s" % (e.value.cls.name if isinstance(e.value, IObject) else e)
        g = I.ghost
        reg, unreg = g["registered"], g["unregistered"]
        run.cover("cover[%s]/%s" % (label, ended))
        run.oblige("C18|%s/registers-the-connection-exactly-once" % label, z3.BoolVal(len(reg) == 1))
        conn = reg[0] if reg else None
        run.oblige("C18|%s/the-router-forgets-the-connection-however-it-ended(%s)" % (label, "any"),
                   z3.BoolVal(len(unreg) == 1 and unreg[0] is conn), note="ended: %s; unregistered %d times" % (ended, len(unreg)))
        run.canary("C18|canary[%s]/the-connection-is-never-unregistered" % label, z3.BoolVal(len(unreg) == 0))
        tr = g["trace"]
        pos_reg = [i for i, t in enumerate(tr) if t[0] == "register"]
        pos_unreg = [i for i, t in enumerate(tr) if t[0] == "unregister"]
        run.oblige("C18|%s/unregistration-comes-last-after-registration" % label,
                   z3.BoolVal(bool(pos_reg) and bool(pos_unreg) and pos_reg[0] < pos_unreg[-1]))
        if which == "tcp":
            closes = [t for t in tr if t[0] == "close"]
            run.oblige("C18|tcp/the-socket-is-closed-exactly-once", z3.BoolVal(len(closes) == 1))
            lst = CH.attrs["connections"].items
            run.oblige("C18|tcp/the-connection-leaves-the-server's-list-and-the-others-stay",
                       z3.BoolVal(len(lst) == 1 and lst[0] is other))
            run.oblige("C18|tcp/the-per-connection-coroutine-swallows-the-failure(server-keeps-serving)", z3.BoolVal(ended == "returned"),
                       note="ended: %s" % ended)
    return task


# =====================================================================================================
# C19 -- outbound messages are whole and in order under every I/O schedule (lock discipline O1..O5)
# =====================================================================================================
def task_c19(which):
    def task(I, run):
        asy = I.import_module("asyncio")
        I.ghost.update(trace=[], tasks=[])
        I.await_hook = default_await
        if which == "tcp-server":
            h, CH, router, reader, writer = make_tcp_server_handler(I)
            file_, route_fn, send_fn = TCP_S, "message_from_device", "send"
        elif which == "tcp-client":
            mod = I.import_module("indi.transport.client.tcp")
            CH = mod.ns["ConnectionHandler"]
            reader, writer = Sym(I.fresh("reader"), ReaderIface()), Sym(I.fresh("writer"), WriterIface())
            h = I.call(CH, [reader, writer, None], {})
            file_, route_fn, send_fn = TCP_C, "send_message", "send"
        else:
            I.ghost["write_is_awaitable"] = True
            h, CH, router, stdin, writer = make_tty_handler(I)
            file_, route_fn, send_fn = TTY_S, "message_from_device", "_write"
        I.ghost["trace"] = []
        label = which
        # O1/O2: the routing call serialises synchronously, creates exactly one task, awaits nothing
        base = I.import_module("indi.message.base")
        msg = IObject(base.ns["IndiMessage"])
        serialised = []

        def to_string(I_, f, args, kwargs):
            b = I_.fresh_sym("wire_bytes")
            I_.prover.assume(is_bytes(b.term))
            serialised.append((len(I_.ghost["trace"]), b))
            I_.ghost["trace"].append(("serialise", args[0]))
            return b
        I.call_hooks[("indi/message/base.py", "IndiMessage.to_string")] = to_string
        rf, _ = CH.lookup(route_fn)
        run.oblige("C19|%s/O2:the-routing-call-is-synchronous(cannot-block-the-router)" % label, z3.BoolVal(isinstance(rf, IFunction) and not rf.is_async))
        try:
            I.call(IBound(rf, h), [msg], {})
        except IRaise as e:
            run.fail("C19|%s/routing-call-raises-nothing" % label, "raised %s" % e)
            return
        tasks = I.ghost.get("tasks", [])
        awaits = [t for t in I.ghost["trace"] if t[0] == "await"]
        run.oblige("C19|%s/O1:the-bytes-are-produced-in-the-routing-call" % label, z3.BoolVal(len(serialised) == 1))
        run.oblige("C19|%s/O2:exactly-one-task-per-routed-message-and-no-await-in-the-routing-call" % label,
                   z3.BoolVal(len(tasks) == 1 and isinstance(tasks[0], ICoroutine) and not awaits))
        if not (len(tasks) == 1 and isinstance(tasks[0], ICoroutine)):
            return
        co = tasks[0]
        data = co.args[-1] if co.args else None
        if which == "tty":
            # the tty channel writes text: the task argument is the decoded serialisation
            ok_arg = isinstance(data, Sym) and serialised and S(get_s(data.term)).eq(S(get_y(serialised[0][1].term)))
        else:
            ok_arg = serialised and data is serialised[0][1]
        run.oblige("C19|%s/O1:the-task-carries-exactly-those-bytes" % label, z3.BoolVal(bool(ok_arg)))
        run.oblige("C19|%s/the-task-is-the-connection's-own-send-coroutine" % label,
                   z3.BoolVal(co.func.qualname.endswith("ConnectionHandler." + send_fn) and co.args and co.args[0] is h))
        # O3/O4/O5: run the send coroutine: every stream access inside one critical section of the connection's lock
        I.ghost["trace"] = []
        try:
            I.do_await(co)
        except IRaise as e:
            run.fail("C19|%s/send-raises-nothing-when-the-stream-works" % label, "raised %s" % e)
            return
        tr = I.ghost["trace"]
        kinds = [t[0] for t in tr]
        writes = [i for i, t in enumerate(tr) if t[0] == "write"]
        acq = [i for i, t in enumerate(tr) if t[0] == "lock-acquire"]
        rel = [i for i, t in enumerate(tr) if t[0] == "lock-release"]
        run.oblige("C19|%s/O4:the-whole-message-is-handed-over-in-one-write" % label,
                   z3.BoolVal(len(writes) == 1 and tr[writes[0]][2] is data))
        lock_obj = h.fields.get("sender_lock")
        in_section = bool(writes) and bool(acq) and bool(rel) and acq[0] < writes[0] < rel[-1] and len(acq) == 1 and len(rel) == 1 \
            and all(tr[i][1] is lock_obj for i in acq + rel) and lock_obj is not None
        run.oblige("C19|%s/O3:every-stream-access-is-inside-one-critical-section-of-the-connection's-own-lock" % label, z3.BoolVal(in_section),
                   note="trace: %s" % kinds)
        stream_ops = [i for i, t in enumerate(tr) if t[0] in ("write",) or (t[0] == "await" and t[1] in ("drain", "flush", "write"))]
        run.oblige("C19|%s/O5:nothing-touches-the-stream-outside-the-section" % label,
                   z3.BoolVal(bool(acq) and bool(rel) and all(acq[0] < i < rel[-1] for i in stream_ops)), note="trace: %s" % kinds)
        if which != "tty":
            first_await = min([i for i, t in enumerate(tr) if t[0] == "await" and t[1] != "lock.acquire"] or [10 ** 9])
            run.oblige("C19|%s/O4:the-write-precedes-any-await-inside-the-section" % label, z3.BoolVal(bool(writes) and writes[0] < first_await))
    return task


# =====================================================================================================
# C05 -- the endpoint contract the router's fan-out loop assumes, discharged on the shipped client endpoints
# =====================================================================================================
class RouterProbeIface(RouterIface):
    """the router as seen from a client endpoint during delivery: every use is recorded"""
    def getattr(self, I, sym, name, default=MISSING):
        I.ghost.setdefault("router_uses", []).append(name)
        if name in ("process_message", "register_client", "unregister_client"):
            return RouterIface.getattr(self, I, sym, name, default)
        if name in ("register_device", "process_enable_blob"):
            return Native(name, lambda I_, a, k: None)
        raise OutOfReach("router attribute %s read inside message_from_device" % name)


def task_endpoint_frame(which):
    """message_from_device of the shipped server-side client endpoints, called the way Router.process_message calls it
    (synchronously, inside its loop over the registry): raises nothing, awaits nothing, and calls no mutator of the
    router's registries / BLOB policies (so the registry the router iterates is the registry it started with)."""
    def task(I, run):
        I.import_module("asyncio")
        I.ghost.update(trace=[], tasks=[], router_uses=[])
        if which == "tcp-server":
            mod = I.import_module("indi.transport.server.tcp")
            CH = mod.ns["ConnectionHandler"]
            I.await_hook = default_await
            reader, writer = Sym(I.fresh("reader"), ReaderIface()), Sym(I.fresh("writer"), WriterIface())
            router = Sym(I.fresh("router"), RouterProbeIface())
            I.prover.assume(is_ref(router.term))
            h = I.call(CH, [reader, writer, router], {})
        else:
            I.ghost["write_is_awaitable"] = True
            mod = I.import_module("indi.transport.server.tty")
            CH = mod.ns["ConnectionHandler"]
            I.await_hook = default_await
            stdin, stdout = Sym(I.fresh("stdin"), ReaderIface()), Sym(I.fresh("stdout"), WriterIface())
            router = Sym(I.fresh("router"), RouterProbeIface())
            I.prover.assume(is_ref(router.term))
            h = I.call(CH, [router, stdin, stdout], {})
        label = which
        reg0 = list(I.ghost.get("registered", []))
        run.oblige("C05|endpoint[%s]/construction-registers-the-connection-exactly-once" % label,
                   z3.BoolVal(len(reg0) == 1 and reg0[0] is h and not I.ghost.get("unregistered")))
        I.ghost.update(trace=[], tasks=[], router_uses=[], routed=[])
        base = I.import_module("indi.message.base")
        msg = IObject(base.ns["IndiMessage"])

        def to_string(I_, f, args, kwargs):
            b = I_.fresh_sym("wire_bytes")
            I_.prover.assume(is_bytes(b.term))
            return b
        I.call_hooks[("indi/message/base.py", "IndiMessage.to_string")] = to_string
        rf, _ = CH.lookup("message_from_device")
        run.cover("endpoint[%s]-delivery-reached" % label)
        try:
            I.call(IBound(rf, h), [msg], {})
        except IRaise as e:
            run.fail("C05|endpoint[%s]/delivery-raises-nothing-inside-the-router's-loop" % label, "raised %s" % e)
            return
        run.oblige("C05|endpoint[%s]/delivery-raises-nothing-inside-the-router's-loop" % label, z3.BoolVal(True))
        uses = list(I.ghost.get("router_uses", []))
        mutators = [u for u in uses if u in ("register_client", "unregister_client", "register_device", "process_enable_blob")]
        run.oblige("C05|endpoint[%s]/delivery-calls-no-mutator-of-the-router's-registries-or-BLOB-policies" % label,
                   z3.BoolVal(not mutators and len(I.ghost.get("registered", [])) == len(reg0) and not I.ghost.get("unregistered")),
                   note="router uses during delivery: %s" % uses)
        run.oblige("C05|endpoint[%s]/delivery-does-not-re-enter-the-router" % label, z3.BoolVal(not I.ghost.get("routed")),
                   note="router uses during delivery: %s" % uses)
        awaits = [t for t in I.ghost["trace"] if t[0] == "await"]
        run.oblige("C05|endpoint[%s]/delivery-is-synchronous(no-other-code-runs-while-the-router-iterates)" % label,
                   z3.BoolVal(isinstance(rf, IFunction) and not rf.is_async and not awaits))
        stream_ops = [t for t in I.ghost["trace"] if t[0] in ("write", "close")]
        run.oblige("C05|endpoint[%s]/delivery-does-not-close-the-connection" % label, z3.BoolVal(not [t for t in stream_ops if t[0] == "close"]))
    return task
