"""Contracts for the transports (indi/transport/server/tcp.py, server/tty.py, client/tcp.py):
properties C12 (receive path), C18 (connection teardown), C19 (outbound ordering discipline).

asyncio is cooperative: between two awaits a coroutine runs atomically.  Coroutines are
executed symbolically segment by segment; what an await returns is havocked under the
awaited object's assumed contract (reader.read(n) returns any bytes or raises; sleep
returns; lock acquisition returns).  Scheduling order and time are not modelled.
"""
import z3
from pyvc import smt
from pyvc.smt import (Val, VNone, VStr, VBool, VRef, VInt, VBytes, is_none, is_str, is_ref, is_bytes, get_s, get_y, S)
from pyvc.values import *
from pyvc.spec import LoopContract, Contract, forall, exists, implies, ite
from pyvc.interp import IRaise, OutOfReach, MISSING, PathEnd
from pyvc.stdlib_models import AwaitMarker, StringIOModel

TCP_S = "indi/transport/server/tcp.py"
TTY_S = "indi/transport/server/tty.py"
TCP_C = "indi/transport/client/tcp.py"
BUF = "indi/transport/buffer.py"


class IOError_(Exception):
    pass


class RouterIface:
    """the router as seen from a connection handler (its own behaviour is C04/C05/C12-router)"""
    def getattr(self, I, sym, name, default=MISSING):
        g = I.ghost
        if name == "process_message":
            def pm(I_, a, k):
                g.setdefault("routed", []).append((a[0] if a else k.get("message"), k.get("sender", a[1] if len(a) > 1 else None)))
                if g.get("router_may_raise"):
                    if I_.prover.fork(I_.fresh("router_raises", z3.BoolSort())):
                        I_.raise_builtin("RuntimeError", "error while handling the message")
                return None
            return Native("process_message", pm)
        if name == "register_client":
            def rc(I_, a, k):
                g.setdefault("registered", []).append(a[0])
                g.setdefault("trace", []).append(("register", a[0]))
            return Native("register_client", rc)
        if name == "unregister_client":
            def uc(I_, a, k):
                g.setdefault("unregistered", []).append(a[0])
                g.setdefault("trace", []).append(("unregister", a[0]))
            return Native("unregister_client", uc)
        raise OutOfReach("router attribute %s" % name)

    def isinstance(self, I, v, c):
        return None


class ReaderIface:
    def getattr(self, I, sym, name, default=MISSING):
        if name in ("read", "readline"):
            return Native(name, lambda I_, a, k: AwaitMarker(name, sym, tuple(a)))
        raise OutOfReach("reader attribute %s" % name)


class WriterIface:
    def getattr(self, I, sym, name, default=MISSING):
        g = I.ghost
        if name == "write":
            def write(I_, a, k):
                g.setdefault("trace", []).append(("write", sym, a[0]))
                if name == "write" and g.get("write_is_awaitable"):
                    return AwaitMarker("write", sym, tuple(a))
                return None
            return Native("write", write)
        if name in ("drain", "flush"):
            return Native(name, lambda I_, a, k: AwaitMarker(name, sym, ()))
        if name == "close":
            def close(I_, a, k):
                g.setdefault("trace", []).append(("close", sym))
                g["writer_closed"] = g.get("writer_closed", 0) + 1
            return Native("close", close)
        raise OutOfReach("writer attribute %s" % name)


def default_await(I, v):
    """what an await returns: any result of the awaited operation, or an exception of the I/O layer"""
    g = I.ghost
    if isinstance(v, AwaitMarker):
        g.setdefault("trace", []).append(("await", v.what, v.obj))
        if v.what in ("read", "readline"):
            if g.get("io_may_fail") and I.prover.fork(I.fresh("read_fails", z3.BoolSort())):
                I.raise_builtin("ConnectionResetError", "read failed")
            data = I.fresh_sym("chunk")
            if v.what == "read":
                I.prover.assume(is_bytes(data.term))
            else:
                I.prover.assume(is_str(data.term))
            return data
        if v.what in ("drain", "flush", "write"):
            if g.get("io_may_fail") and I.prover.fork(I.fresh("write_fails", z3.BoolSort())):
                I.raise_builtin("BrokenPipeError", "write failed")
            return None
        return None
    raise OutOfReach("await on %r" % (v,))


def _apply_buffer_process(I, f, args, kwargs):
    """Buffer.process through its contract (C11): raises only what the callback raises; the callback
    gets genuine messages only.  One generic delivery stands for each of the deliveries (they are
    independent: the callback's effect on the router is abstract)."""
    cb = args[1]
    I.ghost["process_calls"] = I.ghost.get("process_calls", 0) + 1
    n = I.prover.choice(2, "deliveries in this call")
    if n == 1:
        from contracts.buffer import MSG_RID
        m = Sym(VRef(z3.IntVal(MSG_RID), I.fresh("delivered_msg", z3.IntSort())))
        I.call(cb, [m], {})
    return None


BUFFER_PROCESS = Contract(BUF, "Buffer.process", modular=True, apply=_apply_buffer_process)


def make_tcp_server_handler(I, with_router=True):
    mod = I.import_module("indi.transport.server.tcp")
    CH = mod.ns["ConnectionHandler"]
    I.contracts[BUFFER_PROCESS.key] = BUFFER_PROCESS
    I.await_hook = default_await
    reader, writer = Sym(I.fresh("reader"), ReaderIface()), Sym(I.fresh("writer"), WriterIface())
    router = Sym(I.fresh("router"), RouterIface()) if with_router else None
    if router is not None:
        I.prover.assume(is_ref(router.term))
    h = I.call(CH, [reader, writer, router], {})
    return h, CH, router, reader, writer


def make_tty_handler(I):
    mod = I.import_module("indi.transport.server.tty")
    CH = mod.ns["ConnectionHandler"]
    I.contracts[BUFFER_PROCESS.key] = BUFFER_PROCESS
    I.await_hook = default_await
    stdin, stdout = Sym(I.fresh("stdin"), ReaderIface()), Sym(I.fresh("stdout"), WriterIface())
    router = Sym(I.fresh("router"), RouterIface())
    I.prover.assume(is_ref(router.term))
    h = I.call(CH, [router, stdin, stdout], {})
    return h, CH, router, stdin, stdout


def _recv_loop(I, ordinal, it):
    fn = I.frames[-1][0].qualname if I.frames else ""
    if fn.endswith("ConnectionHandler.wait_for_messages") and it is None:
        return _RECV_LOOP
    return None


_RECV_LOOP = LoopContract(lambda ctx: [("connection-keeps-serving(no-exception-escaped-the-iteration)", z3.BoolVal(True))], None,
                          props="C12,C18", label="receive")
RECV_TCP = Contract(TCP_S, "ConnectionHandler.wait_for_messages", loop_selector=_recv_loop)
RECV_TTY = Contract(TTY_S, "ConnectionHandler.wait_for_messages", loop_selector=_recv_loop)
RECV_CLI = Contract(TCP_C, "ConnectionHandler.wait_for_messages", loop_selector=_recv_loop)


def task_c12_receive(which):
    """One iteration of the receive loop, for any bytes read: decoding, buffering and dispatch raise
    nothing (given the router raises nothing, C12's router/driver obligations) -- so the connection
    keeps serving; every message the buffer delivers goes to the router with this connection as sender."""
    def task(I, run):
        if which == "tcp":
            h, CH, router, _, _ = make_tcp_server_handler(I)
            I.contracts[RECV_TCP.key] = RECV_TCP
            f = I.world.functions[(TCP_S, "ConnectionHandler.wait_for_messages")]
        else:
            h, CH, router, _, _ = make_tty_handler(I)
            I.contracts[RECV_TTY.key] = RECV_TTY
            f = I.world.functions[(TTY_S, "ConnectionHandler.wait_for_messages")]
        I.ghost["routed"] = []
        I.root_func = f
        label = "%s.wait_for_messages" % which
        try:
            I.do_await(I.call(IBound(f, h), [], {}))
        except IRaise as e:
            run.fail("C12|%s/receive-loop-raises-nothing-for-any-bytes-read" % label, "raised %s" % e)
            return
        # reached only through `break` (EOF): fine
        run.cover("cover[%s]/eof" % label)
    return task


def task_c12_dispatch(which):
    def task(I, run):
        if which == "tcp":
            h, CH, router, _, _ = make_tcp_server_handler(I)
            f = I.world.functions[(TCP_S, "ConnectionHandler.message_from_client")]
        else:
            h, CH, router, _, _ = make_tty_handler(I)
            f = I.world.functions[(TTY_S, "ConnectionHandler.message_from_client")]
        m = I.fresh_sym("message")
        I.ghost["routed"] = []
        label = "%s.message_from_client" % which
        try:
            I.call(IBound(f, h), [m], {})
        except IRaise as e:
            run.fail("C12|%s/adds-no-exception-of-its-own" % label, "raised %s" % e)
            return
        routed = I.ghost["routed"]
        run.oblige("C12|%s/hands-the-message-to-the-router-once-with-itself-as-sender" % label,
                   z3.BoolVal(len(routed) == 1 and routed[0][0] is m and routed[0][1] is h))
    return task


def task_client_receive():
    """client TCP connection: one receive-loop iteration for any bytes read raises nothing given the
    consumer (BaseClient.process_message, C15) raises nothing; every delivered message goes to it."""
    def task(I, run):
        mod = I.import_module("indi.transport.client.tcp")
        CH = mod.ns["ConnectionHandler"]
        I.contracts[BUFFER_PROCESS.key] = BUFFER_PROCESS
        I.contracts[RECV_CLI.key] = RECV_CLI
        I.await_hook = default_await
        got = []

        class Consumer:
            callable = True

            def call_self(self, I_, sym, args, kwargs):
                got.append(args[0])
                return None
        reader, writer = Sym(I.fresh("reader"), ReaderIface()), Sym(I.fresh("writer"), WriterIface())
        cb = Sym(I.fresh("consumer"), Consumer())
        for_blobs = bool(run.choice(2, "for_blobs"))
        h = I.call(CH, [reader, writer, cb], {"for_blobs": for_blobs})
        th = h.fields["buffer"].fields["max_buffer_size_before_frontal_cleanup"]
        run.oblige("C15,C08|client.tcp/blob-connection-disables-the-junk-threshold-control-connection-keeps-it",
                   z3.BoolVal((th is None) == for_blobs))
        f = I.world.functions[(TCP_C, "ConnectionHandler.wait_for_messages")]
        I.root_func = f
        try:
            I.do_await(I.call(IBound(f, h), [], {}))
        except IRaise as e:
            run.fail("C15|client.tcp.wait_for_messages/receive-loop-raises-nothing-for-any-bytes-read", "raised %s" % e)
            return
        run.cover("cover[client.tcp]/eof")
    return task
