"""Contracts for the driver-side switch rule (property C09).

Abstract view of a switch property: n switches (any n), val : index -> value,
rule.  Oracle (from the statement):
  AtMostOne  : never more than one On;
  OneOfMany  : never more than one On, and an operation on a vector that has a
               switch On leaves some switch On;
  AnyOfMany  : an assignment changes only the switch it names;
  always     : turning a switch On leaves that switch On;
  every published update (state at serialisation time) satisfies the same.
"""
import z3
from pyvc import smt
from pyvc.smt import (Val, VNone, VStr, VBool, VRef, VInt, is_none, is_str, is_ref, get_b, S)
from pyvc.values import *
from pyvc.spec import LoopContract, Contract, forall, exists, implies, ite
from pyvc.interp import IRaise, OutOfReach, MISSING, PathEnd

VEC_FILE = "indi/device/properties/instance/vectors.py"
ELT_FILE = "indi/device/properties/instance/elements.py"
EVT_FILE = "indi/device/events.py"
IntS = z3.IntSort()
A_IV = z3.ArraySort(IntS, Val)
ON, OFF = VStr(z3.StringVal("On")), VStr(z3.StringVal("Off"))
OOM, AMO, ANY = (VStr(z3.StringVal(x)) for x in ("OneOfMany", "AtMostOne", "AnyOfMany"))
E_RID, D_RID, C_RID = 20, 21, 22


def in_range(j, n):
    return z3.And(j >= 0, j < n)


def atmost1(val, n):
    j, k = z3.Ints("j k")
    return forall([j, k], implies(z3.And(in_range(j, n), in_range(k, n), z3.Select(val, j) == ON, z3.Select(val, k) == ON), j == k),
                  patterns=[z3.MultiPattern(z3.Select(val, j), z3.Select(val, k))])


def base_array(a):
    while z3.is_app(a) and a.decl().kind() == z3.Z3_OP_STORE:
        a = a.arg(0)
    return a


def someon(val, n):
    j = z3.Int("j")
    # alternative triggers: the array itself and the array underneath its stores, so that a
    # (negated) goal is instantiated at every index the code has read, not only those it has written
    pats = [z3.Select(val, j)]
    b = base_array(val)
    if b is not val:
        pats.append(z3.Select(b, j))
    return exists([j], z3.And(in_range(j, n), z3.Select(val, j) == ON), patterns=pats)


def vocab(val, n):
    j = z3.Int("j")
    return forall(j, implies(in_range(j, n), z3.Or(z3.Select(val, j) == ON, z3.Select(val, j) == OFF)), patterns=[z3.Select(val, j)])


class DriverIface:
    """The device behind the vector: only send_message matters here."""
    def getattr(self, I, sym, name, default=MISSING):
        if name == "send_message":
            def send(I_, a, k):
                I_.ghost["sent"] = I_.ghost.get("sent", 0) + 1
                if a[0] is not None and not (isinstance(a[0], Sym) and a[0] is I_.ghost.get("last_serialised")):
                    raise OutOfReach("send_message of something other than the vector's update")
                return None
            return Native("send_message", send)
        if name == "name":
            return I.ghost["device_name"]
        raise OutOfReach("driver attribute %s" % name)


def make_vector(I, n_min=0):
    """A driver-side SwitchVector instance with any number of switches in an
    arbitrary state satisfying the vocabulary invariant."""
    P = I.prover
    iv = I.import_module("indi.device.properties.instance.vectors")
    ie = I.import_module("indi.device.properties.instance.elements")
    dv = I.import_module("indi.device.properties.definition.vectors")
    de = I.import_module("indi.device.properties.definition.elements")
    ig = I.import_module("indi.device.properties.instance.group")
    n = I.fresh("n_switches", IntS)
    P.assume(n >= n_min)
    vec = IObject(iv.ns["SwitchVector"])
    vdef = IObject(dv.ns["SwitchVector"])
    rule = I.fresh_sym("rule")
    P.assume(is_str(rule.term))
    vdef.fields.update(name=I.fresh_sym("vec_name"), label=I.fresh_sym("vec_label"), rule=rule,
                       perm="rw", timeout=0, state="Ok", enabled=True, event_handlers=IDict())
    D = Region(D_RID, de.ns["Switch"], n, {"name": I.fresh("el_name", A_IV), "label": I.fresh("el_label", A_IV),
                                           "enabled": I.fresh("el_def_enabled", A_IV),
                                           "event_handlers": ("const", IDict())}, "switch-definitions")
    E = Region(E_RID, ie.ns["Switch"], n, {"_value": I.fresh("val", A_IV), "_vector": ("const", vec),
                                           "_definition": ("region", D), "_enabled": I.fresh("el_enabled", A_IV)}, "switches")
    keys = I.fresh("el_key", A_IV)
    group = IObject(ig.ns["Group"])
    dev = Sym(I.fresh("driver"), DriverIface())
    I.ghost["device_name"] = I.fresh_sym("device_name")
    group.fields.update(_device=dev, _enabled=True, _definition=None, _vectors=IDict())
    vec.fields.update(_state="Ok", _enabled=True, _group=group, _definition=vdef,
                      _elements=RSeq(E, keys, "dict", "elements"),
                      _elements_by_name=RSeq(E, D.fields["name"], "dict", "elements_by_name"))
    j, k = z3.Ints("j k")
    names = D.fields["name"]
    # dict invariants: keys pairwise distinct; names pairwise distinct strings (driver-author precondition)
    P.assume(forall([j, k], implies(z3.And(in_range(j, n), in_range(k, n), j != k), z3.Select(keys, j) != z3.Select(keys, k)),
                    patterns=[z3.MultiPattern(z3.Select(keys, j), z3.Select(keys, k))]))
    P.assume(forall([j, k], implies(z3.And(in_range(j, n), in_range(k, n), j != k), z3.Select(names, j) != z3.Select(names, k)),
                    patterns=[z3.MultiPattern(z3.Select(names, j), z3.Select(names, k))]))
    P.assume(forall(j, implies(in_range(j, n), is_str(z3.Select(keys, j))), patterns=[z3.Select(keys, j)]))
    P.assume(forall(j, implies(in_range(j, n), is_str(z3.Select(names, j))), patterns=[z3.Select(names, j)]))
    val0 = E.fields["_value"]
    P.assume(vocab(val0, n))
    return vec, E, D, n, val0, rule.term


# ---- hooks: publication and events -------------------------------------------------------------
def install_hooks(I, E, n, rule, label):
    P = I.prover

    def to_set_message(I_, f, args, kwargs):
        # serialisation point: "no client ever observes a rule-violating state"
        snap = E.fields["_value"]
        k = I_.ghost.get("n_published", 0)
        I_.ghost["n_published"] = k + 1
        P.oblige("C09|%s/published-update-%d/at-most-one-On" % (label, k),
                 implies(z3.And(z3.Or(rule == OOM, rule == AMO), atmost1(I_.ghost["val0"], n)), atmost1(snap, n)))
        if "val0" in I_.ghost:
            P.oblige("C09|%s/published-update-%d/one-of-many-keeps-one-On" % (label, k),
                     implies(z3.And(rule == OOM, someon(I_.ghost["val0"], n)), someon(snap, n)))
        m = I_.fresh_sym("set_message")
        I_.ghost["last_serialised"] = m
        return m

    def raise_event(I_, f, args, kwargs):
        # handlers are arbitrary but (stated assumption) do not touch this vector;
        # a plain Write handler may veto the default
        ev = args[1]
        if isinstance(ev, IObject) and ev.cls.name == "Write":
            b = I_.fresh("veto", z3.BoolSort())
            ev.fields["prevent_default"] = Sym(VBool(b))
        return None
    I.call_hooks[(VEC_FILE, "Vector.to_set_message")] = to_set_message
    I.call_hooks[(EVT_FILE, "EventSource.raise_event")] = raise_event


# ---- loop invariant of SwitchVector.apply_rule --------------------------------------------------
def _select_loop(I, ordinal, it):
    g = I.ghost
    E = g.get("E")
    if E is not None and isinstance(it, RSeq) and it.region is E:
        return _RULE_LOOP
    return None


def _rule_state(ctx):
    g = ctx.ghost
    j = z3.Int("j")
    s = g["apply_sender_idx"]
    v0 = g["apply_val_entry"]
    return z3.Lambda([j], ite(z3.And(j >= 0, j < ctx.i, j != s, z3.Select(v0, j) == ON), OFF, z3.Select(v0, j)))


def _rule_inv(ctx):
    E = ctx.ghost["E"]
    j = z3.Int("j")
    return [("others-turned-Off-up-to-i", forall(j, z3.Select(E.fields["_value"], j) == z3.Select(_rule_state(ctx), j)))]


def _rule_havoc(ctx):
    ctx.ghost["E"].fields["_value"] = _rule_state(ctx)


class _RuleLoop(LoopContract):
    def enter(self, ctx):
        # ghost: value map at loop entry and the index of `sender`
        g = ctx.ghost
        g["apply_val_entry"] = g["E"].fields["_value"]
        sender = ctx.role("the element being written (2nd parameter)", lambda n: n.args.args[1].arg, "sender")
        if not (isinstance(sender, RObj) and sender.region is g["E"]):
            raise OutOfReach("apply_rule: `sender` is not an element of this vector")
        g["apply_sender_idx"] = sender.idx


_RULE_LOOP = _RuleLoop(_rule_inv, _rule_havoc, props="C09", label="elements",
                       allowed=lambda w: w[0] == "region" and w[2] == "_value")
APPLY_RULE = Contract(VEC_FILE, "SwitchVector.apply_rule", loop_selector=_select_loop)


# ---- witness ---------------------------------------------------------------------------------------
def witness_fn(I, n, val0, rule, extra):
    def w(m):
        ev = lambda t: m.eval(t, model_completion=True)
        nn = ev(n).as_long()
        out = {"n": nn, "replay_kind": "switch.op"}
        if nn > 8:
            out["too_large"] = True
            return out

        def sv(t):
            t = ev(t)
            if z3.is_true(ev(is_str(t))):
                return ev(smt.get_s(t)).as_string()
            return None if str(t) == "VNone" else str(t)
        out["rule"] = sv(rule)
        out["vals"] = [sv(z3.Select(val0, k)) for k in range(nn)]
        for k, v in extra.items():
            if isinstance(v, z3.ExprRef):
                if v.sort() == IntS:
                    out[k] = ev(v).as_long()
                elif v.sort() == z3.BoolSort():
                    out[k] = z3.is_true(ev(v))
                else:
                    out[k] = sv(v)
            else:
                out[k] = v
        return out
    return w


# ---- proof tasks ---------------------------------------------------------------------------------
def post_single(run, label, rule, n, val0, val1, s, v):
    """Property-level postconditions of one assignment of v to switch s.
    Clauses that C09 does not state (what a write of Off must do; that other
    switches are only ever turned Off) are C06 clauses for client writes and
    auxiliary (AUX: reported nowhere) for driver-side assignments."""
    j = z3.Int("j")
    strict = "C06" if label.startswith("set_value") else "AUX"
    run.oblige("C09|%s/at-most-one-On" % label, implies(z3.And(z3.Or(rule == OOM, rule == AMO), atmost1(val0, n)), atmost1(val1, n)))
    run.oblige("C09|%s/one-of-many-keeps-one-On" % label, implies(z3.And(rule == OOM, someon(val0, n)), someon(val1, n)))
    run.oblige("C09|%s/any-of-many-changes-only-the-named-switch" % label,
               implies(rule == ANY, forall(j, implies(z3.And(in_range(j, n), j != s), z3.Select(val1, j) == z3.Select(val0, j)))))
    run.oblige("C09|%s/turning-On-leaves-it-On" % label, implies(v == ON, z3.Select(val1, s) == ON))
    run.oblige("%s|%s/turning-Off-turns-it-Off-unless-last-of-OneOfMany" % (strict, label),
               implies(v == OFF, z3.Select(val1, s) == ite(z3.And(rule == OOM, z3.Not(z3.Exists([j], z3.And(in_range(j, n), j != s, z3.Select(val0, j) == ON)))), ON, OFF)))
    run.oblige("%s|%s/others-only-ever-turned-Off" % (strict, label),
               forall(j, implies(z3.And(in_range(j, n), j != s, z3.Select(val1, j) != z3.Select(val0, j)),
                                 z3.And(z3.Select(val1, j) == OFF, v == ON, rule != ANY))))
    run.oblige("C09|%s/values-stay-in-vocabulary" % label, vocab(val1, n))


def task_single(op):
    """One switch is written: op in {assign, bool_value, set_value, set_value_from_message}."""
    def task(I, run):
        vec, E, D, n, val0, rule = make_vector(I, n_min=1)
        s = I.fresh("s", IntS)
        run.assume(in_range(s, n))
        el = RObj(E, s)
        I.ghost.update(E=E, val0=val0)
        I.contracts[APPLY_RULE.key] = APPLY_RULE
        label = op
        install_hooks(I, E, n, rule, label)
        run.explorer.minimize = [n]
        if op == "bool_value":
            b = I.fresh("b", z3.BoolSort())
            v = ite(b, ON, OFF)
            arg = Sym(VBool(b))
        else:
            vs = I.fresh_sym("v")
            run.assume(z3.Or(vs.term == ON, vs.term == OFF))
            v = vs.term
            arg = vs
        run.explorer.witness = witness_fn(I, n, val0, rule, {"op": op, "s": s, "v": v})
        run.cover("cover[%s]/pre" % op)
        try:
            if op == "assign":
                I.setattr(el, "value", arg)
            elif op == "bool_value":
                I.setattr(el, "bool_value", arg)
            elif op == "set_value":
                I.call(I.getattr(el, "set_value"), [arg], {})
            elif op == "set_value_from_message":
                op_mod = I.import_module("indi.message.one_parts")
                part = IObject(op_mod.ns["OneSwitch"])
                part.fields.update(name=Sym(z3.Select(D.fields["name"], s)), value=arg)
                I.call(I.getattr(el, "set_value_from_message"), [part], {})
            else:
                raise OutOfReach("unknown op")
        except IRaise as e:
            run.fail("C09|%s/raises-nothing-for-On-or-Off" % label, "%s raised %s" % (op, e))
            return
        run.cover("cover[%s]/post" % op)
        val1 = E.fields["_value"]
        veto = z3.Const("veto!0", z3.BoolSort()) if op.startswith("set_value") else z3.BoolVal(False)
        if op.startswith("set_value"):
            # a vetoed write changes and publishes nothing
            jj = z3.Int("j")
            run.oblige("C09|%s/vetoed-write-changes-nothing" % label,
                       implies(veto, forall(jj, implies(in_range(jj, n), z3.Select(val1, jj) == z3.Select(val0, jj)))))
            run.assume(z3.Not(veto))
        post_single(run, label, rule, n, val0, val1, s, v)
        jj = z3.Int("j")
        run.canary("C09|canary[%s]/nothing-ever-changes" % op, forall(jj, implies(in_range(jj, n), z3.Select(val1, jj) == z3.Select(val0, jj))))
        if not I.ghost.get("n_published"):
            run.fail("C09|%s/publishes-the-update" % label, "no update was serialised on a successful write")
    return task


def task_apply_rule():
    """SwitchVector.apply_rule against its own contract (callee side)."""
    def task(I, run):
        vec, E, D, n, val0, rule = make_vector(I, n_min=1)
        s = I.fresh("s", IntS)
        run.assume(in_range(s, n))
        I.ghost.update(E=E, val0=val0)
        I.contracts[APPLY_RULE.key] = APPLY_RULE
        vs = I.fresh_sym("v")
        run.assume(z3.Or(vs.term == ON, vs.term == OFF))
        run.explorer.minimize = [n]
        run.explorer.witness = witness_fn(I, n, val0, rule, {"op": "apply_rule", "s": s, "v": vs.term})
        f = I.world.functions[(VEC_FILE, "SwitchVector.apply_rule")]
        I.root_func = f
        try:
            r = I.call(IBound(f, vec), [RObj(E, s), vs], {})
        except IRaise as e:
            run.fail("C09|apply_rule/raises-nothing", "apply_rule raised %s" % e)
            return
        val1 = E.fields["_value"]
        rt = I.to_term(r)
        j = z3.Int("j")
        excl = z3.Or(rule == OOM, rule == AMO)
        run.oblige("C09|apply_rule/On:result-is-On", implies(vs.term == ON, rt == ON))
        run.oblige("C09|apply_rule/On:exclusive-rules-turn-all-others-Off",
                   implies(z3.And(vs.term == ON, excl),
                           forall(j, implies(in_range(j, n), z3.Select(val1, j) == ite(z3.And(j != s, z3.Select(val0, j) == ON), OFF, z3.Select(val0, j))))))
        run.oblige("C09|apply_rule/otherwise-no-element-is-written",
                   implies(z3.Not(z3.And(vs.term == ON, excl)), forall(j, implies(in_range(j, n), z3.Select(val1, j) == z3.Select(val0, j)))))
        last = z3.And(rule == OOM, z3.Not(z3.Exists([j], z3.And(in_range(j, n), j != s, z3.Select(val0, j) == ON))))
        run.oblige("C09|apply_rule/Off:OneOfMany-refuses-to-turn-the-last-one-Off", implies(z3.And(vs.term == OFF, last), rt == ON))
        run.oblige("C06|apply_rule/Off:otherwise-the-switch-goes-Off", implies(z3.And(vs.term == OFF, z3.Not(last)), rt == OFF))
    return task


# ---- multi-element operations -------------------------------------------------------------------
def _multi_inv(ctx):
    """Loop invariant shared by from_new_message / selected_values: after any
    number of element writes the rule still holds (each write is a valid
    transition), and untouched switches are untouched."""
    g = ctx.ghost
    E, n, val0, rule = g["E"], g["n"], g["val0"], g["rule"]
    val = E.fields["_value"]
    out = [("vocabulary", vocab(val, n)),
           ("at-most-one-On", implies(z3.And(z3.Or(rule == OOM, rule == AMO), atmost1(val0, n)), atmost1(val, n))),
           ("one-of-many-keeps-one-On", implies(z3.And(rule == OOM, someon(val0, n)), someon(val, n)))]
    extra = g.get("multi_extra")
    if extra is not None:
        out += extra(ctx, val)
    return out


def _multi_havoc(ctx):
    ctx.ghost["E"].fields["_value"] = ctx.interp.fresh("val_mid", A_IV)


_MULTI_LOOP = LoopContract(_multi_inv, _multi_havoc, props="C09", label="writes",
                           allowed=lambda w: (w[0] == "region" and w[2] == "_value") or w[0] == "field" and w[2] == "prevent_default")


def _select_loop2(I, ordinal, it):
    g = I.ghost
    fn = I.frames[-1][0].qualname if I.frames else ""
    if isinstance(it, RSeq) and it.region is g.get("E") and fn == "SwitchVector.apply_rule":
        return _RULE_LOOP
    if isinstance(it, RSeq) and it.region is g.get("C") and fn == "Vector.from_new_message":
        return _MULTI_LOOP
    if isinstance(it, RSeq) and it.region is g.get("E") and fn == "SwitchVector.selected_values":
        return _MULTI_LOOP
    if it is g.get("names_arg") and fn == "SwitchVector.selected_values":
        return _NAMES_LOOP
    return None


_NAMES_LOOP = LoopContract(lambda ctx: [], None, props="C09", label="names-check")
APPLY_RULE2 = Contract(VEC_FILE, "SwitchVector.apply_rule", loop_selector=_select_loop2)
FROM_NEW = Contract(VEC_FILE, "Vector.from_new_message", loop_selector=_select_loop2)
SELECTED = Contract(VEC_FILE, "SwitchVector.selected_values", loop_selector=_select_loop2)


def task_from_new_message():
    """A client write naming any number of switches (a newSwitchVector with any children)."""
    def task(I, run):
        vec, E, D, n, val0, rule = make_vector(I, n_min=0)
        op_mod = I.import_module("indi.message.one_parts")
        news = I.import_module("indi.message.news")
        nch = I.fresh("n_children", IntS)
        run.assume(nch >= 0)
        cname, cval = I.fresh("child_name", A_IV), I.fresh("child_value", A_IV)
        C = Region(C_RID, op_mod.ns["OneSwitch"], nch, {"name": cname, "value": cval}, "children")
        k = z3.Int("k")
        j = z3.Int("j")
        # C09 quantifies over writes of On/Off (other texts are C12's concern)
        run.assume(forall(k, implies(in_range(k, nch), z3.And(z3.Or(z3.Select(cval, k) == ON, z3.Select(cval, k) == OFF), is_str(z3.Select(cname, k))))))
        msg = IObject(news.ns["NewSwitchVector"])
        msg.fields.update(device=I.fresh_sym("mdev"), name=I.fresh_sym("mname"), timestamp=None, children=RSeq(C, None, "list", "children"))
        ename = D.fields["name"]

        def extra(ctx, val):
            named = lambda jj: z3.Exists([k], z3.And(k >= 0, k < ctx.i, z3.Select(cname, k) == z3.Select(ename, jj)))
            return [("any-of-many-touches-only-named-switches",
                     implies(rule == ANY, forall(j, implies(z3.And(in_range(j, n), z3.Select(val, j) != z3.Select(val0, j)), named(j)))))]
        I.ghost.update(E=E, C=C, n=n, val0=val0, rule=rule, multi_extra=extra)
        for c in (APPLY_RULE2, FROM_NEW):
            I.contracts[c.key] = c
        install_hooks(I, E, n, rule, "from_new_message")
        run.explorer.minimize = [n, nch]
        run.explorer.witness = witness_fn(I, n, val0, rule, {"op": "from_new_message", "n_children": nch})
        f = I.world.functions[(VEC_FILE, "Vector.from_new_message")]
        try:
            I.call(IBound(f, vec), [msg], {})
        except IRaise as e:
            if e.value.cls.name == "KeyError":
                raise PathEnd()      # unknown element name: C12's concern; state already covered by the invariant
            run.fail("C09|from_new_message/raises-nothing-for-known-names", "from_new_message raised %s" % e)
            return
        val1 = E.fields["_value"]
        run.oblige("C09|from_new_message/at-most-one-On", implies(z3.And(z3.Or(rule == OOM, rule == AMO), atmost1(val0, n)), atmost1(val1, n)))
        run.oblige("C09|from_new_message/one-of-many-keeps-one-On", implies(z3.And(rule == OOM, someon(val0, n)), someon(val1, n)))
        named = lambda jj: z3.Exists([k], z3.And(in_range(k, nch), z3.Select(cname, k) == z3.Select(ename, jj)))
        run.oblige("C09|from_new_message/any-of-many-changes-only-named-switches",
                   implies(rule == ANY, forall(j, implies(z3.And(in_range(j, n), z3.Select(val1, j) != z3.Select(val0, j)), named(j)))))
        run.oblige("C09|from_new_message/values-stay-in-vocabulary", vocab(val1, n))
    return task


def task_selected_value():
    """vector.selected_value = name  (driver-side selection of one switch)."""
    def task(I, run):
        vec, E, D, n, val0, rule = make_vector(I, n_min=1)
        t = I.fresh("t", IntS)
        run.assume(in_range(t, n))
        ename = D.fields["name"]
        name_t = Sym(z3.Select(ename, t))
        j = z3.Int("j")

        def extra(ctx, val):
            # (only clauses C09 states: an invariant item that is assumed must also be reported)
            return [("selected-switch-is-On-once-visited", implies(ctx.i > t, z3.Select(val, t) == ON))]
        I.ghost.update(E=E, n=n, val0=val0, rule=rule, multi_extra=extra)
        for c in (APPLY_RULE2, SELECTED):
            I.contracts[c.key] = c
        install_hooks(I, E, n, rule, "selected_value")
        run.explorer.minimize = [n]
        run.explorer.witness = witness_fn(I, n, val0, rule, {"op": "selected_value", "s": t})
        try:
            I.setattr(vec, "selected_value", name_t)
        except IRaise as e:
            run.fail("C09|selected_value/raises-nothing-for-a-known-name", "selected_value = <existing name> raised %s" % e)
            return
        val1 = E.fields["_value"]
        run.oblige("C09|selected_value/turning-On-leaves-it-On", z3.Select(val1, t) == ON)
        run.oblige("C09|selected_value/at-most-one-On", implies(z3.And(z3.Or(rule == OOM, rule == AMO), atmost1(val0, n)), atmost1(val1, n)))
        run.oblige("C09|selected_value/values-stay-in-vocabulary", vocab(val1, n))
        run.canary("C09|canary[selected_value]/nothing-ever-changes", forall(j, implies(in_range(j, n), z3.Select(val1, j) == z3.Select(val0, j))))
    return task


def task_selected_values():
    """vector.selected_values = names (any number of existing names)."""
    def task(I, run):
        vec, E, D, n, val0, rule = make_vector(I, n_min=0)
        ename = D.fields["name"]
        nn = I.fresh("n_names", IntS)
        run.assume(nn >= 0)
        names = SList(nn, I.fresh("names", A_IV), None, "names")
        j, k = z3.Ints("j k")
        in_names = lambda jj: z3.Exists([k], z3.And(in_range(k, nn), z3.Select(names.elt, k) == z3.Select(ename, jj)))

        def extra(ctx, val):
            return []
        I.ghost.update(E=E, n=n, val0=val0, rule=rule, multi_extra=extra, names_arg=names)
        for c in (APPLY_RULE2, SELECTED):
            I.contracts[c.key] = c
        install_hooks(I, E, n, rule, "selected_values")
        run.explorer.minimize = [n, nn]
        run.explorer.witness = witness_fn(I, n, val0, rule, {"op": "selected_values", "n_names": nn})
        try:
            I.setattr(vec, "selected_values", names)
        except IRaise as e:
            # documented behaviour: unknown names raise (an Exception instance, nothing more specific)
            if e.value.cls.name == "Exception" and not I.ghost.get("n_published"):
                raise PathEnd()
            run.fail("C09|selected_values/raises-nothing-for-known-names", "selected_values = <existing names> raised %s" % e)
            return
        val1 = E.fields["_value"]
        run.oblige("C09|selected_values/at-most-one-On", implies(z3.And(z3.Or(rule == OOM, rule == AMO), atmost1(val0, n)), atmost1(val1, n)))
        run.oblige("C09|selected_values/one-of-many-keeps-one-On", implies(z3.And(rule == OOM, someon(val0, n)), someon(val1, n)))
        run.oblige("C09|selected_values/values-stay-in-vocabulary", vocab(val1, n))
    return task
