"""Contracts for a client's write (property C06): client side Vector.submit / Element.value /
to_new_message (indi/client/*.py), driver side Vector.from_new_message and the typed
set_value_from_message of every element kind (indi/device/properties/instance/*.py).
The path in between (serializer, framing, router) is C03 / C02 / C04.
"""
import z3
from pyvc import smt
from pyvc.smt import (Val, VNone, VStr, VBool, VRef, VInt, VBytes, is_none, is_str, is_ref, is_int, is_real, get_s, get_b, get_x, S)
from pyvc.values import *
from pyvc.spec import LoopContract, Contract, forall, exists, implies, ite
from pyvc.interp import IRaise, OutOfReach, MISSING, PathEnd
from contracts import driver as D, client as C

IntS = z3.IntSort()
A_IV = z3.ArraySort(IntS, Val)
NEWCLS = {"Text": "NewTextVector", "Number": "NewNumberVector", "Switch": "NewSwitchVector", "BLOB": "NewBLOBVector"}


def c06_witness(info):
    def w(m):
        out = {"replay_kind": "write.e2e"}
        out.update(info)
        return out
    return w


def task_submit(kind):
    """client side: assign new values to any subset of a property's (two) elements and submit():
    exactly one new<kind>Vector goes out, addressed to the property's device and name, whose children are
    exactly the assigned elements with the assigned values; nothing stays pending."""
    def task(I, run):
        c = C.make_client(I)
        sent = []
        I.call_hooks[("indi/device/snoop.py", "SnoopingClient.send_message")] = lambda I_, f, a, k: sent.append(a[1])
        d1, v1 = C.sstr(I, "d1"), C.sstr(I, "v1")
        pm = I.getattr(c, "process_message")
        h = C.make_def(I, kind, "h0", d1, v1, 2)
        ch = h.fields["children"]
        run.assume(ch[0].fields["name"].term != ch[1].fields["name"].term)
        try:
            I.call(pm, [h], {})
        except IRaise as e:
            run.fail("C06|submit[%s]/definition-processed" % kind, "raised %s" % e)
            return
        del sent[:]
        dev = list(c.fields["devices"].d.values())[0]
        vec = list(dev.fields["vectors"].d.values())[0]
        els = list(vec.fields["elements"].d.values())
        assigned = []
        for i, el in enumerate(els):
            if run.choice(2, "assign element %d" % i):
                if kind == "BLOB":
                    vals = I.import_module("indi.device.values")
                    nv = IObject(vals.ns["BLOB"])
                    nv.fields.update(binary=I.fresh_sym("nb%d" % i), format=C.sstr(I, "nf%d" % i))
                    run.assume(smt.is_bytes(nv.fields["binary"].term))
                elif kind == "Switch":
                    nv = I.fresh_sym("nv%d" % i)
                    run.assume(z3.Or(nv.term == VStr(z3.StringVal("On")), nv.term == VStr(z3.StringVal("Off"))))
                elif kind == "Number":
                    nv = I.fresh_sym("nv%d" % i)
                    # a number text valid for the property's format (what an application passes as str)
                    from contracts.codec import number_language
                    run.assume(z3.And(is_str(nv.term), z3.InRe(get_s(nv.term), number_language())))
                    from pyvc.regex import language
                    from contracts.publish import FORMATS
                    run.assume(z3.Or(*[z3.InRe(get_s(nv.term), language(p)) for p in
                                       (r"^\-?\d+$", r"^\-?\d+\.\d+$", r"^\-?\d+:\d{2}$", r"^\-?\d+:\d{2}:\d{2}$", r"^\-?\d+:\d{2}:\d{2}\.\d+$", r"^\-?\d+:\d{2}\.\d+$")]))
                else:
                    nv = C.sstr(I, "nv%d" % i)
                I.setattr(el, "value", nv)
                assigned.append((el, nv))
        label = "submit[%s,%d assigned]" % (kind, len(assigned))
        run.explorer.witness = c06_witness({"kind": kind, "what": "submit", "assigned": len(assigned)})
        try:
            I.call(I.getattr(vec, "submit"), [], {})
        except IRaise as e:
            run.fail("C06|%s/raises-nothing" % label, "submit raised %s" % e)
            return
        run.oblige("C06|%s/exactly-one-message-goes-out" % label, z3.BoolVal(len(sent) == 1 and isinstance(sent[0], IObject)))
        if not (len(sent) == 1 and isinstance(sent[0], IObject)):
            return
        m = sent[0]
        run.oblige("C06|%s/of-the-property's-kind-addressed-to-its-device-and-name" % label,
                   z3.And(z3.BoolVal(m.cls.name == NEWCLS.get(kind, "?")), I.to_term(m.fields["device"]) == d1.term, I.to_term(m.fields["name"]) == v1.term))
        kids = m.fields.get("children")
        kids = list(kids.items) if isinstance(kids, IList) else list(kids or ())
        run.oblige("C06|%s/children-are-exactly-the-assigned-elements-in-order" % label,
                   z3.BoolVal(len(kids) == len(assigned)) if len(kids) != len(assigned) else
                   z3.And(*[I.to_term(k.fields["name"]) == I.to_term(el.fields["name"]) for k, (el, nv) in zip(kids, assigned)] + [z3.BoolVal(True)]))
        if len(kids) == len(assigned):
            for k, (el, nv) in zip(kids, assigned):
                if kind == "BLOB":
                    from pyvc.stdlib_models import b64enc
                    run.oblige("C06,C08|%s/blob-child-carries-base64-payload-length-and-format" % label,
                               z3.And(I.to_term(k.fields["value"]) == VStr(b64enc(smt.get_y(nv.fields["binary"].term))),
                                      I.to_term(k.fields.get("format")) == nv.fields["format"].term,
                                      I.to_term(k.fields.get("size")) == VInt(z3.Length(smt.get_y(nv.fields["binary"].term)))))
                else:
                    run.oblige("C06|%s/child-carries-the-assigned-value" % label, I.to_term(k.fields["value"]) == nv.term)
        run.oblige("C06|%s/nothing-stays-pending" % label, z3.And(*[is_none(I.to_term(el.fields["_new_value"])) for el in els] + [z3.BoolVal(True)]))
    return task


def _named_by(cname, upto, ename_j):
    k = z3.Int("k")
    return z3.Exists([k], z3.And(k >= 0, k < upto, z3.Select(cname, k) == ename_j), patterns=[z3.Select(cname, k)])


def task_frame(kind, fmt=None):
    """driver side, any number of children and elements: a write changes no element it does not name
    (switches: subject to the rule, C09), and nothing outside the addressed property."""
    def task(I, run):
        news = I.import_module("indi.message.news")
        v = D.make_vector(I, kind.lower(), fmt)
        E, n, val0 = v["E"], v["n"], v["val0"]
        Cr = D.wire_children(I, "One" + kind)
        cname = Cr.fields["name"]
        ename = v["D"].fields["name"]
        j = z3.Int("j")

        def winv(ctx):
            val = E.fields["_value"]
            return [("C06:only-named-elements-have-changed",
                     forall(j, implies(z3.And(D.in_range(j, n), z3.Select(val, j) != z3.Select(val0, j)), _named_by(cname, ctx.i, z3.Select(ename, j)))))]
        I.ghost.update(E=E, C=Cr, n=n, val0=val0, rule=v["rule"], writes_inv=winv)
        for c in (D.APPLY_RULE, D.FROM_NEW):
            I.contracts[c.key] = c
        D.install_publication_hooks(I)
        msg = IObject(news.ns[NEWCLS[kind]])
        msg.fields.update(device=I.fresh_sym("mdev"), name=v["name"], timestamp=None, children=RSeq(Cr, None, "list", "children"))
        f = I.world.functions[(D.VEC_FILE, "Vector.from_new_message")]
        I.root_func = f
        label = "from_new_message[%s%s]" % (kind, "(%s)" % fmt if fmt else "")
        run.explorer.witness = c06_witness({"kind": kind, "what": "frame", "format": fmt})
        try:
            I.call(IBound(f, v["vec"]), [msg], {})
        except IRaise as e:
            run.fail("C06|%s/raises-nothing" % label, "raised %s" % e)
            return
        val1 = E.fields["_value"]
        run.oblige("C06|%s/no-element-changes-unless-the-message-names-it" % label,
                   forall(j, implies(z3.And(D.in_range(j, n), z3.Select(val1, j) != z3.Select(val0, j)), _named_by(cname, Cr.length, z3.Select(ename, j)))))
    return task


def task_apply(kind, fmt=None):
    """driver side, one named element: it takes exactly the value sent -- text verbatim, number
    numerically equal under the property's format, BLOB byte-for-byte with its format -- unless a
    plain Write handler vetoes."""
    def task(I, run):
        op = I.import_module("indi.message.one_parts")
        v = D.make_vector(I, kind.lower(), fmt, n_min=1)
        E, n, val0 = v["E"], v["n"], v["val0"]
        s = I.fresh("s", IntS)
        run.assume(D.in_range(s, n))
        el = RObj(E, s)
        I.ghost.update(E=E, n=n, val0=val0, rule=v["rule"])
        I.contracts[D.APPLY_RULE.key] = D.APPLY_RULE
        D.install_publication_hooks(I)
        part = IObject(op.ns["One" + kind])
        txt = I.fresh_sym("wire_value")
        run.assume(is_str(txt.term))
        if kind == "BLOB":
            # an empty payload arrives as "no text" (None) -- it denotes the empty byte string
            raw = I.fresh_sym("wire_value_or_none")
            run.assume(z3.Or(z3.And(is_none(raw.term), get_s(txt.term) == z3.StringVal("")), raw.term == txt.term))
            from pyvc.stdlib_models import b64dec as _bd, b64valid as _bv
            run.assume(z3.And(_bd(z3.StringVal("")) == z3.StringVal(""), _bv(z3.StringVal(""))))
        part.fields.update(name=Sym(z3.Select(v["D"].fields["name"], s)), value=txt)
        label = "set_value_from_message[%s%s]" % (kind, "(%s)" % fmt if fmt else "")
        if kind == "BLOB":
            from pyvc.stdlib_models import b64dec, b64valid
            from pyvc.numparse import int_ok, int_val
            size, bfmt = C.sstr(I, "wire_size"), C.sstr(I, "wire_format")
            part.fields.update(size=size, format=bfmt, value=raw)
            run.assume(b64valid(get_s(txt.term)))
            run.assume(z3.And(int_ok(get_s(size.term)), int_val(get_s(size.term)) == z3.Length(b64dec(get_s(txt.term)))))
        run.explorer.witness = c06_witness({"kind": kind, "what": "apply", "format": fmt})
        try:
            I.call(I.getattr(el, "set_value_from_message"), [part], {})
        except IRaise as e:
            if kind == "Number" and e.value.cls.name in ("ValueError", "AssertionError"):
                raise PathEnd()          # text not valid for this format: C12's concern (ignored), nothing applied
            run.fail("C06|%s/raises-nothing-for-a-valid-value" % label, "raised %s" % e)
            return
        veto = z3.Const("veto!0", z3.BoolSort())
        val1 = z3.Select(E.fields["_value"], s)
        j = z3.Int("j")
        if kind == "Text":
            run.oblige("C06|%s/takes-the-text-verbatim" % label, implies(z3.Not(veto), val1 == txt.term))
        elif kind == "Number":
            from pyvc.numparse import float_val, int_val
            t = get_s(txt.term)
            run.oblige("C06|%s/takes-a-number" % label, implies(z3.Not(veto), z3.Or(is_real(val1), is_int(val1))))
            # a text in plain (integer / decimal) notation is taken at its value, whatever the property's display format;
            # the value formula of sexagesimal texts and its sign convention are C10's subject
            dg = z3.Plus(z3.Range("0", "9"))
            plain = z3.Concat(z3.Option(z3.Union(z3.Re("-"), z3.Re("+"))),
                              z3.Union(z3.Concat(dg, z3.Option(z3.Concat(z3.Re("."), z3.Star(z3.Range("0", "9"))))), z3.Concat(z3.Re("."), dg)))
            run.oblige("C06|%s/numerically-equal-to-the-text-sent" % label,
                       implies(z3.And(z3.Not(veto), z3.InRe(t, plain)),
                               z3.Or(z3.And(is_real(val1), get_x(val1) == float_val(t)), z3.And(is_int(val1), smt.get_i(val1) == int_val(t)))))
        elif kind == "BLOB":
            from pyvc.stdlib_models import b64dec
            # the stored value is the BLOB object created from the payload
            from pyvc import values as _vals
            made = [o for o in _vals.OBJECTS.values() if isinstance(o, IObject) and o.cls.name == "BLOB" and o.cls.module.name == "indi.device.values"]
            run.oblige("C06,C08|%s/exactly-one-BLOB-value-is-built-from-the-payload" % label, z3.BoolVal(len(made) == 1))
            if len(made) == 1:
                b = made[0]
                run.oblige("C06,C08|%s/takes-the-payload-byte-for-byte-with-its-format" % label,
                           implies(z3.Not(veto), z3.And(val1 == I.to_term(b), I.to_term(b.fields["binary"]) == VBytes(b64dec(get_s(txt.term))),
                                                        I.to_term(b.fields["format"]) == bfmt.term)))
        run.canary("C06|canary[%s]/the-element-never-changes" % label, val1 == z3.Select(val0, s))
        run.oblige("C06|%s/no-other-element-changes" % label,
                   forall(j, implies(z3.And(D.in_range(j, n), j != s), z3.Select(E.fields["_value"], j) == z3.Select(val0, j))))
        run.oblige("C06|%s/a-vetoed-write-changes-nothing" % label, implies(veto, val1 == z3.Select(val0, s)))
    return task


def task_blob_decode():
    """values.BLOB.from_base64 / size / binary_base64: the typed value of an uploaded or published
    BLOB is byte-for-byte the decoded payload with the given format (b64decode(b64encode(x)) == x assumed)."""
    def task(I, run):
        from pyvc.stdlib_models import b64dec, b64enc, b64valid
        vals = I.import_module("indi.device.values")
        B = vals.ns["BLOB"]
        txt, fmt = C.sstr(I, "payload"), C.sstr(I, "format")
        run.assume(b64valid(get_s(txt.term)))
        try:
            b = I.call(I.getattr(B, "from_base64"), [txt, fmt], {})
        except IRaise as e:
            run.fail("C06,C08|BLOB.from_base64/raises-nothing-for-valid-base64", "raised %s" % e)
            return
        run.oblige("C06,C08|BLOB.from_base64/binary-is-the-decoded-payload-and-format-is-kept",
                   z3.And(I.to_term(b.fields["binary"]) == VBytes(b64dec(get_s(txt.term))), I.to_term(b.fields["format"]) == fmt.term))
        sz = I.getattr(b, "size")
        run.oblige("C06,C08|BLOB.size/is-the-number-of-bytes", I.to_term(sz) == VInt(z3.Length(b64dec(get_s(txt.term)))))
        raw = I.fresh_sym("raw")
        run.assume(smt.is_bytes(raw.term))
        b2 = I.call(B, [raw, fmt], {})
        enc = I.getattr(b2, "binary_base64")
        run.oblige("C06,C08|BLOB.binary_base64/is-the-base64-text-of-the-bytes", I.to_term(enc) == VStr(b64enc(smt.get_y(raw.term))))
    return task


# =====================================================================================================
# C08 -- BLOB payloads arrive bit-exact in both directions
# =====================================================================================================
def wire(I, part):
    """what the codec does to a part on its way (C03 lemma): every attribute is its str() rendering,
    absent stays absent; empty text arrives as absent text"""
    from pyvc.builtins_model import py_str_of
    out = IObject(part.cls)
    for k, v in part.fields.items():
        if v is None:
            out.fields[k] = None
        elif k == "value":
            s = py_str_of(I, v)
            t = I.to_term(s)
            out.fields[k] = Sym(z3.If(t == VStr(z3.StringVal("")), VNone, t))
        else:
            out.fields[k] = py_str_of(I, v)
    return out


def b64_axioms(I, run, x):
    from pyvc.stdlib_models import b64dec, b64enc, b64valid
    e = b64enc(x)
    # ASSUMED contract of base64 (sampled natively): decoding an encoding gives the bytes back; encodings are valid
    # base64 text whose emptiness mirrors the payload's
    run.assume(z3.And(b64valid(e), b64dec(e) == x, (e == z3.StringVal("")) == (x == z3.StringVal("")),
                      b64dec(z3.StringVal("")) == z3.StringVal(""), b64valid(z3.StringVal(""))))


def task_c08_down():
    """L08a driver -> client: the real driver-side BLOB.to_set_message, the codec's wire typing, and the real
    client-side BLOB.set_value_from_message in sequence: the client holds the driver's bytes, format and length."""
    def task(I, run):
        v = D.make_vector(I, "blob", n_min=1)
        E, n = v["E"], v["n"]
        s = I.fresh("s", IntS)
        run.assume(D.in_range(s, n))
        el = RObj(E, s)
        D.install_publication_hooks(I)
        vals = I.import_module("indi.device.values")
        b = IObject(vals.ns["BLOB"])
        raw, fmt = I.fresh_sym("bytes"), C.sstr(I, "format")
        run.assume(smt.is_bytes(raw.term))
        b.fields.update(binary=raw, format=fmt)
        x = smt.get_y(raw.term)
        b64_axioms(I, run, x)
        I.ref_resolver = lambda I_, sym: b if S(sym.term).eq(S(I_.to_term(b))) else None
        E.fields["_value"] = z3.Store(E.fields["_value"], s, I.to_term(b))
        try:
            part = I.call(I.getattr(el, "to_set_message"), [], {})
            wpart = wire(I, part)
            ce = I.import_module("indi.client.elements")
            cel = IObject(ce.ns["BLOB"])
            cel.fields.update(name=wpart.fields["name"], label=None, vector=None, _value=None, _new_value=None)
            I.call(I.getattr(cel, "set_value_from_message"), [wpart], {})
        except IRaise as e:
            run.fail("C08|driver->client/raises-nothing-for-any-payload(also-empty)", "raised %s" % e)
            return
        got = cel.fields["_value"]
        ok = isinstance(got, IObject)
        run.oblige("C08|driver->client/the-client-holds-a-BLOB-value", z3.BoolVal(ok))
        if ok:
            run.oblige("C08|driver->client/identical-bytes-format-and-length",
                       z3.And(I.to_term(got.fields["binary"]) == raw.term, I.to_term(got.fields["format"]) == fmt.term,
                              I.to_term(I.getattr(got, "size")) == VInt(z3.Length(x))))
        run.canary("C08|canary[driver->client]/payload-always-empty", z3.Length(x) == 0)
    return task


def task_c08_up():
    """L08b client -> driver: client-side BLOB.to_new_message, wire typing, driver-side BLOB.set_value_from_message."""
    def task(I, run):
        vals = I.import_module("indi.device.values")
        ce = I.import_module("indi.client.elements")
        b = IObject(vals.ns["BLOB"])
        raw, fmt = I.fresh_sym("bytes"), C.sstr(I, "format")
        run.assume(smt.is_bytes(raw.term))
        b.fields.update(binary=raw, format=fmt)
        x = smt.get_y(raw.term)
        b64_axioms(I, run, x)
        cel = IObject(ce.ns["BLOB"])
        cel.fields.update(name=C.sstr(I, "el_name"), label=None, vector=None, _value=None, _new_value=b)
        v = D.make_vector(I, "blob", n_min=1)
        E, n = v["E"], v["n"]
        s = I.fresh("s", IntS)
        run.assume(D.in_range(s, n))
        el = RObj(E, s)
        I.ghost.update(E=E)
        D.install_publication_hooks(I)
        try:
            part = I.call(I.getattr(cel, "to_new_message"), [], {})
            wpart = wire(I, part)
            I.call(I.getattr(el, "set_value_from_message"), [wpart], {})
        except IRaise as e:
            run.fail("C08|client->driver/raises-nothing-for-any-payload(also-empty)", "raised %s" % e)
            return
        from pyvc import values as _vals
        made = [o for o in _vals.OBJECTS.values() if isinstance(o, IObject) and o.cls.name == "BLOB" and o.cls.module.name == "indi.device.values" and o is not b]
        veto = z3.Const("veto!0", z3.BoolSort())
        run.oblige("C08|client->driver/one-BLOB-value-is-built", z3.BoolVal(len(made) == 1))
        if len(made) == 1:
            g = made[0]
            run.oblige("C08|client->driver/identical-bytes-format-and-length-stored-unless-vetoed",
                       implies(z3.Not(veto), z3.And(z3.Select(E.fields["_value"], s) == I.to_term(g), I.to_term(g.fields["binary"]) == raw.term,
                                                    I.to_term(g.fields["format"]) == fmt.term)))
    return task


def task_c08_threshold_sites(which):
    """L08d call sites: the framing contract (C02) carries a message of any length only when the junk-recovery
    threshold is disabled; every connection that can carry a BLOB payload must therefore disable it."""
    def task(I, run):
        from contracts import transport as T
        if which != "client":
            if which == "tcp":
                h, _, _, _, _ = T.make_tcp_server_handler(I)
            else:
                h, _, _, _, _ = T.make_tty_handler(I)
            th = h.fields["buffer"].fields["max_buffer_size_before_frontal_cleanup"]
            run.oblige("C08|call-site/server-%s-connection-can-carry-an-upload-of-any-size" % which, z3.BoolVal(th is None),
                       witness=lambda m, which=which: {"replay_kind": "blob.upload", "site": which, "size": 3000})
            return
        # client side: the dedicated BLOB connection
        mod = I.import_module("indi.transport.client.tcp")
        for for_blobs in (True, False):
            h = I.call(mod.ns["ConnectionHandler"], [None, None, None], {"for_blobs": for_blobs})
            th = h.fields["buffer"].fields["max_buffer_size_before_frontal_cleanup"]
            run.oblige("C08|call-site/client-%s-connection-threshold" % ("blob" if for_blobs else "control"), z3.BoolVal((th is None) == for_blobs))
        cl = I.import_module("indi.client.client").ns["Client"]
        # the library's client announces Never on the control connection and Only on the BLOB connection
        sent = {"control": [], "blob": []}

        class Conn:
            def __init__(self, tag):
                self.tag = tag

            def pyvc_getattr(self, I_, name):
                if name == "send_message":
                    return Native(name, lambda I2, a, k: sent[self.tag].append(a[0]))
                return MISSING
        c = I.call(cl, [None, None], {})
        c.fields["control_connection_handler"] = Conn("control")
        c.fields["blob_connection_handler"] = Conn("blob")
        I.call(I.getattr(c, "blob_handshake"), ["DEV"], {})
        okc = len(sent["control"]) == 1 and sent["control"][0].fields.get("value") == "Never" and sent["control"][0].fields.get("device") == "DEV"
        okb = len(sent["blob"]) == 1 and sent["blob"][0].fields.get("value") == "Only" and sent["blob"][0].fields.get("device") == "DEV"
        run.oblige("C08|call-site/the-client-keeps-payloads-off-its-control-connection-and-enables-them-on-the-blob-connection", z3.BoolVal(bool(okc and okb)))
    return task
