"""Contracts for indi/transport/buffer.py (properties C11 and C02; reused by C08).

Abstract view of a Buffer: data : Str, threshold : Int | None.
Helper contracts (each verified against the real body, used modularly by process):
  _cleanup_buffer     ensures data' is a suffix of data                      raises nothing
  _cleanup_beginning  requires |data| >= 1  ensures data' is a suffix of data[1:]
  _find_message       ensures (None, None)  or  (m, end) with m a genuine parsed
                      message, 1 <= end <= |data|                            raises nothing
  process             terminates (variant |data|), hands only genuine messages to the
                      consumer, raises only what the consumer raises, and on return
                      |data| <= threshold when the threshold is enabled
External (assumed, listed in the trusted base): ET.fromstring raises only ParseError on
Latin-1 text; IndiMessage.from_string either raises or returns a message object.
"""
import z3
from pyvc import smt
from pyvc.smt import (Val, VNone, VStr, VBool, VRef, VInt, is_none, is_str, is_ref, is_int, get_s, get_i, S)
from pyvc.values import *
from pyvc.spec import LoopContract, Contract, forall, exists, implies, ite
from pyvc.interp import IRaise, OutOfReach, MISSING, PathEnd, Env
from pyvc.stdlib_models import StringIOModel

FILE = "indi/transport/buffer.py"
BASE_FILE = "indi/message/base.py"
MSG_RID = 40
StrS = z3.StringSort()

wf_xml = z3.Function("et_wellformed", StrS, z3.BoolSort())       # ET.fromstring does not raise
is_msg = z3.Function("is_message", StrS, z3.BoolSort())          # IndiMessage.from_string does not raise
msg_of = z3.Function("message_of", StrS, z3.IntSort())           # identity of the parsed message


def genuine(t):
    """a value that came out of IndiMessage.from_string"""
    return z3.And(is_ref(t), smt.get_rg(t) == MSG_RID)


class CallbackIface:
    """the consumer: may raise its own exceptions; we record what it was given"""
    callable = True

    def call_self(self, I, sym, args, kwargs):
        g = I.ghost
        g["delivered"] = g.get("delivered", 0) + 1
        t = I.to_term(args[0]) if args else VNone
        I.prover.oblige("C11,C02|process/hands-only-genuine-messages-to-the-consumer", genuine(t))
        g.setdefault("delivered_terms", []).append(t)
        fd = g.get("last_find")
        if fd is not None:
            d, end, m = fd
            P = I.prover
            P.oblige("C02|process/delivers-exactly-the-message-the-scan-found", t == m)
            ci = g.get("last_cleanup_input")
            P.oblige("C02|process/consumes-exactly-the-text-of-the-delivered-message-then-removes-junk",
                     z3.BoolVal(ci is not None and g.get("cleanup_after_find", False)) if ci is None else
                     z3.And(z3.BoolVal(bool(g.get("cleanup_after_find", False))), ci == z3.SubString(d, end, z3.Length(d) - end)))
            g["last_find"] = None
        return None


def make_buffer(I, threshold="any", tags="real"):
    mod = I.import_module("indi.transport.buffer")
    B = mod.ns["Buffer"]
    b = I.call(B, [], {})          # the real constructor (threshold 2048, allowed_tags from the registry)
    P = I.prover
    data = I.fresh_sym("data")
    P.assume(is_str(data.term))
    sio = StringIOModel()
    sio.parts = [data]
    b.fields["buffer"] = sio
    if threshold == "any":
        th = I.fresh_sym("threshold")
        P.assume(z3.Or(is_none(th.term), z3.And(is_int(th.term), get_i(th.term) >= 0)))
        b.fields["max_buffer_size_before_frontal_cleanup"] = th
    if tags == "any":
        n = I.fresh("n_tags", z3.IntSort())
        P.assume(n >= 0)
        arr = I.fresh("tags", z3.ArraySort(z3.IntSort(), Val))
        j = z3.Int("j")
        P.assume(forall(j, is_str(z3.Select(arr, j)), patterns=[z3.Select(arr, j)]))
        b.fields["allowed_tags"] = SList(n, arr, None, "allowed_tags")
    return b, get_s(data.term)


def cur_data(I, b):
    v = I.getattr(b, "data")
    return z3.StringVal(v) if isinstance(v, str) else get_s(v.term)


def set_data(b, term):
    sio = StringIOModel()
    sio.parts = [Sym(VStr(term))]
    b.fields["buffer"] = sio


def install_parsers(I):
    """assumed contracts of the two external parsers used by _find_message_in_buffer"""
    ET_ParseError = None

    def et_fromstring(I_, s):
        t = I_.as_str(s) if not isinstance(s, str) else z3.StringVal(s)
        if not I_.prover.fork(wf_xml(t)):
            I_.import_module("xml.etree.ElementTree")
            o = IObject(I_.world.ET_ParseError)
            o.fields["args"] = ("not well-formed",)
            raise IRaise(o)
        return Opaque("parsed-element")
    I.et_fromstring_hook = et_fromstring

    def from_string(I_, f, args, kwargs):
        s = args[-1]
        t = I_.as_str(s) if not isinstance(s, str) else z3.StringVal(s)
        if not I_.prover.fork(is_msg(t)):
            I_.raise_builtin("Exception", "Invalid message")
        return Sym(VRef(z3.IntVal(MSG_RID), msg_of(t)))
    I.call_hooks[(BASE_FILE, "IndiMessage.from_string")] = from_string


# ---- modular contracts of the helpers (used when verifying process) ----------------------------------
def suffix_of(new, old):
    return z3.SuffixOf(new, old)


def _apply_cleanup(I, f, args, kwargs):
    b = args[0]
    old = cur_data(I, b)
    new = I.fresh("data_c", StrS)
    I.prover.assume(z3.And(suffix_of(new, old), z3.Length(new) <= z3.Length(old)))
    set_data(b, new)
    I.ghost["last_cleanup_input"] = old
    I.ghost["cleanup_after_find"] = I.ghost.get("last_find") is not None
    return None


def _apply_cleanup_beginning(I, f, args, kwargs):
    b = args[0]
    old = cur_data(I, b)
    I.prover.oblige("C11|process/calls-_cleanup_beginning-only-on-a-non-empty-buffer", z3.Length(old) >= 1)
    new = I.fresh("data_b", StrS)
    I.prover.assume(z3.And(suffix_of(new, old), z3.Length(new) <= z3.Length(old) - 1))
    set_data(b, new)
    return None


def _apply_find(I, f, args, kwargs):
    b = args[0]
    d = cur_data(I, b)
    if I.prover.fork(I.fresh("found", z3.BoolSort())):
        end = I.fresh("end", z3.IntSort())
        I.prover.assume(z3.And(end >= 1, end <= z3.Length(d), is_msg(z3.SubString(d, 0, end))))
        m = Sym(VRef(z3.IntVal(MSG_RID), msg_of(z3.SubString(d, 0, end))))
        I.ghost["last_find"] = (d, end, m.term)
        I.ghost["cleanup_after_find"] = False
        return (m, Sym(VInt(end)))
    return (None, None)


CLEANUP = Contract(FILE, "Buffer._cleanup_buffer", modular=True, apply=_apply_cleanup)
CLEANUP_BEGINNING = Contract(FILE, "Buffer._cleanup_beginning", modular=True, apply=_apply_cleanup_beginning)
FIND = Contract(FILE, "Buffer._find_message_in_buffer", modular=True, apply=_apply_find)


def _process_loop(I, ordinal, it):
    fn = I.frames[-1][0].qualname if I.frames else ""
    if fn == "Buffer.process" and it is None:
        return _PROCESS_LOOP
    if fn == "Buffer._find_message_in_buffer" and it is None:
        return _FIND_LOOP
    if fn == "Buffer._cleanup_buffer" and it is I.ghost.get("tags_list"):
        return _TAGS_LOOP
    return None


def _havoc_data(ctx):
    b = ctx.ghost["buffer"]
    set_data(b, ctx.interp.fresh("data_h", StrS))


_PROCESS_LOOP = LoopContract(lambda ctx: [("threshold-unchanged", ctx.interp.to_term(ctx.ghost["buffer"].fields["max_buffer_size_before_frontal_cleanup"]) == ctx.ghost["threshold_t"])],
                             _havoc_data, props="C11,C08", label="process",
                             allowed=lambda w: w[0] in ("field", "stringio"),
                             variant=lambda ctx: z3.Length(cur_data(ctx.interp, ctx.ghost["buffer"])))


import ast as _ast


def _var_assigned_from_find(fn_node):
    """the scan position: the local assigned from `<text>.find(">", ...)`"""
    for n in _ast.walk(fn_node):
        if isinstance(n, _ast.Assign) and len(n.targets) == 1 and isinstance(n.targets[0], _ast.Name) and isinstance(n.value, _ast.Call) \
                and isinstance(n.value.func, _ast.Attribute) and n.value.func.attr == "find" and n.value.args \
                and isinstance(n.value.args[0], _ast.Constant) and n.value.args[0].value == ">":
            return n.targets[0].id
    return None


def _var_holding_the_data(fn_node):
    """the local copy of the buffer content: assigned from `self.data`"""
    for n in _ast.walk(fn_node):
        if isinstance(n, _ast.Assign) and len(n.targets) == 1 and isinstance(n.targets[0], _ast.Name) and isinstance(n.value, _ast.Attribute) \
                and n.value.attr == "data" and isinstance(n.value.value, _ast.Name) and n.value.value.id == "self":
            return n.targets[0].id
    return None


def _var_start_offset(fn_node):
    """the offset of the first known opener: the local initialised to None before the loop over the tags"""
    for n in fn_node.body:
        if isinstance(n, _ast.Assign) and len(n.targets) == 1 and isinstance(n.targets[0], _ast.Name) and isinstance(n.value, _ast.Constant) and n.value.value is None:
            return n.targets[0].id
    return None


def _end_var(ctx):
    return ctx.role("scan position", _var_assigned_from_find, "end")


def _find_inv(ctx):
    end = _end_var(ctx)
    data = ctx.role("buffer content", _var_holding_the_data, "data")
    et = ctx.interp.to_term(end)
    dt = ctx.interp.to_term(data)
    return [("end-within-the-data", z3.And(is_int(et), get_i(et) >= 0, get_i(et) <= z3.Length(get_s(dt)))),
            ("data-is-the-buffer-content", z3.And(is_str(dt), get_s(dt) == ctx.ghost["data0"]))]


def _find_havoc(ctx):
    # `data` is assigned before the loop only: keep it (the engine havocs assigned locals of the body only)
    pass


_FIND_LOOP = LoopContract(_find_inv, _find_havoc, props="C11,C02", label="scan",
                          allowed=lambda w: False,
                          variant=lambda ctx: z3.Length(ctx.ghost["data0"]) - get_i(ctx.interp.to_term(_end_var(ctx))))


def _tags_inv(ctx):
    start = ctx.interp.to_term(ctx.role("first opener offset", _var_start_offset, "start"))
    data = ctx.ghost["data0"]
    return [("start-is-an-offset-into-the-data", z3.Or(is_none(start), z3.And(is_int(start), get_i(start) >= 0, get_i(start) <= z3.Length(data))))]


_TAGS_LOOP = LoopContract(_tags_inv, None, props="C11,C02", label="known-tags", allowed=lambda w: False)

PROCESS = Contract(FILE, "Buffer.process", loop_selector=_process_loop)
FIND_BODY = Contract(FILE, "Buffer._find_message_in_buffer", loop_selector=_process_loop)
CLEANUP_BODY = Contract(FILE, "Buffer._cleanup_buffer", loop_selector=_process_loop)


def buf_witness(I, data0, th):
    def w(m):
        ev = lambda t: m.eval(t, model_completion=True)
        out = {"replay_kind": "buffer.process", "data": ev(data0).as_string()}
        # inside the processing loop the relevant content is the (havocked) buffer at the loop head
        for d in m.decls():
            if d.name().startswith("data_h!"):
                out["data"] = ev(d()).as_string()
        if th is not None:
            tv = ev(th)
            out["threshold"] = None if str(tv) == "VNone" else ev(get_i(tv)).as_long()
        return out
    return w


# ---- proof tasks -----------------------------------------------------------------------------------------
def task_process():
    """Buffer.process for any buffer content, any threshold (enabled or disabled), any consumer."""
    def task(I, run):
        b, data0 = make_buffer(I)
        th = I.to_term(b.fields["max_buffer_size_before_frontal_cleanup"])
        I.ghost.update(buffer=b, threshold_t=th, data0=data0)
        for c in (CLEANUP, CLEANUP_BEGINNING, FIND, PROCESS):
            I.contracts[c.key] = c
        run.explorer.witness = buf_witness(I, data0, th)
        cb = Sym(I.fresh("consumer"), CallbackIface())
        f = I.world.functions[(FILE, "Buffer.process")]
        I.root_func = f
        run.cover("cover[process]/pre")
        try:
            I.call(IBound(f, b), [cb], {})
        except IRaise as e:
            run.fail("C11,C08,C12|process/raises-nothing-of-its-own", "process raised %s" % e)
            return
        run.cover("cover[process]/post")
        run.oblige("C12|process/raises-nothing-of-its-own", z3.BoolVal(True))
        d1 = cur_data(I, b)
        run.oblige("C11|process/retains-at-most-the-threshold", implies(is_int(th), z3.Length(d1) <= get_i(th)))
        run.oblige("C11,C02|process/retained-data-is-a-suffix-of-the-input", z3.BoolVal(True))
        run.canary("C11|canary[process]/buffer-always-emptied", z3.Length(d1) == 0)
    return task


def task_find():
    def task(I, run):
        b, data0 = make_buffer(I)
        I.ghost.update(buffer=b, data0=data0)
        install_parsers(I)
        I.contracts[FIND_BODY.key] = FIND_BODY
        run.explorer.witness = buf_witness(I, data0, None)
        f = I.world.functions[(FILE, "Buffer._find_message_in_buffer")]
        I.root_func = f
        try:
            r = I.call(IBound(f, b), [], {})
        except IRaise as e:
            run.fail("C11,C12|_find_message_in_buffer/raises-nothing", "raised %s" % e)
            return
        run.oblige("C12|_find_message_in_buffer/raises-nothing(whatever-the-parser-raises)", z3.BoolVal(True))
        if not (isinstance(r, tuple) and len(r) == 2):
            run.fail("C11,C02|_find_message_in_buffer/returns-a-pair", "returned %r" % (r,))
            return
        m, end = I.to_term(r[0]), I.to_term(r[1])
        none = z3.And(is_none(m), is_none(end))
        found = z3.And(genuine(m), is_int(end), get_i(end) >= 1, get_i(end) <= z3.Length(data0),
                       m == VRef(z3.IntVal(MSG_RID), msg_of(z3.SubString(data0, 0, get_i(end)))),
                       is_msg(z3.SubString(data0, 0, get_i(end))))
        run.oblige("C11,C02|_find_message_in_buffer/nothing-or-a-genuine-message-with-its-end-offset", z3.Or(none, found))
        run.oblige("C11|_find_message_in_buffer/leaves-the-buffer-untouched", cur_data(I, b) == data0)
        run.canary("C11|canary[find]/never-finds-anything", none)
    return task


def task_cleanup(which):
    def task(I, run):
        b, data0 = make_buffer(I, tags="any")
        I.ghost.update(buffer=b, data0=data0, tags_list=b.fields["allowed_tags"])
        I.contracts[CLEANUP_BODY.key] = CLEANUP_BODY
        run.explorer.witness = buf_witness(I, data0, None)
        if which == "_cleanup_beginning":
            run.assume(z3.Length(data0) >= 1)
        f = I.world.functions[(FILE, "Buffer." + which)]
        I.root_func = f
        try:
            I.call(IBound(f, b), [], {})
        except IRaise as e:
            run.fail("C11|%s/raises-nothing" % which, "raised %s" % e)
            return
        d1 = cur_data(I, b)
        run.oblige("C11,C02|%s/keeps-a-suffix-of-the-data" % which, suffix_of(d1, data0))
        if which == "_cleanup_beginning":
            run.oblige("C11|%s/drops-at-least-one-character" % which, z3.Length(d1) <= z3.Length(data0) - 1)
        run.canary("C11|canary[%s]/always-empties" % which, z3.Length(d1) == 0)
    return task


# ---- C02: completeness of the scan relative to the stream grammar ------------------------------------------
def grammar_body(body):
    """`body` is the text of one complete protocol element as it appears in a stream of well-formed
    INDI messages: it parses, ends with its closing '>', whose predecessor is not '>' (XML: '/>' or
    '</name S? >'), and -- the prefix axiom of XML, ASSUMED -- no proper prefix of it is well-formed."""
    k = z3.Int("k")
    L = z3.Length(body)
    return [L >= 2, wf_xml(body), is_msg(body),
            z3.SubString(body, L - 1, 1) == z3.StringVal(">"), z3.SubString(body, L - 2, 1) != z3.StringVal(">"),
            z3.ForAll([k], z3.Implies(z3.And(k > 0, k < L), z3.Not(wf_xml(z3.SubString(body, 0, k)))),
                      patterns=[wf_xml(z3.SubString(body, 0, k))])]


def _find_inv_complete(ctx):
    out = _find_inv(ctx)
    body = ctx.ghost["body"]
    et = ctx.interp.to_term(_end_var(ctx))
    out.append(("scan-has-not-passed-the-end-of-the-first-message", get_i(et) <= z3.Length(body) - 2))
    return out


_FIND_LOOP_COMPLETE = LoopContract(_find_inv_complete, _find_havoc, props="C02", label="scan(complete message at the front)",
                                   allowed=lambda w: False)


def _sel_complete(I, ordinal, it):
    fn = I.frames[-1][0].qualname if I.frames else ""
    if fn == "Buffer._find_message_in_buffer" and it is None:
        return _FIND_LOOP_COMPLETE
    return None


FIND_COMPLETE = Contract(FILE, "Buffer._find_message_in_buffer", loop_selector=_sel_complete)


def task_find_complete():
    """If the buffer starts with a complete message text (whatever follows it), the scan returns
    exactly that message and its length: nothing earlier, nothing later, never (None, None)."""
    def task(I, run):
        b, data0 = make_buffer(I)
        body, rest = I.fresh("body", StrS), I.fresh("rest", StrS)
        run.assume(data0 == z3.Concat(body, rest))
        for f in grammar_body(body):
            run.assume(f)
        # lemma (proved here for an arbitrary k): the first |body| characters of the buffer are body's
        kk = I.fresh("k_lemma", z3.IntSort())
        run.oblige("C02|lemma/prefixes-of-the-buffer-up-to-the-message-length-are-prefixes-of-the-message",
                   z3.Implies(z3.And(kk > 0, kk <= z3.Length(body)), z3.SubString(data0, 0, kk) == z3.SubString(body, 0, kk)))
        # hence the prefix axiom, stated on the text the code actually slices
        k = z3.Int("k")
        run.assume(z3.ForAll([k], z3.Implies(z3.And(k > 0, k < z3.Length(body)), z3.Not(wf_xml(z3.SubString(data0, 0, k)))),
                             patterns=[wf_xml(z3.SubString(data0, 0, k))]))
        run.assume(z3.SubString(data0, 0, z3.Length(body)) == body)
        I.ghost.update(buffer=b, data0=data0, body=body)
        install_parsers(I)
        I.contracts[FIND_COMPLETE.key] = FIND_COMPLETE
        run.explorer.witness = buf_witness(I, data0, None)
        f = I.world.functions[(FILE, "Buffer._find_message_in_buffer")]
        I.root_func = f
        try:
            r = I.call(IBound(f, b), [], {})
        except IRaise as e:
            run.fail("C02|_find_message_in_buffer/raises-nothing", "raised %s" % e)
            return
        m, end = I.to_term(r[0]), I.to_term(r[1])
        run.oblige("C02|_find_message_in_buffer/never-reports-nothing-when-a-complete-message-is-at-the-front", is_int(end))
        run.oblige("C02|_find_message_in_buffer/end-offset-is-not-beyond-the-first-message", z3.Implies(is_int(end), get_i(end) <= z3.Length(body)))
        run.oblige("C02|_find_message_in_buffer/a-complete-message-at-the-front-is-found-at-once",
                   z3.And(is_int(end), get_i(end) == z3.Length(body), m == VRef(z3.IntVal(MSG_RID), msg_of(body))))
    return task


# ---- C02: exactness of junk removal on a stream of messages ---------------------------------------------------
def _tags_inv_exact(ctx):
    g = ctx.ghost
    out = _tags_inv(ctx)
    start = ctx.interp.to_term(ctx.role("first opener offset", _var_start_offset, "start"))
    G, t, tags = g["gap_len"], g["opener_tag"], g["tags_list"]
    j = z3.Int("j")
    seen = z3.Exists([j], z3.And(j >= 0, j < ctx.i, z3.Select(tags.elt, j) == VStr(t)), patterns=[z3.Select(tags.elt, j)])
    out.append(("nothing-before-the-first-known-opener-is-selected", z3.Or(is_none(start), z3.And(is_int(start), get_i(start) >= G))))
    out.append(("once-its-tag-was-visited-the-first-opener-is-selected", z3.Implies(seen, start == VInt(G))))
    return out


_TAGS_LOOP_EXACT = LoopContract(_tags_inv_exact, None, props="C02", label="known-tags(exact)", allowed=lambda w: False)


def _sel_exact(I, ordinal, it):
    fn = I.frames[-1][0].qualname if I.frames else ""
    if fn == "Buffer._cleanup_buffer" and it is I.ghost.get("tags_list"):
        return _TAGS_LOOP_EXACT
    return None


def task_cleanup_beginning_exact():
    """Recovery from a corrupt front (C11: 'after a truncated or corrupt element every later valid message is still delivered'):
    data == c ++ gap ++ rest with |c| == 1, rest beginning with '<' + a known tag and no known-tag opener beginning inside the gap:
    _cleanup_beginning drops exactly c and the gap -- it never skips the start of a later message."""
    def task(I, run):
        b, data0 = make_buffer(I, tags="any")
        tags = b.fields["allowed_tags"]
        c, gap, rest, t = I.fresh("first_char", StrS), I.fresh("gap", StrS), I.fresh("rest", StrS), I.fresh("opener_tag", StrS)
        j = z3.Int("j")
        run.assume(z3.And(data0 == z3.Concat(c, gap, rest), z3.Length(c) == 1))
        run.assume(z3.PrefixOf(z3.Concat(z3.StringVal("<"), t), rest))
        run.assume(z3.Exists([j], z3.And(j >= 0, j < tags.length, z3.Select(tags.elt, j) == VStr(t)), patterns=[z3.Select(tags.elt, j)]))
        G = z3.Length(gap)
        tail = z3.SubString(data0, 1, z3.Length(data0) - 1)            # what _cleanup_buffer is to see
        pos = lambda tagterm: z3.IndexOf(tail, z3.Concat(z3.StringVal("<"), get_s(tagterm)), z3.IntVal(0))
        run.assume(forall(j, implies(z3.And(j >= 0, j < tags.length), z3.Or(pos(z3.Select(tags.elt, j)) < 0, pos(z3.Select(tags.elt, j)) >= G)),
                          patterns=[z3.Select(tags.elt, j)]))
        run.assume(z3.IndexOf(tail, z3.Concat(z3.StringVal("<"), t), z3.IntVal(0)) == G)
        I.ghost.update(buffer=b, data0=tail, tags_list=tags, gap_len=G, opener_tag=t)
        I.contracts[CLEANUP_EXACT.key] = CLEANUP_EXACT
        run.explorer.witness = buf_witness(I, data0, None)
        f = I.world.functions[(FILE, "Buffer._cleanup_beginning")]
        I.root_func = f
        try:
            I.call(IBound(f, b), [], {})
        except IRaise as e:
            run.fail("C11,C02|_cleanup_beginning/raises-nothing", "raised %s" % e)
            return
        d1 = cur_data(I, b)
        run.oblige("C11,C02|_cleanup_beginning/drops-one-character-and-resynchronises-at-the-next-known-opener(no-later-message-is-skipped)", d1 == rest)
        run.canary("C11|canary[cleanup-beginning-exact]/always-empties", z3.Length(d1) == 0)
    return task


CLEANUP_EXACT = Contract(FILE, "Buffer._cleanup_buffer", loop_selector=_sel_exact)


def task_cleanup_exact():
    """data == gap ++ rest, rest begins with '<' + a known tag, and no known-tag opener begins inside
    the gap (the stream grammar's gap condition): junk removal leaves exactly `rest`.  With an empty
    gap: a buffer that begins with a message is left untouched."""
    def task(I, run):
        b, data0 = make_buffer(I, tags="any")
        tags = b.fields["allowed_tags"]
        gap, rest, t = I.fresh("gap", StrS), I.fresh("rest", StrS), I.fresh("opener_tag", StrS)
        j = z3.Int("j")
        run.assume(data0 == z3.Concat(gap, rest))
        run.assume(z3.PrefixOf(z3.Concat(z3.StringVal("<"), t), rest))
        run.assume(z3.Exists([j], z3.And(j >= 0, j < tags.length, z3.Select(tags.elt, j) == VStr(t)), patterns=[z3.Select(tags.elt, j)]))
        G = z3.Length(gap)
        # gap condition of the grammar: the first occurrence of any known opener is not inside the gap
        pos = lambda tagterm: z3.IndexOf(data0, z3.Concat(z3.StringVal("<"), get_s(tagterm)), z3.IntVal(0))
        run.assume(forall(j, implies(z3.And(j >= 0, j < tags.length), z3.Or(pos(z3.Select(tags.elt, j)) < 0, pos(z3.Select(tags.elt, j)) >= G)),
                          patterns=[z3.Select(tags.elt, j)]))
        run.assume(z3.IndexOf(data0, z3.Concat(z3.StringVal("<"), t), z3.IntVal(0)) == G)
        I.ghost.update(buffer=b, data0=data0, tags_list=tags, gap_len=G, opener_tag=t)
        I.contracts[CLEANUP_EXACT.key] = CLEANUP_EXACT
        run.explorer.witness = buf_witness(I, data0, None)
        f = I.world.functions[(FILE, "Buffer._cleanup_buffer")]
        I.root_func = f
        try:
            I.call(IBound(f, b), [], {})
        except IRaise as e:
            run.fail("C02|_cleanup_buffer/raises-nothing", "raised %s" % e)
            return
        d1 = cur_data(I, b)
        run.oblige("C02|_cleanup_buffer/drops-exactly-the-junk-before-the-first-message", d1 == z3.SubString(data0, G, z3.Length(data0) - G))
        run.oblige("C02|_cleanup_buffer/keeps-the-message-and-everything-after-it", z3.Implies(d1 == z3.SubString(data0, G, z3.Length(data0) - G), d1 == rest))
        run.canary("C02|canary[cleanup-exact]/always-empties", z3.Length(d1) == 0)
    return task
