"""Driver-side harness shared by C12, C14, C06, C07: a driver property (vector) of
any kind with any number of elements in an arbitrary state, built from the real
instance/definition classes, plus the hooks that abstract publication and events.
"""
import z3
from pyvc import smt
from pyvc.smt import (Val, VNone, VStr, VBool, VRef, VInt, is_none, is_str, is_ref, is_int, is_real, get_s, get_b, S)
from pyvc.values import *
from pyvc.spec import LoopContract, Contract, forall, exists, implies, ite
from pyvc.interp import IRaise, OutOfReach, MISSING, PathEnd

VEC_FILE = "indi/device/properties/instance/vectors.py"
ELT_FILE = "indi/device/properties/instance/elements.py"
EVT_FILE = "indi/device/events.py"
DRV_FILE = "indi/device/driver.py"
IntS = z3.IntSort()
A_IV = z3.ArraySort(IntS, Val)
KINDS = ("text", "number", "switch", "blob", "light")
CLS = {"text": ("TextVector", "Text"), "number": ("NumberVector", "Number"), "switch": ("SwitchVector", "Switch"),
       "blob": ("BLOBVector", "BLOB"), "light": ("LightVector", "Light")}
E_RID, D_RID, C_RID = 50, 51, 52
NUMBER_FORMATS = ("%f", "%.2f", "%d", "%.3m", "%.6m", "%.9m")


def in_range(j, n):
    return z3.And(j >= 0, j < n)


class DriverIface:
    def getattr(self, I, sym, name, default=MISSING):
        if name == "send_message":
            def send(I_, a, k):
                I_.ghost.setdefault("sent", []).append(a[0])
                return None
            return Native("send_message", send)
        if name == "name":
            return I.ghost["device_name"]
        raise OutOfReach("driver attribute %s" % name)


def make_vector(I, kind, fmt=None, n_min=0, label="", rid_offset=0):
    """A driver-side vector instance of the given kind with any number of elements."""
    P = I.prover
    iv = I.import_module("indi.device.properties.instance.vectors")
    ie = I.import_module("indi.device.properties.instance.elements")
    dv = I.import_module("indi.device.properties.definition.vectors")
    de = I.import_module("indi.device.properties.definition.elements")
    ig = I.import_module("indi.device.properties.instance.group")
    vname, ename = CLS[kind]
    n = I.fresh("n_elements" + label, IntS)
    P.assume(n >= n_min)
    vec = IObject(iv.ns[vname])
    vdef = IObject(dv.ns[vname])
    vec_name = I.fresh_sym("vec_name" + label)
    P.assume(is_str(vec_name.term))
    vdef.fields.update(name=vec_name, label=I.fresh_sym("vec_label" + label), perm="rw", timeout=0, state="Ok", enabled=True,
                       event_handlers=IDict())
    rule = None
    if kind == "switch":
        rule = I.fresh_sym("rule" + label)
        P.assume(is_str(rule.term))
        vdef.fields["rule"] = rule
    dfields = {"name": I.fresh("el_name" + label, A_IV), "label": I.fresh("el_label" + label, A_IV),
               "enabled": I.fresh("el_def_enabled" + label, A_IV), "event_handlers": ("const", IDict())}
    if kind == "number":
        dfields.update(format=("const", fmt or "%f"), min=("const", 0), max=("const", 100), step=("const", 1))
    D = Region(D_RID + rid_offset, de.ns[ename], n, dfields, "definitions" + label)
    E = Region(E_RID + rid_offset, ie.ns[ename], n, {"_value": I.fresh("val" + label, A_IV), "_vector": ("const", vec),
                                        "_definition": ("region", D), "_enabled": I.fresh("el_enabled" + label, A_IV)}, "elements" + label)
    keys = I.fresh("el_key" + label, A_IV)
    group = IObject(ig.ns["Group"])
    dev = Sym(I.fresh("driver" + label), DriverIface())
    I.ghost.setdefault("device_name", I.fresh_sym("device_name"))
    gdef = IObject(I.import_module("indi.device.properties.definition.group").ns["Group"])
    gdef.fields.update(name=I.fresh_sym("group_name" + label), enabled=True, vectors=IDict(), event_handlers=IDict())
    group.fields.update(_device=dev, _enabled=True, _definition=gdef, _vectors=IDict())
    vec.fields.update(_state="Ok", _enabled=True, _group=group, _definition=vdef,
                      _elements=RSeq(E, keys, "dict", "elements"),
                      _elements_by_name=RSeq(E, D.fields["name"], "dict", "elements_by_name"))
    j, k = z3.Ints("j k")
    names = D.fields["name"]
    P.assume(forall([j, k], implies(z3.And(in_range(j, n), in_range(k, n), j != k), z3.Select(keys, j) != z3.Select(keys, k)),
                    patterns=[z3.MultiPattern(z3.Select(keys, j), z3.Select(keys, k))]))
    P.assume(forall([j, k], implies(z3.And(in_range(j, n), in_range(k, n), j != k), z3.Select(names, j) != z3.Select(names, k)),
                    patterns=[z3.MultiPattern(z3.Select(names, j), z3.Select(names, k))]))
    P.assume(forall(j, implies(in_range(j, n), is_str(z3.Select(keys, j))), patterns=[z3.Select(keys, j)]))
    # driver-author precondition: an element key does not shadow an attribute name the library looks up on the vector
    P.assume(forall(j, implies(in_range(j, n), z3.Select(keys, j) != VStr(z3.StringVal("new_message_class"))), patterns=[z3.Select(keys, j)]))
    P.assume(forall(j, implies(in_range(j, n), is_str(z3.Select(names, j))), patterns=[z3.Select(names, j)]))
    return {"vec": vec, "E": E, "D": D, "n": n, "val0": E.fields["_value"], "rule": rule.term if rule is not None else None,
            "name": vec_name, "kind": kind, "group": group, "vdef": vdef}


def install_publication_hooks(I, on_serialise=None, on_event=None):
    """Vector.to_set_message / to_def_message are abstracted at the serialisation point (their
    own behaviour is C07's subject); events go to `on_event` (default: handlers do nothing; a plain
    Write handler may veto)."""
    def to_set_message(I_, f, args, kwargs):
        vec = args[0]
        k = I_.ghost.get("n_published", 0)
        I_.ghost["n_published"] = k + 1
        if on_serialise is not None:
            on_serialise(I_, vec, k)
        m = I_.fresh_sym("set_message")
        I_.ghost["last_serialised"] = m
        I_.ghost.setdefault("trace", []).append(("serialise", vec, m))
        return m

    def to_def_message(I_, f, args, kwargs):
        m = I_.fresh_sym("def_message")
        I_.ghost.setdefault("trace", []).append(("serialise-def", args[0], m))
        return m

    def raise_event(I_, f, args, kwargs):
        ev = args[1]
        if on_event is not None:
            return on_event(I_, args[0], ev)
        if isinstance(ev, IObject) and ev.cls.name == "Write":
            b = I_.fresh("veto", z3.BoolSort())
            ev.fields["prevent_default"] = Sym(VBool(b))
        return None
    for nm in ("Vector.to_set_message", "LightVector.to_set_message"):
        I.call_hooks[(VEC_FILE, nm)] = to_set_message
    for nm in ("Vector.to_def_message", "SwitchVector.to_def_message", "LightVector.to_def_message"):
        I.call_hooks[(VEC_FILE, nm)] = to_def_message
    I.call_hooks[(EVT_FILE, "EventSource.raise_event")] = raise_event


# ---- loop contracts -----------------------------------------------------------------------------------
def _rule_state(ctx):
    from contracts.switch import ON, OFF
    g = ctx.ghost
    j = z3.Int("j")
    s = g["apply_sender_idx"]
    v0 = g["apply_val_entry"]
    return z3.Lambda([j], ite(z3.And(j >= 0, j < ctx.i, j != s, z3.Select(v0, j) == ON), OFF, z3.Select(v0, j)))


class _RuleLoop(LoopContract):
    def enter(self, ctx):
        g = ctx.ghost
        g["apply_val_entry"] = g["E"].fields["_value"]
        sender = ctx.role("the element being written (2nd parameter)", lambda n: n.args.args[1].arg, "sender")
        if not (isinstance(sender, RObj) and sender.region is g["E"]):
            raise OutOfReach("apply_rule: `sender` is not an element of this vector")
        g["apply_sender_idx"] = sender.idx


def _rule_inv(ctx):
    j = z3.Int("j")
    return [("others-turned-Off-up-to-i", forall(j, z3.Select(ctx.ghost["E"].fields["_value"], j) == z3.Select(_rule_state(ctx), j)))]


def _rule_havoc(ctx):
    ctx.ghost["E"].fields["_value"] = _rule_state(ctx)


RULE_LOOP = _RuleLoop(_rule_inv, _rule_havoc, props="C12,C06", label="elements",
                      allowed=lambda w: w[0] == "region" and w[2] == "_value")


def numbers_only(arr, n):
    jn = z3.Int("jn")
    return forall(jn, implies(in_range(jn, n), z3.Or(smt.is_real(z3.Select(arr, jn)), smt.is_int(z3.Select(arr, jn)))), patterns=[z3.Select(arr, jn)])


def _writes_havoc(ctx):
    ctx.ghost["E"].fields["_value"] = ctx.interp.fresh("val_mid", A_IV)


def _writes_inv(ctx):
    extra = ctx.ghost.get("writes_inv")
    return extra(ctx) if extra is not None else []


WRITES_LOOP = LoopContract(_writes_inv, _writes_havoc, props="C12,C06", label="children",
                           allowed=lambda w: (w[0] == "region" and w[2] == "_value"))


def select_loop(I, ordinal, it):
    g = I.ghost
    fn = I.frames[-1][0].qualname if I.frames else ""
    if isinstance(it, RSeq) and it.region is g.get("E") and fn == "SwitchVector.apply_rule":
        return RULE_LOOP
    if isinstance(it, RSeq) and it.region is g.get("C") and fn == "Vector.from_new_message":
        return WRITES_LOOP
    return None


APPLY_RULE = Contract(VEC_FILE, "SwitchVector.apply_rule", loop_selector=select_loop)
FROM_NEW = Contract(VEC_FILE, "Vector.from_new_message", loop_selector=select_loop)


def make_driver(I, vectors):
    """A Driver object whose property table holds the given vectors (name -> vector)."""
    mod = I.import_module("indi.device.driver")
    d = IObject(mod.ns["Driver"])
    tbl = IDict()
    for v in vectors:
        tbl.d[v["name"]] = v["vec"]
    name = I.fresh_sym("drv_name")
    I.prover.assume(is_str(name.term))
    d.fields.update(_name=name, _vectors=tbl, _groups=IDict(), _router=None, _snooping_client=None)
    return d


def wire_children(I, part_cls_name, rid=C_RID, label="child"):
    """children of a new*Vector as they come off the wire: any number, any names, any text values"""
    op = I.import_module("indi.message.one_parts")
    n = I.fresh("n_children", IntS)
    I.prover.assume(n >= 0)
    fields = {"name": I.fresh(label + "_name", A_IV), "value": I.fresh(label + "_value", A_IV)}
    if part_cls_name == "OneBLOB":
        fields.update(size=I.fresh(label + "_size", A_IV), format=I.fresh(label + "_format", A_IV))
    C = Region(rid, op.ns[part_cls_name], n, fields, "children")
    k = z3.Int("k")
    for f, arr in fields.items():
        t = z3.Select(arr, k)
        I.prover.assume(forall(k, z3.Or(is_str(t), is_none(t)) if f == "value" else is_str(t), patterns=[t]))
    return C


# ---- C12 ------------------------------------------------------------------------------------------------
NEW_KINDS = {"NewTextVector": "OneText", "NewNumberVector": "OneNumber", "NewSwitchVector": "OneSwitch", "NewBLOBVector": "OneBLOB"}


def c12_witness(I, info):
    def w(m):
        out = {"replay_kind": "driver.hostile"}
        out.update({k: v for k, v in info.items() if isinstance(v, (str, int, bool, type(None)))})
        return out
    return w


def task_c12_new_vector(msg_cls_name, target_kind, fmt=None):
    """A new*Vector with arbitrary children (unknown element names, unparsable values, wrong kind for
    the property, missing BLOB payload ...) addressed to a property of the given kind, or to an
    unknown property: Driver.message_from_client raises nothing and touches only the element values
    of the addressed property."""
    def task(I, run):
        from contracts.switch import ON, OFF
        news = I.import_module("indi.message.news")
        label = "%s->%s%s" % (msg_cls_name, target_kind, "(%s)" % fmt if fmt else "")
        if target_kind == "unknown":
            v = make_vector(I, "text")
            other = True
        else:
            v = make_vector(I, target_kind, fmt)
            other = False
        bystander = make_vector(I, "text", label="_by", rid_offset=10)      # another property of the same device
        drv = make_driver(I, [v, bystander])
        C = wire_children(I, NEW_KINDS[msg_cls_name])
        msg = IObject(news.ns[msg_cls_name])
        mname = I.fresh_sym("msg_name")
        run.assume(is_str(mname.term))
        if other:
            run.assume(z3.And(mname.term != v["name"].term, mname.term != bystander["name"].term))
        else:
            run.assume(mname.term == v["name"].term)
            run.assume(mname.term != bystander["name"].term)
        msg.fields.update(device=drv.fields["_name"], name=mname, timestamp=None, children=RSeq(C, None, "list", "children"))
        I.ghost.update(E=v["E"], C=C, n=v["n"], val0=v["val0"], rule=v["rule"])
        if target_kind == "number" and not other:
            run.assume(numbers_only(v["val0"], v["n"]))         # type invariant of a number property (precondition)
            I.ghost["writes_inv"] = lambda ctx: [("C12,C06:number-elements-hold-numbers", numbers_only(ctx.ghost["E"].fields["_value"], ctx.ghost["n"]))]
        if target_kind == "switch":
            # the switch vocabulary invariant (established by C09)
            j = z3.Int("j")
            run.assume(forall(j, implies(in_range(j, v["n"]), z3.Or(z3.Select(v["val0"], j) == ON, z3.Select(v["val0"], j) == OFF)),
                              patterns=[z3.Select(v["val0"], j)]))
        for c in (APPLY_RULE, FROM_NEW):
            I.contracts[c.key] = c
        install_publication_hooks(I)
        run.explorer.witness = c12_witness(I, {"message": msg_cls_name, "target": target_kind, "format": fmt})
        by0 = bystander["E"].fields["_value"]
        f = I.world.functions[(DRV_FILE, "Driver.message_from_client")]
        I.root_func = f
        run.cover("cover[%s]" % label)
        I.write_log_push()
        try:
            I.call(IBound(f, drv), [msg], {})
        except IRaise as e:
            I.write_log_pop()
            run.fail("C12|message_from_client[%s]/raises-nothing" % label, "Driver.message_from_client raised %s" % (e,))
            return
        wl = I.write_log_pop()
        run.oblige("C12|message_from_client[%s]/returned-normally-on-this-path" % label, z3.BoolVal(True))
        foreign = [w for w in wl if not (w[0] == "region" and w[1] is v["E"] and w[2] == "_value")]
        run.oblige("C12|message_from_client[%s]/touches-only-element-values-of-the-addressed-property" % label,
                   z3.BoolVal(not foreign), note=repr(foreign[:3]) if foreign else None)
        run.oblige("C12|message_from_client[%s]/other-properties-unchanged" % label, z3.BoolVal(bystander["E"].fields["_value"] is by0))
        if other:
            run.oblige("C12|message_from_client[%s]/unknown-property-changes-nothing" % label, z3.BoolVal(v["E"].fields["_value"] is v["val0"]))
        if target_kind == "number" and not other:
            # an absent or unparsable number text is ignored: the elements of a number property stay numbers (carried by the loop invariant)
            run.oblige("C12,C06|message_from_client[%s]/number-elements-stay-numbers(absent-or-unparsable-text-is-ignored)" % label, numbers_only(v["E"].fields["_value"], v["n"]))
        if msg_cls_name.lower() == "new%svector" % target_kind:
            # (a valid write must be possible: guards against a vacuous harness; for the success path the array object changed)
            run.canary("C12|canary[%s]/nothing-is-ever-written" % label, z3.BoolVal(v["E"].fields["_value"] is v["val0"]))
    return task


def task_c12_other_kind(ident):
    """every other message kind a client may (or should not) send reaches the driver without effect or error"""
    def task(I, run):
        from contracts import codec
        cls = codec.find_class(I, ident)
        codec.hook_children_check(I)
        v = make_vector(I, "text")
        drv = make_driver(I, [v])
        try:
            msg, _ = codec.make_message(I, cls, "m", 60, mk=codec.wire_val, children=None)
        except IRaise:
            raise PathEnd()
        install_publication_hooks(I)
        f = I.world.functions[(DRV_FILE, "Driver.message_from_client")]
        I.root_func = f
        run.explorer.witness = c12_witness(I, {"message": cls.name, "target": "n/a"})
        try:
            I.call(IBound(f, drv), [msg], {})
        except IRaise as e:
            run.fail("C12|message_from_client[%s]/raises-nothing" % cls.name, "raised %s" % e)
            return
        run.oblige("C12|message_from_client[%s]/changes-nothing" % cls.name, z3.BoolVal(v["E"].fields["_value"] is v["val0"]))
    return task
