"""C01 -- the client view converges to the device's published view.

Decomposition (DESIGN 4 C01).  Inv: for every query (device, property, element) the mirror of a client that performed the
handshake equals pub(S), the published view of the device state S.  Inv is established by the handshake and preserved by every
driver-side operation because
  (M) each mutator, on the real code, sends exactly the messages of its row in the table below, serialised AFTER the state
      change (tasks below: Vector.enabled, Vector.state_, Group.enabled, Driver.send_message; Element.value / set_value in the
      C14 tasks, clauses tagged C01; client writes reach set_value by C06),
  (P) those messages have the content C07 proves for to_def_message / to_set_message,
  (T) they reach every client unchanged up to wire typing and in order (C05 fan-out, C03 codec, C02 framing, C19 ordering),
  (S) the client applies them as the reference step function of C15 (`contracts.client.expected`),
  (L) lemma, discharged here on the spec functions of (P) and (S): step(pub(S) or anything, DEF(S')) = pub(S'),
      step(pub(S), SET(S')) = pub(S') when S' differs from S in state and element values only, step(_, DEL) = absent.
      mutator            | messages
      -------------------+-----------------------------------------------
      element assignment | SET(S')                       (nothing when the property is not visible)
      state_ = s         | SET(S')
      vector.enabled = b | DEF(S') or DEL, then SET(S')
      group.enabled = b  | for every property of the group: DEF(S') or DEL, then SET(S')
      getProperties      | DEF(S) or DEL for every (named) property          (C07)
"""
import z3
from pyvc import smt
from pyvc.smt import Val, VNone, VStr, VBool, VRef, VInt, is_none, is_str, is_ref, is_bool, get_b, S
from pyvc.values import *
from pyvc.spec import forall, implies, ite
from pyvc.interp import IRaise, OutOfReach, MISSING, PathEnd
from contracts import driver as D
from contracts import client as C

STATES = ("Idle", "Ok", "Busy", "Alert")


def install_snapshot_hooks(I):
    """to_def_message / to_set_message are abstracted at the serialisation point (their content is C07's subject); each call records
    what the property's flags and state were at that moment"""
    def snap(vec):
        g = vec.fields["_group"]
        return {"enabled": I.to_term(vec.fields["_enabled"]), "state": I.to_term(vec.fields["_state"]), "group_enabled": I.to_term(g.fields["_enabled"])}

    def mk(kind):
        def hook(I_, f, args, kwargs):
            vec = args[0]
            m = I_.fresh_sym(kind + "_message")
            I_.prover.assume(is_ref(m.term))
            I_.ghost.setdefault("serialised", []).append((kind, vec, m, snap(vec)))
            return m
        return hook
    for nm in ("Vector.to_set_message", "LightVector.to_set_message"):
        I.call_hooks[(D.VEC_FILE, nm)] = mk("set")
    for nm in ("Vector.to_def_message", "SwitchVector.to_def_message", "LightVector.to_def_message"):
        I.call_hooks[(D.VEC_FILE, nm)] = mk("def")


def symbolic_flags(I, run, v, label=""):
    vec, group = v["vec"], v["group"]
    en, gen = I.fresh("vec_enabled" + label, z3.BoolSort()), I.fresh("group_enabled" + label, z3.BoolSort())
    st = C.state_sym(I, "vec_state" + label)
    vec.fields.update(_enabled=Sym(VBool(en)), _state=st)
    group.fields["_enabled"] = Sym(VBool(gen))
    return en, gen, st


def sent_matches(I, sent, ser, expect):
    """expect: list of (kind, vec); sent must be exactly the messages serialised for them, in order"""
    if len(sent) != len(expect) or len(ser) != len(expect):
        return False
    for s_, (kind, vec, m, _), (k2, v2) in zip(sent, ser, expect):
        if s_ is not m or kind != k2 or vec is not v2:
            return False
    return True


def task_vector_setter(kind, which):
    def task(I, run):
        v = D.make_vector(I, kind)
        vec = v["vec"]
        en0, gen0, st0 = symbolic_flags(I, run, v)
        install_snapshot_hooks(I)
        E0 = dict(v["E"].fields)
        label = "%sVector.%s" % (kind.capitalize(), which)
        if which == "enabled":
            b = I.fresh("new_flag", z3.BoolSort())
            new = Sym(VBool(b))
        else:
            new = I.fresh_sym("new_state")
            run.assume(is_str(new.term))
        try:
            I.setattr(vec, which, new)
        except IRaise as e:
            if which == "state_" and e.value.cls.name == "ValueError":
                # an invalid state is refused: nothing changes, nothing is published
                run.oblige("C01|%s/only-a-state-outside-the-vocabulary-is-refused" % label, z3.Not(z3.Or(*[new.term == VStr(z3.StringVal(x)) for x in STATES])))
                run.oblige("C01|%s/a-refused-state-changes-and-publishes-nothing" % label,
                           z3.And(I.to_term(vec.fields["_state"]) == st0.term, z3.BoolVal(not I.ghost.get("sent") and not I.ghost.get("serialised"))))
                raise PathEnd()
            run.fail("C01|%s/raises-nothing" % label, "raised %s" % e)
            return
        sent, ser = I.ghost.get("sent", []), I.ghost.get("serialised", [])
        if which == "enabled":
            run.oblige("C01|%s/takes-the-flag" % label, I.to_term(vec.fields["_enabled"]) == new.term)
            run.oblige("C01|%s/publishes-the-definition-(or-deletion)-then-the-current-values" % label,
                       z3.BoolVal(sent_matches(I, sent, ser, [("def", vec), ("set", vec)])))
            run.oblige("C01|%s/both-messages-are-produced-after-the-flag-changed" % label,
                       z3.And(*[sn["enabled"] == new.term for _, _, _, sn in ser]) if ser else z3.BoolVal(False))
            run.oblige("C01|%s/frame:state-and-group-untouched" % label,
                       z3.And(I.to_term(vec.fields["_state"]) == st0.term, I.to_term(v["group"].fields["_enabled"]) == VBool(gen0)))
        else:
            run.oblige("C01|%s/accepts-every-state-of-the-vocabulary-and-stores-it" % label,
                       z3.And(z3.Or(*[new.term == VStr(z3.StringVal(x)) for x in STATES]), I.to_term(vec.fields["_state"]) == new.term))
            run.oblige("C01|%s/publishes-exactly-one-update" % label, z3.BoolVal(sent_matches(I, sent, ser, [("set", vec)])))
            run.oblige("C01|%s/the-update-is-produced-after-the-state-changed" % label,
                       z3.And(*[sn["state"] == new.term for _, _, _, sn in ser]) if ser else z3.BoolVal(False))
            run.oblige("C01|%s/frame:flags-untouched" % label,
                       z3.And(I.to_term(vec.fields["_enabled"]) == VBool(en0), I.to_term(v["group"].fields["_enabled"]) == VBool(gen0)))
        run.oblige("C01|%s/frame:elements-untouched" % label, z3.BoolVal(all(v["E"].fields[k] is E0[k] or (hasattr(E0[k], "eq") and E0[k].eq(v["E"].fields[k])) for k in E0)))
        run.canary("C01|canary[%s]/nothing-is-ever-published" % label, z3.BoolVal(len(sent) == 0))
    return task


def task_group_enabled(k):
    """Group.enabled setter on a group of k properties (the loop body is independent of the other properties)"""
    def task(I, run):
        kinds = ["text", "number", "switch", "blob"]
        vs = [D.make_vector(I, kinds[i % 4], label="_%d" % i, rid_offset=10 * i) for i in range(k)]
        ig = I.import_module("indi.device.properties.instance.group")
        group = IObject(ig.ns["Group"])
        dev = Sym(I.fresh("driver"), D.DriverIface())
        gen0 = I.fresh("group_enabled", z3.BoolSort())
        tbl = IDict()
        flags = []
        for i, v in enumerate(vs):
            en = I.fresh("vec_enabled_%d" % i, z3.BoolSort())
            st = C.state_sym(I, "vec_state_%d" % i)
            v["vec"].fields.update(_enabled=Sym(VBool(en)), _state=st, _group=group)
            flags.append((en, st))
            tbl.d["key%d" % i] = v["vec"]
        group.fields.update(_device=dev, _enabled=Sym(VBool(gen0)), _definition=vs[0]["group"].fields["_definition"] if vs else None, _vectors=tbl)
        install_snapshot_hooks(I)
        b = I.fresh("new_flag", z3.BoolSort())
        label = "Group.enabled[%d properties]" % k
        try:
            I.setattr(group, "enabled", Sym(VBool(b)))
        except IRaise as e:
            run.fail("C01|%s/raises-nothing" % label, "raised %s" % e)
            return
        sent, ser = I.ghost.get("sent", []), I.ghost.get("serialised", [])
        expect = [x for v in vs for x in (("def", v["vec"]), ("set", v["vec"]))]
        run.oblige("C01|%s/takes-the-flag" % label, I.to_term(group.fields["_enabled"]) == VBool(b))
        run.oblige("C01|%s/publishes-definition-(or-deletion)-and-values-of-every-property-of-the-group-in-order" % label,
                   z3.BoolVal(sent_matches(I, sent, ser, expect)))
        run.oblige("C01|%s/every-message-is-produced-after-the-flag-changed" % label,
                   z3.And(*[sn["group_enabled"] == VBool(b) for _, _, _, sn in ser]) if ser else z3.BoolVal(k == 0))
        run.oblige("C01|%s/frame:the-properties'-own-flags-and-states-are-untouched" % label,
                   z3.And(*[z3.And(I.to_term(v["vec"].fields["_enabled"]) == VBool(en), I.to_term(v["vec"].fields["_state"]) == st.term) for v, (en, st) in zip(vs, flags)])
                   if vs else z3.BoolVal(True))
    return task


def task_send_message():
    """Driver.send_message: hands a message to the router exactly once with the driver as sender; nothing for None / no router"""
    def task(I, run):
        drv = D.make_driver(I, [])
        sent = []

        class RouterStub:
            def getattr(self, I_, sym, name, default=MISSING):
                if name == "process_message":
                    return Native("process_message", lambda I2, a, k: sent.append((a[0], a[1] if len(a) > 1 else k.get("sender"))))
                raise OutOfReach("router." + name)
        has_router = bool(run.choice(2, "router set"))
        if has_router:
            rt = Sym(I.fresh("router"), RouterStub())
            run.assume(is_ref(rt.term))
            drv.fields["_router"] = rt
        sc = I.fresh_sym("snooping_client")        # whatever else the driver holds must not matter
        run.assume(z3.Or(is_none(sc.term), is_ref(sc.term)))
        drv.fields["_snooping_client"] = sc
        msg = I.fresh_sym("message")
        run.assume(z3.Or(is_none(msg.term), is_ref(msg.term)))       # what to_set_message / to_def_message return
        f = I.world.functions[(D.DRV_FILE, "Driver.send_message")]
        try:
            I.call(IBound(f, drv), [msg], {})
        except IRaise as e:
            run.fail("C01|Driver.send_message/raises-nothing", "raised %s" % e)
            return
        want = z3.And(z3.BoolVal(has_router), is_ref(msg.term))
        run.oblige("C01|Driver.send_message/forwards-a-message-exactly-once-with-itself-as-sender-and-drops-None",
                   z3.And(want == z3.BoolVal(len(sent) == 1), z3.BoolVal(len(sent) <= 1 and all(m is msg and s is drv for m, s in sent))))
    return task


# ---------------------------------------------------------------------------------------------------
# (L) the convergence lemma on the spec functions
# ---------------------------------------------------------------------------------------------------
def _val(I, nm):
    return I.fresh(nm, Val)


def task_lemma(kind, k, what):
    """kind in Text/Number/Switch/Light/BLOB; k elements; what in def / set / del / def+set"""
    def task(I, run):
        mmod = I.import_module("indi.message")
        dp = I.import_module("indi.message.def_parts")
        op = I.import_module("indi.message.one_parts")
        dev, vec = C.sstr(I, "dev"), C.sstr(I, "vec")
        names = [C.sstr(I, "el%d" % i) for i in range(k)]
        for i in range(k):
            for j in range(i):
                run.assume(names[i].term != names[j].term)       # element names of a property are distinct (driver-author precondition)
        enabled = [bool(run.choice(2, "element %d enabled" % i)) for i in range(k)]
        # S and S': same names / enabled flags / metadata; state and values may differ
        st0, st1 = C.state_sym(I, "state0"), C.state_sym(I, "state1")
        lab, grp = C.ostr(I, "label"), C.sstr(I, "group")
        val0 = [C.ostr(I, "val0_%d" % i) for i in range(k)]
        val1 = [C.ostr(I, "val1_%d" % i) for i in range(k)]
        fmt1 = [C.sstr(I, "fmt1_%d" % i) for i in range(k)]
        if kind == "BLOB":
            # (P) for BLOBs, proved by C07: the published content is the base64 encoding of the payload -- valid base64 (assumed contract of base64)
            from pyvc.stdlib_models import b64valid
            for v_ in val0 + val1:
                run.assume(b64valid(z3.If(is_none(v_.term), z3.StringVal(""), smt.get_s(v_.term))))
        qd, qv, qe = _val(I, "qd"), _val(I, "qv"), _val(I, "qe")
        kindname = VStr(z3.StringVal(kind + "Vector"))
        ABS = C.ABSENT
        on = z3.And(qd == dev.term, qv == vec.term)

        def pub(state, vals, visible, blob_defined_only=False):
            out = {}
            for a, t in (("kind", kindname), ("state", state.term), ("label", lab.term), ("group", grp.term)):
                out[a] = z3.If(z3.And(on, visible), t, ABS)
            te = ABS
            for i in range(k):
                if enabled[i]:
                    te = z3.If(qe == names[i].term, vals[i], te)
            out["value"] = z3.If(z3.And(on, visible), te, ABS)
            return out

        def render(vals, i):
            if kind == "BLOB":
                from pyvc.stdlib_models import b64dec
                t = vals[i].term
                return smt.VBytes(b64dec(z3.If(is_none(t), z3.StringVal(""), smt.get_s(t))))
            return vals[i].term

        def def_msg(state, vals):
            m = IObject(mmod.ns["Def%sVector" % kind])
            ch = []
            for i in range(k):
                if enabled[i]:
                    p = IObject(dp.ns["Def" + kind])
                    p.fields.update(name=names[i], value=(None if kind == "BLOB" else vals[i]), label=None)
                    ch.append(p)
            m.fields.update(device=dev, name=vec, state=state, label=lab, group=grp, children=ch)
            return m

        def set_msg(state, vals):
            m = IObject(mmod.ns["Set%sVector" % kind])
            ch = []
            for i in range(k):
                if enabled[i]:
                    p = IObject(op.ns["One" + kind])
                    p.fields.update(name=names[i], value=vals[i])
                    if kind == "BLOB":
                        p.fields.update(format=fmt1[i], size=C.sstr(I, "size%d" % i))
                    ch.append(p)
            m.fields.update(device=dev, name=vec, state=state, children=ch)
            return m

        def del_msg():
            m = IObject(mmod.ns["DelProperty"])
            m.fields.update(device=dev, name=vec)
            return m
        label = "lemma[%s,%d elements,%s]" % (kind, k, what)
        anything = {a: _val(I, "mirror_" + a) for a in ("kind", "state", "label", "group", "value", "format")}
        anything["dev"] = I.fresh("mirror_dev", z3.BoolSort())
        T = z3.BoolVal(True)
        if what == "def":
            after = C.expected(I, anything, def_msg(st1, val1), qd, qv, qe)
            want = pub(st1, [None if kind == "BLOB" else render(val1, i) for i in range(k)] if kind != "BLOB" else [VNone] * k, T)
            frame = anything
        elif what == "del":
            after = C.expected(I, anything, del_msg(), qd, qv, qe)
            want = pub(st1, [VNone] * k, z3.BoolVal(False))
            frame = anything
        elif what == "set":
            before = pub(st0, [render(val0, i) for i in range(k)], T)
            before.update(dev=T, format=_val(I, "fmt_before"))
            after = C.expected(I, before, set_msg(st1, val1), qd, qv, qe)
            want = pub(st1, [render(val1, i) for i in range(k)], T)
            frame = before
        else:   # def then set: what enabling a property / group publishes
            mid = C.expected(I, anything, def_msg(st1, val1), qd, qv, qe)
            after = C.expected(I, mid, set_msg(st1, val1), qd, qv, qe)
            want = pub(st1, [render(val1, i) for i in range(k)], T)
            frame = anything
        for a in ("kind", "state", "label", "group", "value"):
            run.oblige("C01|%s/the-mirror-shows-the-published-%s-of-the-new-state" % (label, a), implies(on, after[a] == want[a]))
            run.oblige("C01|%s/other-properties'-%s-untouched" % (label, a), implies(z3.Not(on), after[a] == frame[a]))
    return task


# ---------------------------------------------------------------------------------------------------
# (T) delivery: where the cited transport contracts stop -- call-site obligations (two of them fail on the pinned tree: known findings)
# ---------------------------------------------------------------------------------------------------
def task_delivery_sites():
    """C02 carries a message of any length only with the junk threshold disabled; C19/C02 order one connection.  (T) needs both for the
    channel that feeds the mirror."""
    def task(I, run):
        if run.choice(2, "which call site") == 0:
            mod = I.import_module("indi.transport.client.tcp")
            h = I.call(mod.ns["ConnectionHandler"], [None, None, None], {"for_blobs": False})
            th = h.fields["buffer"].fields["max_buffer_size_before_frontal_cleanup"]
            run.oblige("C01|call-site/the-client's-control-connection-can-carry-a-definition-or-update-of-any-length", z3.BoolVal(th is None),
                       note="threshold is %r" % (th,), witness=lambda m: {"replay_kind": "converge.long_message"})
            return
        # Client.start: how many connections deliver into the one mirror?
        cl = I.import_module("indi.client.client").ns["Client"]
        feeds = []

        class Conn:
            def __init__(self, tag):
                self.tag = tag

            def pyvc_getattr(self, I_, name):
                if name == "connect":
                    def connect(I2, a, k):
                        feeds.append((self.tag, a[0] if a else k.get("callback")))
                        return Handler(self.tag)
                    return Native("connect", connect)
                return MISSING

        class Handler:
            def __init__(self, tag):
                self.tag = tag

            def pyvc_getattr(self, I_, name):
                if name in ("wait_for_messages", "send_message", "close"):
                    return Native(name, lambda I2, a, k: None)
                return MISSING
        c = I.call(cl, [Conn("control"), Conn("blob")], {})
        I.await_hook = lambda I_, v: v
        asy = I.import_module("asyncio")

        class Loop:
            def pyvc_getattr(self, I_, name):
                if name == "create_task":
                    return Native(name, lambda I2, a, k: None)
                return MISSING
        asy.ns["get_running_loop"] = Native("get_running_loop", lambda I_, a, k: Loop())
        try:
            I.do_await(I.call(I.getattr(c, "start"), [], {}))
        except IRaise as e:
            run.fail("C01|call-site/Client.start-raises-nothing", "raised %s" % e)
            return
        pm = [t for t, cb in feeds if isinstance(cb, IBound) and cb.func.name == "process_message" and cb.self_ is c]
        run.oblige("C01|call-site/one-ordered-channel-feeds-the-mirror(definitions-and-updates-cannot-overtake-each-other)", z3.BoolVal(len(pm) == 1),
                   note="connections delivering into the mirror: %r" % (pm,), witness=lambda m: {"replay_kind": "converge.two_links"})
    return task
