"""C10 -- number rendering and parsing: contracts on the real num_to_str, str_to_num and checks.number.

Spec side (from the statement, not from the code):
  * the INDI denotation D(text): a plain text denotes its decimal value; a sexagesimal text
    sign? w sep m [sep s] denotes  sgn * (w + m/60 + s/3600)  -- the sign applies to the whole magnitude;
  * resolution(fmt): %.Pf -> 10**-P, %d -> 1, %.3m -> 1/60, %.5m -> 1/600, %.6m -> 1/3600, %.8m -> 1/36000, %.9m -> 1/360000.
Decimal notation itself (what float()/int() make of a digit string) is the assumed contract of the converters:
`value_of` is an uninterpreted function, float_ok / int_ok are assumed on texts of the decimal grammar.
"""
import z3
from pyvc import smt
from pyvc.smt import VStr, VInt, VReal, get_s, get_x, get_i, is_real, is_int, is_str, is_none, S
from pyvc.values import Sym
from pyvc.interp import IRaise, PathEnd
from pyvc.numfmt import value_of, note, parse_printf
from pyvc.numparse import float_ok, int_ok
from pyvc.regex import pieces_of, piece_language, regex_empty

DG = z3.Range("0", "9")
RESOLUTION = {3: (1, 60), 5: (1, 600), 6: (1, 3600), 8: (1, 36000), 9: (1, 360000)}


def resolution(fmt):
    if fmt.endswith("m"):
        a, b = RESOLUTION[int(fmt[:-1].split(".")[1])]
        return z3.RealVal(a) / b
    flags, width, prec, conv = parse_printf(fmt)
    return z3.RealVal(1) if conv in "di" else z3.RealVal(1) / (10 ** prec)


def denote_rendered(I, text):
    """D(text) for a text made of recorded pieces and literal ':' separators; None when the text has not that shape"""
    ps = pieces_of(text)
    fields, cur = [], []
    for p in ps:
        if z3.is_string_value(p) and p.as_string() == ":":
            fields.append(cur)
            cur = []
        else:
            cur.append(p)
    fields.append(cur)
    if len(fields) == 1:
        return value_of(S(text))
    sgn = 1
    if fields[0] and z3.is_string_value(fields[0][0]) and fields[0][0].as_string() in ("-", "+"):
        sgn = -1 if fields[0][0].as_string() == "-" else 1
        fields[0] = fields[0][1:]
    if len(fields) not in (2, 3) or any(len(f) != 1 for f in fields):
        return None
    total = z3.RealVal(0)
    for i, f in enumerate(fields):
        lang = piece_language(I, f[0])
        # a field is an unsigned decimal
        if lang is None or not regex_empty(z3.Intersect(lang, z3.Complement(z3.Concat(z3.Plus(DG), z3.Option(z3.Concat(z3.Re("."), z3.Star(DG))))))):
            return None
        total = total + value_of(f[0]) / (60 ** i)
    return sgn * total


def absdiff_le(a, b, tol):
    return z3.And(a - b <= tol, b - a <= tol)


def as_real(t):
    return z3.If(is_real(t), get_x(t), z3.ToReal(get_i(t)))


def task_render(fmt, argkind):
    """num_to_str(n, fmt) for EVERY finite n: accepted by the validator, denotes n within the resolution, parses back within it"""
    def task(I, run):
        vals = I.import_module("indi.device.values")
        chk = I.import_module("indi.message.checks")
        if argkind == "int":
            n = Sym(VInt(I.fresh("n", z3.IntSort())))
            nr = z3.ToReal(get_i(n.term))
        else:
            n = Sym(VReal(I.fresh("n", z3.RealSort())))
            nr = get_x(n.term)
        label = "render[%s,%s]" % (fmt, argkind)
        run.explorer.witness = lambda m: {"replay_kind": "number.render", "fmt": fmt, "n": str(m.eval(nr, model_completion=True)), "argkind": argkind}
        try:
            text = I.call(vals.ns["num_to_str"], [n, fmt], {})
        except IRaise as e:
            run.fail("C10|%s/renders-every-finite-value" % label, "num_to_str raised %s" % e)
            return
        ok = isinstance(text, str) or (isinstance(text, Sym) and I.kind(text) == "str")
        run.oblige("C10|%s/renders-a-text" % label, z3.BoolVal(bool(ok)))
        if not ok:
            return
        try:
            r = I.call(chk.ns["number"], [text], {})
        except IRaise as e:
            run.fail("C10|%s/the-text-is-accepted-by-the-library's-validator" % label, "checks.number raised %s" % e)
            return
        tt = I.to_term(text)
        d = denote_rendered(I, get_s(tt))
        run.oblige("C10|%s/the-text-has-number-shape(plain-or-sign-and-2-or-3-unsigned-fields)" % label, z3.BoolVal(d is not None))
        res = resolution(fmt)
        if d is not None:
            run.oblige("C10|%s/denotes-the-value-within-the-format's-resolution(sign-on-the-whole-magnitude)" % label, absdiff_le(d, nr, res))
        try:
            back = I.call(vals.ns["str_to_num"], [text, fmt], {})
        except IRaise as e:
            run.fail("C10|%s/the-rendered-text-parses-back" % label, "str_to_num raised %s" % e)
            return
        bt = I.to_term(back)
        run.oblige("C10|%s/parses-back-to-a-number" % label, z3.Or(is_real(bt), is_int(bt)))
        run.oblige("C10|%s/parses-back-to-the-value-within-the-same-tolerance" % label, absdiff_le(as_real(bt), nr, res))
        run.canary("C10|canary[%s]/always-renders-zero" % label, d == 0 if d is not None else z3.BoolVal(False))
    return task


# ---------------------------------------------------------------------------------------------------
# parsing: every text of the INDI number grammar
# ---------------------------------------------------------------------------------------------------
SIGN = z3.Option(z3.Union(z3.Re("-"), z3.Re("+")))
SEP = z3.Union(z3.Re(":"), z3.Re(";"), z3.Re(" "))
FORMS = {
    # name: list of (piece name, language, role)
    "integer": [("sign", SIGN, "sign"), ("w", z3.Plus(DG), "plain")],
    "decimal": [("sign", SIGN, "sign"), ("w", z3.Union(z3.Concat(z3.Plus(DG), z3.Re("."), z3.Star(DG)), z3.Concat(z3.Re("."), z3.Plus(DG))), "plain")],
    "d:mm": [("sign", SIGN, "sign"), ("w", z3.Plus(DG), "f0"), ("sep1", SEP, "sep"), ("m", z3.Concat(DG, DG), "f1")],
    "d:mm.m": [("sign", SIGN, "sign"), ("w", z3.Plus(DG), "f0"), ("sep1", SEP, "sep"), ("m", z3.Concat(DG, DG, z3.Re("."), z3.Plus(DG)), "f1")],
    "d:mm:ss": [("sign", SIGN, "sign"), ("w", z3.Plus(DG), "f0"), ("sep1", SEP, "sep"), ("m", z3.Concat(DG, DG), "f1"), ("sep2", SEP, "sep"),
                ("s", z3.Concat(DG, DG), "f2")],
    "d:mm:ss.s": [("sign", SIGN, "sign"), ("w", z3.Plus(DG), "f0"), ("sep1", SEP, "sep"), ("m", z3.Concat(DG, DG), "f1"), ("sep2", SEP, "sep"),
                  ("s", z3.Concat(DG, DG, z3.Re("."), z3.Plus(DG)), "f2")],
}


def task_parse(form, fmt):
    """str_to_num(text, fmt) for EVERY text of one form of the INDI number grammar and the validator on that text"""
    def task(I, run):
        vals = I.import_module("indi.device.values")
        chk = I.import_module("indi.message.checks")
        pieces, roles = [], {}
        for nm, lang, role in FORMS[form]:
            p = I.fresh("txt_" + nm, z3.StringSort())
            run.assume(z3.InRe(p, lang))
            note(I, p, lang)
            pieces.append(p)
            roles.setdefault(role, []).append(p)
        text = z3.Concat(*pieces)
        sign = roles["sign"][0]
        sgn = z3.If(sign == z3.StringVal("-"), z3.RealVal(-1), z3.RealVal(1))
        # ASSUMED contract of float()/int() on decimal notation: they accept it (with an optional sign); the value of a signed
        # text is the signed value of its digits; an integer text denotes an integer
        if "plain" in roles:
            body = roles["plain"][0]
            run.assume(z3.And(float_ok(text), value_of(text) == sgn * value_of(body), value_of(body) >= 0))
            if form == "integer":
                k = I.fresh("digits_value", z3.IntSort())
                sk = z3.If(sign == z3.StringVal("-"), -k, k)
                run.assume(z3.And(int_ok(text), k >= 0, value_of(body) == z3.ToReal(k), value_of(text) == z3.ToReal(sk), z3.ToInt(value_of(text)) == sk))
            d = value_of(text)
        else:
            d = z3.RealVal(0)
            for i, r in enumerate(("f0", "f1", "f2")):
                if r in roles:
                    f = roles[r][0]
                    run.assume(z3.And(float_ok(f), int_ok(f) if r == "f0" else z3.BoolVal(True), value_of(f) >= 0))
                    d = d + value_of(f) / (60 ** i)
            d = sgn * d
        label = "parse[%s as %s]" % (form, fmt)
        T = Sym(VStr(text))

        def wit(m):
            return {"replay_kind": "number.parse", "text": m.eval(text, model_completion=True).as_string(), "fmt": fmt}
        run.explorer.witness = wit
        try:
            I.call(chk.ns["number"], [T], {})
        except IRaise as e:
            run.fail("C10|%s/the-validator-lets-the-text-through" % label, "checks.number raised %s" % e)
            return
        try:
            r = I.call(vals.ns["str_to_num"], [T, fmt], {})
        except IRaise as e:
            run.fail("C10,C06|%s/is-parsed" % label, "str_to_num raised %s" % e)
            return
        rt = I.to_term(r)
        run.oblige("C10|%s/yields-a-number" % label, z3.Or(is_real(rt), is_int(rt)))
        run.oblige("C10,C06|%s/yields-the-value-the-text-denotes(sign-on-the-whole-magnitude)" % label, as_real(rt) == d)
        run.canary("C10|canary[%s]/always-zero" % label, as_real(rt) == 0)
    return task


def task_reject():
    """the validator rejects (ValueError, nothing else) what is not a number text, for ANY text"""
    def task(I, run):
        chk = I.import_module("indi.message.checks")
        from contracts.codec import number_language
        t = I.fresh("any_text", z3.StringSort())
        T = Sym(VStr(t))
        try:
            I.call(chk.ns["number"], [T], {})
        except IRaise as e:
            if e.value.cls.name != "ValueError":
                run.fail("C10|validator/raises-only-ValueError", "raised %s" % e)
            raise PathEnd()
        run.oblige("C10|validator/accepts-only-texts-of-the-INDI-number-grammar", z3.InRe(t, z3.Concat(number_language(), z3.Option(z3.Re("\n")))))
    return task


PRINTF_QUICK = ["%f", "%d", "%.2f", "%8.2f", "%-8.3f", "%+d", "%+.1f", "% .3f", "%08.2f", "%05d", "%#.0f", "%.0f", "%+08.1f", "%12.6f", "%3d", "%- 6d", "%i"]
SEXA = ["%.3m", "%.5m", "%.6m", "%.8m", "%.9m", "%10.6m", "%12.9m"]


def printf_all():
    import itertools
    out = []
    for k in range(0, 6):
        for fl in itertools.combinations("-+ 0#", k):
            for w in ("", "1", "5", "12"):
                for p in ("", ".0", ".1", ".3", ".6"):
                    for c in "df":
                        out.append("%" + "".join(fl) + w + p + c)
    return out
