"""Native oracles for the driver-side properties (C12, C14, C06, C07), from the statements."""
from registry import kind


def make_device():
    from indi.device import Driver, properties
    from indi.routing import Router, Client

    class Dev(Driver):
        name = "DEV"
        main = properties.Group("MAIN", vectors=dict(
            text=properties.TextVector("TEXT", elements=dict(a=properties.Text("A", default="x"), b=properties.Text("B", default="y"))),
            number=properties.NumberVector("NUMBER", elements=dict(n=properties.Number("N", default=1.0, min=0, max=10),
                                                                   s=properties.Number("S", default=1.5, format="%.3m", min=0, max=10))),
            switch=properties.SwitchVector("SWITCH", rule="OneOfMany", default_on="A",
                                           elements=dict(a=properties.Switch("A"), b=properties.Switch("B"))),
            blob=properties.BLOBVector("BLOB", elements=dict(b=properties.BLOB("B"))),
            light=properties.LightVector("LIGHT", elements=dict(l=properties.Light("L"))),
        ))

    class Rec(Client):
        def __init__(self):
            self.got = []

        def message_from_device(self, m):
            self.got.append(m)
    r = Router()
    c = Rec()
    r.register_client(c)
    d = Dev(router=r)
    return r, c, d


def snapshot(d):
    return {v.name: {e.name: (e._value if not hasattr(e._value, "binary") else ("BLOB", e._value.binary, e._value.format))
                     for e in v._elements.values()} for v in d._vectors.values()}


@kind("driver.hostile")
def hostile(w):
    """fault catalogue for one (message kind, target property kind): nothing may be raised out of
    Router.process_message and nothing but validly named elements of the addressed property may change"""
    from indi import message as M
    from indi.message import one_parts as P
    r, c, d = make_device()
    target = {"text": "TEXT", "number": "NUMBER", "switch": "SWITCH", "blob": "BLOB", "light": "LIGHT"}.get(w.get("target"), "NOPE")
    mk = {"NewTextVector": (M.NewTextVector, lambda n, v: P.OneText(name=n, value=v)),
          "NewNumberVector": (M.NewNumberVector, lambda n, v: P.OneNumber(name=n, value=v)),
          "NewSwitchVector": (M.NewSwitchVector, lambda n, v: P.OneSwitch(name=n, value=v)),
          "NewBLOBVector": (M.NewBLOBVector, lambda n, v: P.OneBLOB(name=n, value=v[0], size=v[1], format=".x"))}.get(w.get("message"))
    if mk is None:
        return {"reproduced": False, "detail": "no catalogue for %r" % (w.get("message"),)}
    cls, part = mk
    values = {"NewTextVector": ["zz", "", None], "NewNumberVector": ["1", "1.5", "1:30", "0"], "NewSwitchVector": ["On", "Off"],
              "NewBLOBVector": [("YWJj", "3"), ("YWJj", "99"), ("YWJj", "abc"), ("", "0"), (None, "3"), ("!!!", "3")]}[w["message"]]
    names = ["A", "B", "N", "S", "L", "NOPE"]
    probs = []
    for n in names:
        for v in values:
            for dup in (False, True):
                try:
                    ch = (part(n, v),) * (2 if dup else 1)
                    msg = cls(device="DEV", name=target, children=ch)
                except Exception:
                    continue
                before = snapshot(d)
                try:
                    r.process_message(msg, sender=c)
                except Exception as e:
                    probs.append("%s(name=%s){%s=%r} raised %r" % (w["message"], target, n, v, e))
                    if len(probs) > 2:
                        break
                    continue
                after = snapshot(d)
                for vn in after:
                    if vn != target and after[vn] != before[vn]:
                        probs.append("property %s changed by a message addressed to %s" % (vn, target))
    try:
        r.process_message(cls(device="DEV", name=target, children=()), sender=c)
    except Exception as e:
        probs.append("message without children raised %r" % (e,))
    return {"reproduced": bool(probs), "detail": "; ".join(probs[:3]) or "catalogue handled without exception or collateral change"}
