"""Native oracles for the driver-side properties (C12, C14, C06, C07), from the statements."""
from registry import kind


def make_device():
    from indi.device import Driver, properties
    from indi.routing import Router, Client

    class Dev(Driver):
        name = "DEV"
        main = properties.Group("MAIN", vectors=dict(
            text=properties.TextVector("TEXT", elements=dict(a=properties.Text("A", default="x"), b=properties.Text("B", default="y"))),
            number=properties.NumberVector("NUMBER", elements=dict(n=properties.Number("N", default=1.0, min=0, max=10),
                                                                   s=properties.Number("S", default=1.5, format="%.3m", min=0, max=10))),
            switch=properties.SwitchVector("SWITCH", rule="OneOfMany", default_on="A",
                                           elements=dict(a=properties.Switch("A"), b=properties.Switch("B"))),
            blob=properties.BLOBVector("BLOB", elements=dict(b=properties.BLOB("B"))),
            light=properties.LightVector("LIGHT", elements=dict(l=properties.Light("L"))),
        ))

    class Rec(Client):
        def __init__(self):
            self.got = []

        def message_from_device(self, m):
            self.got.append(m)
    r = Router()
    c = Rec()
    r.register_client(c)
    d = Dev(router=r)
    return r, c, d


def snapshot(d):
    return {v.name: {e.name: (e._value if not hasattr(e._value, "binary") else ("BLOB", e._value.binary, e._value.format))
                     for e in v._elements.values()} for v in d._vectors.values()}


@kind("driver.hostile")
def hostile(w):
    """fault catalogue for one (message kind, target property kind): nothing may be raised out of
    Router.process_message and nothing but validly named elements of the addressed property may change"""
    from indi import message as M
    from indi.message import one_parts as P
    r, c, d = make_device()
    target = {"text": "TEXT", "number": "NUMBER", "switch": "SWITCH", "blob": "BLOB", "light": "LIGHT"}.get(w.get("target"), "NOPE")
    mk = {"NewTextVector": (M.NewTextVector, lambda n, v: P.OneText(name=n, value=v)),
          "NewNumberVector": (M.NewNumberVector, lambda n, v: P.OneNumber(name=n, value=v)),
          "NewSwitchVector": (M.NewSwitchVector, lambda n, v: P.OneSwitch(name=n, value=v)),
          "NewBLOBVector": (M.NewBLOBVector, lambda n, v: P.OneBLOB(name=n, value=v[0], size=v[1], format=".x"))}.get(w.get("message"))
    if mk is None:
        return {"reproduced": False, "detail": "no catalogue for %r" % (w.get("message"),)}
    cls, part = mk
    values = {"NewTextVector": ["zz", "", None], "NewNumberVector": ["1", "1.5", "1:30", "0", None, "", "9" * 400 + ".0", "9" * 400, "1" + "0" * 400 + ":30", "-" + "9" * 400 + ".5"], "NewSwitchVector": ["On", "Off"],
              "NewBLOBVector": [("YWJj", "3"), ("YWJj", "99"), ("YWJj", "abc"), ("", "0"), (None, "3"), ("!!!", "3")]}[w["message"]]
    names = ["A", "B", "N", "S", "L", "NOPE"]
    probs = []
    for n in names:
        for v in values:
            for dup in (False, True):
                try:
                    ch = (part(n, v),) * (2 if dup else 1)
                    msg = cls(device="DEV", name=target, children=ch)
                except Exception:
                    continue
                before = snapshot(d)
                try:
                    r.process_message(msg, sender=c)
                except Exception as e:
                    probs.append("%s(name=%s){%s=%r} raised %r" % (w["message"], target, n, v, e))
                    if len(probs) > 2:
                        break
                    continue
                after = snapshot(d)
                for vn in after:
                    if vn != target and after[vn] != before[vn]:
                        probs.append("property %s changed by a message addressed to %s" % (vn, target))
                bad_num = [k for k, x in d._vectors["NUMBER"]._elements.items() if not isinstance(x._value, (int, float))] if "NUMBER" in d._vectors else []
                if bad_num:
                    probs.append("%s(name=%s){%s=%r}: number element(s) %s no longer hold a number" % (w["message"], target, n, v, bad_num))
    try:
        r.process_message(cls(device="DEV", name=target, children=()), sender=c)
    except Exception as e:
        probs.append("message without children raised %r" % (e,))
    return {"reproduced": bool(probs), "detail": "; ".join(probs[:3]) or "catalogue handled without exception or collateral change"}


def publish_reads(kindname):
    """plain Read handlers run before an element is published, so that they can refresh it: every kind, publication through an
    assignment to a sibling element and through getProperties-independent to_set_message of the property"""
    from indi.device import Driver, properties, values
    from indi.device.events import on, Read
    from indi.routing import Router, Client
    probs = []
    fresh = {"text": "refreshed", "number": 4.5, "light": "Alert", "blob": values.BLOB(b"fresh", ".f"), "switch": "On"}[kindname]
    mk = {"text": lambda n: properties.Text(n, default="old"), "number": lambda n: properties.Number(n, default=1.0),
          "light": lambda n: properties.Light(n, default="Ok"), "blob": lambda n: properties.BLOB(n), "switch": lambda n: properties.Switch(n)}[kindname]
    vec_cls = {"text": properties.TextVector, "number": properties.NumberVector, "light": properties.LightVector, "blob": properties.BLOBVector,
               "switch": properties.SwitchVector}[kindname]
    kw = {"rule": "AnyOfMany"} if kindname == "switch" else {}
    grp = properties.Group("MAIN", vectors=dict(v=vec_cls("V", elements=dict(e=mk("E"), f=mk("F")), **kw)))
    calls = []

    def h(self, ev):
        calls.append(1)
        ev.element.reset_value(fresh)
    Dev = type(Driver)("Dev", (Driver,), {"name": "DEV", "main": grp, "rd": on(grp.v.e, Read)(h)})
    got = []

    class Rec(Client):
        def message_from_device(self, m):
            got.append(m)
    r = Router()
    c = Rec()
    r.register_client(c)
    from indi import message as M
    r.process_message(M.EnableBLOB(device="DEV", value="Also"), sender=c)
    d = Dev(router=r)
    msg = d.main.v.to_set_message()
    if not calls:
        probs.append("%s: publishing the property did not run the element's plain Read handler" % kindname)
    ch = [x for x in msg.children if x.name == "E"][0]
    shown = ch.value
    ok = {"text": lambda: shown == "refreshed", "number": lambda: shown is not None and float(shown) == 4.5, "light": lambda: shown == "Alert",
          "switch": lambda: shown == "On",
          "blob": lambda: shown == values.BLOB(b"fresh", ".f").binary_base64 and ch.format == ".f" and int(ch.size) == 5}[kindname]()
    if not ok:
        probs.append("%s: the update carries %r, not the value the Read handler refreshed" % (kindname, shown))
    return {"reproduced": bool(probs), "detail": "; ".join(probs) or "Read handlers ran before publication and the update carries the refreshed value"}


@kind("driver.events")
def events_oracle(w):
    """C14 natively: configurable numbers of plain/coroutine/vetoing handlers on one element;
    checks exactly-once invocation, order Write -> store+publication -> Change, veto semantics."""
    import asyncio
    from indi.device import Driver, properties
    from indi.device.events import on, Write, Change, Read
    from indi.routing import Router, Client
    from indi import message
    kindname = w.get("kind", "text")
    op = w.get("op", "set_value")
    probs = []
    if op == "publish":
        return publish_reads(kindname)

    async def scenario(n_plain_w, n_coro_w, veto, n_change, same_value):
        log = []
        el_def = {"text": properties.Text("E", default="old"), "number": properties.Number("E", default=1.0, min=0, max=9),
                  "light": properties.Light("E", default="Ok"), "blob": properties.BLOB("E"), "switch": properties.Switch("E")}[kindname]
        vec_cls = {"text": properties.TextVector, "number": properties.NumberVector, "light": properties.LightVector, "blob": properties.BLOBVector,
                   "switch": properties.SwitchVector}[kindname]
        vkw = {"rule": "AnyOfMany"} if kindname == "switch" else {}

        grp = properties.Group("MAIN", vectors=dict(v=vec_cls("V", elements=dict(e=el_def, f=properties.Switch("F")) if kindname == "switch" else dict(e=el_def), **vkw)))
        dct = {"name": "DEV", "main": grp}

        class _NS:
            pass
        Dev = _NS()
        Dev.main = grp
        for i in range(n_plain_w):
            def h(self, ev, i=i):
                log.append(("write", i, self.main.v.e._value, ev.new_value))
                if veto and i == 0:
                    ev.prevent_default = True
            dct["pw%d" % i] = on(grp.v.e, Write)(h)
        for i in range(n_coro_w):
            async def hc(self, ev, i=i):
                log.append(("write-coro", i, self.main.v.e._value, ev.new_value))
            dct["cw%d" % i] = on(grp.v.e, Write)(hc)
        for i in range(n_change):
            def hch(self, ev, i=i):
                log.append(("change", i, ev.old_value, ev.new_value, self.main.v.e._value))
            dct["ch%d" % i] = on(grp.v.e, Change)(hch)
        Dev = type(Driver)("Dev", (Driver,), dct)

        class Rec(Client):
            def message_from_device(self, m):
                log.append(("publish", [c.value for c in m.children]))
        r = Router()
        rec = Rec()
        r.register_client(rec)
        r.process_message(message.EnableBLOB(device="DEV", value="Also"), sender=rec)
        d = Dev(router=r)
        e = d.main.v.e
        old = e._value
        from indi.device import values
        new = {"text": "old" if same_value else "new", "number": 1.0 if same_value else 2.0, "light": "Ok" if same_value else "Busy",
               "blob": values.BLOB(b"abc", ".x"), "switch": "Off" if same_value else "On"}[kindname]
        if op == "assign":
            e.value = new
        elif op in ("set_value", "write"):
            e.set_value(new)
        else:
            _ = e.value
        sync_log = list(log)
        await asyncio.sleep(0)
        await asyncio.sleep(0)
        return old, new, sync_log, log, e._value

    async def main():
        for (npw, ncw, veto, nch, same) in [(1, 0, False, 1, False), (2, 1, False, 2, False), (1, 1, True, 1, False), (1, 0, False, 1, True), (0, 2, False, 1, False)]:
            old, new, sync_log, log, cur = await scenario(npw, ncw, veto, nch, same)
            tag = "plainW=%d coroW=%d veto=%s change=%d same=%s" % (npw, ncw, veto, nch, same)
            w_calls = [x for x in sync_log if x[0] == "write"]
            pubs = [i for i, x in enumerate(sync_log) if x[0] == "publish"]
            changes = [i for i, x in enumerate(sync_log) if x[0] == "change"]
            if op == "read":
                continue
            if op == "assign":
                if w_calls or any(x[0] == "write-coro" for x in log):
                    probs.append("%s: Write raised on direct assignment" % tag)
            else:
                if len(w_calls) != npw or any(x[2] != old for x in w_calls):
                    probs.append("%s: plain Write handlers: %d calls, values seen %r (old %r)" % (tag, len(w_calls), [x[2] for x in w_calls], old))
                if any(x[0] == "write-coro" for x in sync_log):
                    probs.append("%s: coroutine Write handler ran synchronously" % tag)
                if len([x for x in log if x[0] == "write-coro"]) != ncw:
                    probs.append("%s: coroutine Write handlers ran %d times, expected %d" % (tag, len([x for x in log if x[0] == "write-coro"]), ncw))
            vetoed = veto and op != "assign" and npw > 0
            if vetoed:
                if cur != old or pubs or changes:
                    probs.append("%s: vetoed write changed/published/raised Change" % tag)
                continue
            if cur is not new and cur != new:
                probs.append("%s: value is %r, expected %r" % (tag, cur, new))
            if len(pubs) != 1:
                probs.append("%s: %d updates published" % (tag, len(pubs)))
            changed = (old != new)
            if len(changes) != (nch if changed else 0):
                probs.append("%s: Change handlers invoked %d times (changed=%s)" % (tag, len(changes), changed))
            if pubs and changes and min(changes) < pubs[0]:
                probs.append("%s: Change raised before publication" % tag)
            if pubs and w_calls and max(i for i, x in enumerate(sync_log) if x[0] == "write") > pubs[0]:
                probs.append("%s: Write handler ran after publication" % tag)
    asyncio.run(main())
    return {"reproduced": bool(probs), "detail": "; ".join(probs[:3]) or "event contract holds on the native scenarios"}


@kind("driver.inheritance")
def inheritance(w):
    from indi.device import Driver, properties

    def g(n):
        return properties.Group(n, vectors={n.lower(): properties.TextVector("V" + n, elements=dict(e=properties.Text("E")))})

    class A(Driver):
        name = "a"
        ga = g("GA")

    class B(A):
        gb = g("GB")

    class C(B):
        gc = g("GC")
    class Dm(B):        # overrides an inherited group: the most derived declaration wins
        ga = g("GX")
    got = sorted(C()._vectors)
    got_m = sorted(Dm()._vectors)
    bad = got != ["VGA", "VGB", "VGC"] or got_m != ["VGB", "VGX"]
    return {"reproduced": bad, "detail": "C(B(A(Driver))) has properties %r; Dm(B) overriding group ga has %r" % (got, got_m)}


@kind("driver.publish")
def publish(w):
    """C07 natively: a driver with one property of every kind (numbers in several formats, set and unset
    BLOBs, enabled and disabled elements): every definition and update it emits must be read back unchanged by
    the library's own parser, and getProperties must be answered with exactly the definitions asked for."""
    from indi.device import Driver, properties, values
    from indi.routing import Router, Client
    from indi import message as M
    from indi.message import IndiMessage

    class Dev(Driver):
        name = "DEV"
        main = properties.Group("MAIN", vectors=dict(
            text=properties.TextVector("TEXT", elements=dict(a=properties.Text("A", default="x"), b=properties.Text("B", default="y", enabled=False))),
            number=properties.NumberVector("NUMBER", elements=dict(
                n=properties.Number("N", default=1.5), d=properties.Number("D", default=3, format="%d"),
                s=properties.Number("S", default=-0.25, format="%.3m"), t=properties.Number("T", default=12.999999, format="%.6m"),
                u=properties.Number("U", default=5.5, format="%.9m"), m=properties.Number("M", default=1.0, format="%.0f", min=0.5, max=9.5, step=0.25))),
            switch=properties.SwitchVector("SWITCH", rule="OneOfMany", default_on="A", elements=dict(a=properties.Switch("A"), b=properties.Switch("B"))),
            blob=properties.BLOBVector("BLOB", elements=dict(b=properties.BLOB("B"))),
            light=properties.LightVector("LIGHT", elements=dict(l=properties.Light("L"))),
            off=properties.TextVector("OFF", enabled=False, elements=dict(a=properties.Text("A"))),
        ))

    class Rec(Client):
        def __init__(self):
            self.got = []

        def message_from_device(self, m):
            self.got.append(m)
    r = Router()
    c = Rec()
    r.register_client(c)
    d = Dev(router=r)
    r.process_message(M.EnableBLOB(device="DEV", value="Also"), sender=c)
    probs = []

    def roundtrip_all(tag):
        for m in c.got:
            for ch in (getattr(m, "children", None) or ()):
                if ch.value is not None and not isinstance(ch.value, (str, int, float)):
                    probs.append("%s: %s(%s) carries an object as element content: %r" % (tag, m.__class__.__name__, getattr(m, "name", None), ch.value))
            try:
                back = IndiMessage.from_string(m.to_string())
            except Exception as e:
                probs.append("%s: own parser rejects %s(%s): %r" % (tag, m.__class__.__name__, getattr(m, "name", None), e))
                continue
            if back.to_string() != m.to_string():
                probs.append("%s: %s not read back unchanged" % (tag, m.__class__.__name__))
        del c.got[:]
    try:
        r.process_message(M.GetProperties(version="1.7"), sender=c)
    except Exception as e:
        return {"reproduced": True, "detail": "getProperties raised %r" % (e,)}
    defs = [m for m in c.got if isinstance(m, M.DefVector)]
    if sorted(m.name for m in defs) != ["BLOB", "LIGHT", "NUMBER", "SWITCH", "TEXT"]:
        probs.append("getProperties defined %r" % sorted(m.name for m in defs))
    for m in defs:
        if m.name == "NUMBER":
            meta = [(str(ch.min), str(ch.max), str(ch.step)) for ch in m.children if ch.name == "M"]
            if meta != [("0.5", "9.5", "0.25")]:
                probs.append("defNumber M carries min/max/step %r, declared 0.5 / 9.5 / 0.25" % (meta,))
        if m.name == "TEXT" and [ch.name for ch in m.children] != ["A"]:
            probs.append("disabled element listed: %r" % [ch.name for ch in m.children])
    roundtrip_all("getProperties")
    r.process_message(M.GetProperties(version="1.7", device="DEV", name="NUMBER"), sender=c)
    if [m.name for m in c.got if isinstance(m, M.DefVector)] != ["NUMBER"]:
        probs.append("named getProperties answered with %r" % [getattr(m, "name", None) for m in c.got])
    del c.got[:]
    for dev, name in (("DEV", "NOPE"), ("OTHER", None), ("OTHER", "TEXT")):
        r.process_message(M.GetProperties(version="1.7", device=dev, name=name), sender=c)
        if any(isinstance(m, M.DefVector) for m in c.got):
            probs.append("getProperties(device=%r, name=%r) elicited a definition" % (dev, name))
        del c.got[:]
    try:
        d.main.text.a.value = "z"
        d.main.number.s.value = 5.9999
        d.main.number.t.value = -1.5
        d.main.blob.b.value = values.BLOB(b"abc", ".bin")
        d.main.switch.b.bool_value = True
        d.main.number.state_ = "Busy"
    except Exception as e:
        return {"reproduced": True, "detail": "a run-time update raised %r" % (e,)}
    d.main.blob.b.value = values.BLOB(b"", ".fits")
    last = [m for m in c.got if isinstance(m, M.SetVector) and m.name == "BLOB"][-1].children[0]
    if (last.format, int(last.size), last.value or "") != (".fits", 0, ""):
        probs.append("an empty BLOB with format .fits was published with format %r size %r" % (last.format, last.size))
    busy = [m for m in c.got if isinstance(m, M.SetVector) and m.name == "NUMBER"]
    if not busy or busy[-1].state != "Busy":
        probs.append("state change not published")
    roundtrip_all("updates")
    r.process_message(M.GetProperties(version="1.7", device="DEV", name="BLOB"), sender=c)
    roundtrip_all("definition after a BLOB was set")
    r.process_message(M.GetProperties(version="1.7", device="DEV", name="NUMBER"), sender=c)
    for m in c.got:
        if isinstance(m, M.DefVector) and m.state != "Busy":
            probs.append("definition after a run-time state change carries state %r, the property is Busy" % (m.state,))
    roundtrip_all("updates")
    return {"reproduced": bool(probs), "detail": "; ".join(probs[:4]) or "all emitted messages are read back unchanged; getProperties answered exactly"}


@kind("driver.events_all")
def events_all(w):
    """bounded stand-in for C14 when a task is out of the engine's reach: the native event scenarios for every element kind and operation"""
    probs, cases = [], 0
    for k in ("text", "number", "light", "blob", "switch"):
        for op in ("assign", "set_value", "read", "publish"):
            cases += 1
            r = events_oracle({"kind": k, "op": op})
            if r.get("reproduced"):
                probs.append("%s/%s: %s" % (k, op, r["detail"]))
    return {"cases": cases, "reproduced": bool(probs), "detail": "; ".join(probs[:3]) or "event contract holds on the native scenarios",
            "failures": [{"detail": p, "reproduced": True, "witness": {"replay_kind": "driver.events_all"}} for p in probs[:3]]}


@kind("driver.hostile_all")
def hostile_all(w):
    """bounded stand-in for C12's driver obligations when a task is out of the engine's reach: the fault catalogue for every message kind x target"""
    probs, cases = [], 0
    for m in ("NewTextVector", "NewNumberVector", "NewSwitchVector", "NewBLOBVector"):
        for t in ("text", "number", "switch", "blob", "light", "nope"):
            cases += 1
            r = hostile({"message": m, "target": t})
            if r.get("reproduced"):
                probs.append("%s -> %s: %s" % (m, t, r["detail"]))
    return {"cases": cases, "reproduced": bool(probs), "detail": "; ".join(probs[:3]) or "nothing raised, nothing but validly named elements changed",
            "failures": [{"detail": p, "reproduced": True, "witness": {"replay_kind": "driver.hostile_all"}} for p in probs[:3]]}


@kind("driver.two_instances")
def two_instances(w):
    """C14 natively: two devices built from one Driver class with @on handlers; a write to one runs only its own handlers"""
    from indi.device import Driver, properties
    from indi.device.events import on, Write, Change
    from indi.routing import Router
    from indi import message as M
    from indi.message import one_parts as P

    class Focuser(Driver):
        main = properties.Group("MAIN", vectors=dict(pos=properties.NumberVector("POS", elements=dict(x=properties.Number("X", default=1.0)))))

        def __init__(self, *a, **k):
            super().__init__(*a, **k)
            self.calls = []

        @on(main.pos.x, Write)
        def on_write_x(self, event):
            self.calls.append("write")

        @on(main.pos.x, Change)
        def on_change_x(self, event):
            self.calls.append("change")
    r = Router()
    a, b = Focuser(name="A", router=r), Focuser(name="B", router=r)
    r.process_message(M.NewNumberVector(device="A", name="POS", children=(P.OneNumber(name="X", value="5"),)))
    probs = []
    if a.calls != ["write", "change"]:
        probs.append("A's handlers saw %r, expected one Write then one Change" % (a.calls,))
    if b.calls:
        probs.append("B's handlers ran (%r) for a write addressed to device A" % (b.calls,))
    return {"reproduced": bool(probs), "detail": "; ".join(probs) or "only the written device's handlers ran, once each"}
