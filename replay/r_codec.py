"""Native oracles for the codec properties (C20, C13, C03), from the statements."""
import importlib
from registry import kind


def build(d):
    mod = importlib.import_module(d["module"])
    cls = getattr(mod, d["class"])
    kw = dict(d.get("fields", {}))
    if "children" in d:
        kw["children"] = tuple(build(c) for c in d["children"])
    return cls(**kw)


def view(d):
    """structural view from the statement: kind, attributes in wire rendering (absent == None), ordered children"""
    f = {k: str(v) for k, v in d.get("fields", {}).items() if v is not None}
    return (d["module"], d["class"], tuple(sorted(f.items())), tuple(view(c) for c in d.get("children", [])))


@kind("codec.eq")
def codec_eq(w):
    if w["a"].get("too_large") or w["b"].get("too_large"):
        return {"reproduced": False, "detail": "counter-model too large"}
    try:
        a, b = build(w["a"]), build(w["b"])
    except Exception as e:
        return {"reproduced": False, "detail": "witness is not constructible: %r" % (e,)}
    try:
        got = (a == b)
    except Exception as e:
        return {"reproduced": True, "detail": "== raised %r" % (e,)}
    want = view(w["a"]) == view(w["b"])
    return {"reproduced": got != want,
            "detail": "a == b is %r but the messages are structurally %s" % (got, "equal" if want else "different")}
