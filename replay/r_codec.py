"""Native oracles for the codec properties (C20, C13, C03), from the statements."""
import importlib
from registry import kind


def build(d):
    mod = importlib.import_module(d["module"])
    cls = getattr(mod, d["class"])
    kw = dict(d.get("fields", {}))
    if "children" in d:
        kw["children"] = tuple(build(c) for c in d["children"])
    return cls(**kw)


def view(d):
    """structural view from the statement: kind, attributes in wire rendering (absent == None), ordered children"""
    f = {k: str(v) for k, v in d.get("fields", {}).items() if v is not None}
    return (d["module"], d["class"], tuple(sorted(f.items())), tuple(view(c) for c in d.get("children", [])))


@kind("codec.eq")
def codec_eq(w):
    if w["a"].get("too_large") or w["b"].get("too_large"):
        return {"reproduced": False, "detail": "counter-model too large"}
    try:
        a, b = build(w["a"]), build(w["b"])
    except Exception as e:
        return {"reproduced": False, "detail": "witness is not constructible: %r" % (e,)}
    try:
        got = (a == b)
    except Exception as e:
        return {"reproduced": True, "detail": "== raised %r" % (e,)}
    want = view(w["a"]) == view(w["b"])
    return {"reproduced": got != want,
            "detail": "a == b is %r but the messages are structurally %s" % (got, "equal" if want else "different")}


VOCAB = {"State": ("Idle", "Ok", "Busy", "Alert"), "Permissions": ("ro", "wo", "rw"),
         "SwitchRule": ("OneOfMany", "AtMostOne", "AnyOfMany"), "SwitchState": ("On", "Off"), "BLOBEnable": ("Never", "Also", "Only")}
FIELD_VOCAB = {
    "defTextVector": {"state": "State", "perm": "Permissions"}, "defNumberVector": {"state": "State", "perm": "Permissions"},
    "defSwitchVector": {"state": "State", "perm": "Permissions", "rule": "SwitchRule"}, "defBLOBVector": {"state": "State", "perm": "Permissions"},
    "defLightVector": {"state": "State"}, "setTextVector": {"state": "State"}, "setNumberVector": {"state": "State"},
    "setSwitchVector": {"state": "State"}, "setBLOBVector": {"state": "State"}, "setLightVector": {"state": "State"},
    "enableBLOB": {"value": "BLOBEnable"}, "oneLight": {"value": "State"}, "defSwitch": {"value": "SwitchState"},
    "oneSwitch": {"value": "SwitchState"}, "defLight": {"value": "State"}}
CHILD_TAG = {"defTextVector": "defText", "defNumberVector": "defNumber", "defSwitchVector": "defSwitch", "defBLOBVector": "defBLOB",
             "defLightVector": "defLight", "setTextVector": "oneText", "setNumberVector": "oneNumber", "setSwitchVector": "oneSwitch",
             "setBLOBVector": "oneBLOB", "setLightVector": "oneLight", "newTextVector": "oneText", "newNumberVector": "oneNumber",
             "newSwitchVector": "oneSwitch", "newBLOBVector": "oneBLOB"}
NUMBER_RE = r"[-+]?(\d+(\.\d*)?|\.\d+)([eE][-+]?\d+)?|[-+]?\d+[:; ]\d+(\.\d*)?([:; ]\d+(\.\d*)?)?"


def nonconformities(obj, tag):
    import re
    out = []
    for fld, voc in FIELD_VOCAB.get(tag, {}).items():
        if getattr(obj, fld, None) not in VOCAB[voc]:
            out.append("%s=%r is not in the %s vocabulary" % (fld, getattr(obj, fld, None), voc))
    if tag in ("defNumber", "oneNumber") and obj.value is not None and not re.fullmatch(NUMBER_RE, str(obj.value)):
        out.append("number value %r has no number syntax" % (obj.value,))
    return out


@kind("codec.parse")
def codec_parse(w):
    import xml.etree.ElementTree as ET
    from indi.message import IndiMessage, checks, const
    from indi.message.base import IndiMessagePart
    what = w.get("what")
    if what == "dictionary":
        try:
            checks.dictionary(w["value"], getattr(const, w["vocab"]))
        except ValueError:
            ok = w["value"] not in VOCAB[w["vocab"]]
            return {"reproduced": not ok, "detail": "checks.dictionary rejected the vocabulary member %r" % (w["value"],)}
        ok = w["value"] in VOCAB[w["vocab"]]
        return {"reproduced": not ok, "detail": "checks.dictionary(%r, %s) accepted a value outside the vocabulary" % (w["value"], w["vocab"])}
    if what == "number":
        import re
        try:
            checks.number(w["value"])
        except ValueError:
            return {"reproduced": False, "detail": "rejected"}
        v = w["value"]
        ok = v is None or re.fullmatch("(%s)\n?" % NUMBER_RE, str(v)) is not None
        return {"reproduced": not ok, "detail": "checks.number accepted %r" % (v,)}
    tag = w["tag"]
    if not isinstance(tag, str) or not tag or not (tag[0].isalpha() or tag[0] == "_"):
        return {"reproduced": False, "detail": "witness tag %r is not an XML name" % (tag,)}
    attrs = {k[5:]: v for k, v in w.items() if k.startswith("attr:") and v is not None}
    try:
        e = ET.Element(tag, attrs)
        if w.get("text") is not None:
            e.text = w["text"]
        i = 0
        while "child%d" % i in w:
            ET.SubElement(e, w["child%d" % i], {"name": "c"})
            i += 1
        is_part = tag in ("defText", "defNumber", "defSwitch", "defLight", "defBLOB", "oneText", "oneNumber", "oneSwitch", "oneBLOB") or \
            (tag == "oneLight" and False)
        root = IndiMessagePart if is_part else IndiMessage
        m = root.from_xml(e)
    except Exception as ex:
        return {"reproduced": False, "detail": "parse failed (allowed): %r" % (ex,)}
    probs = nonconformities(m, tag)
    if m.tag_name() != tag:
        probs.append("parsed <%s> as %s" % (tag, m.__class__.__name__))
    for c in getattr(m, "children", None) or ():
        if not hasattr(c, "tag_name") or c.tag_name() != CHILD_TAG.get(tag):
            probs.append("child %r is not a <%s>" % (c, CHILD_TAG.get(tag)))
        else:
            probs += nonconformities(c, c.tag_name())
    if isinstance(getattr(m, "children", None), str) and m.children:
        probs.append("children is the string %r" % (m.children,))
    return {"reproduced": bool(probs), "detail": "; ".join(probs) or "parsed message is conformant"}


@kind("codec.roundtrip")
def codec_roundtrip(w):
    from indi.message import IndiMessage
    d = w["m"]
    if d.get("too_large"):
        return {"reproduced": False, "detail": "too large"}
    try:
        m = build(d)
    except Exception as e:
        return {"reproduced": False, "detail": "witness not constructible: %r" % (e,)}
    if not isinstance(m, IndiMessage):
        return {"reproduced": False, "detail": "part-level witness (no byte-level round trip for a part alone)"}
    try:
        data = m.to_string()
        m2 = IndiMessage.from_string(data)
        data2 = m2.to_string()
    except Exception as e:
        return {"reproduced": True, "detail": "from_string(to_string(m)) raised %r for %s" % (e, d["class"])}
    probs = []
    if m2.__class__ is not m.__class__:
        probs.append("kind changed: %s -> %s" % (m.__class__.__name__, m2.__class__.__name__))

    def norm(o, textfield="value"):
        out = {}
        for k, v in o.__dict__.items():
            if k == "children":
                continue
            out[k] = None if v is None else str(v)
            if k == textfield and out[k] is not None:
                out[k] = out[k].strip() or None
        return out
    if norm(m) != {k: v for k, v in m2.__dict__.items() if k != "children"}:
        probs.append("attributes changed: %r -> %r" % (norm(m), {k: v for k, v in m2.__dict__.items() if k != "children"}))
    c1, c2 = list(getattr(m, "children", None) or ()), list(getattr(m2, "children", None) or ())
    if len(c1) != len(c2):
        probs.append("number of children changed: %d -> %d" % (len(c1), len(c2)))
    else:
        for a, b in zip(c1, c2):
            if a.__class__ is not b.__class__ or norm(a) != dict(b.__dict__):
                probs.append("child changed: %r -> %r" % (a.__dict__, b.__dict__))
    if data != data2:
        probs.append("second serialisation differs: %r vs %r" % (data, data2))
    return {"reproduced": bool(probs), "detail": "; ".join(probs) or "round trip is the identity on this message"}


@kind("codec.registry")
def codec_registry(w):
    import importlib
    from indi.message import IndiMessage
    cls = getattr(importlib.import_module(w["module"]), w["class"])
    ok = cls in IndiMessage.all_message_classes()
    return {"reproduced": not ok, "detail": "%s is %sregistered with the parser" % (w["class"], "" if ok else "NOT ")}


@kind("codec.et_sample")
def et_sample(w):
    """Bounded conformance sample of the assumed xml.etree round-trip contract."""
    import random
    import xml.etree.ElementTree as ET
    rnd = random.Random(w.get("seed", 0))
    alphabet = ["a", "Z", "0", " ", "\n", "\t", "<", ">", "&", "'", '"', "=", "/", "?", "!", "-", "]", "é", "ÿ", "Ж", "中", "\U0001F600", " ", ";"]
    cases, bad = 0, []

    def rs(n):
        return "".join(rnd.choice(alphabet) for _ in range(n))
    corpus = ["", "x", "a b", "<tag>", "&amp;", "\"q'", "a\nb", "  lead", "trail  ", "]]>", "\U0001F600", "é<&>\"'"]
    for i in range(w.get("n", 400)):
        attrs = {"k%d" % j: (rnd.choice(corpus) if rnd.random() < .5 else rs(rnd.randint(0, 6))) for j in range(rnd.randint(0, 3))}
        text = rnd.choice([None, rnd.choice(corpus), rs(rnd.randint(0, 8))])
        e = ET.Element("t%d" % (i % 3), attrs)
        e.text = text
        for c in range(rnd.randint(0, 2)):
            ce = ET.SubElement(e, "c", {"n": rs(3)})
            ce.text = rnd.choice([None, rs(4)])
        data = b'<?xml version="1.0"?>\n' + ET.tostring(e) + b"\n"
        try:
            e2 = ET.fromstring(data)
        except Exception as ex:
            bad.append("fromstring(tostring(e)) raised %r" % (ex,))
            continue
        cases += 1

        def view(x):
            return (x.tag, dict(x.attrib), x.text or None, [view(c) for c in x])
        if view(e) != view(e2):
            bad.append("%r != %r" % (view(e), view(e2)))
    return {"cases": cases, "failures": [{"detail": b, "reproduced": True} for b in bad[:3]], "falsified": bool(bad)}


@kind("codec.roundtrip_corpus")
def roundtrip_corpus(w):
    """Bounded stand-in for C03 (labelled bounded): every emittable message kind x random subsets of
    optional attributes x 0..3 children x a character-class corpus, through to_string/from_string."""
    import random
    import inspect
    from indi import message as M
    from indi.message import def_parts, one_parts
    rnd = random.Random(w.get("seed", 0))
    texts = ["x", "a b", "line one\nline two", "<&>\"'", "é Ж 中 \U0001F600", "a\tb", "0", "]]>", "-->", "x  y"]
    vec = {
        "DefTextVector": (def_parts.DefText, {"state": "Ok", "perm": "rw"}), "DefNumberVector": (def_parts.DefNumber, {"state": "Ok", "perm": "ro"}),
        "DefSwitchVector": (def_parts.DefSwitch, {"state": "Busy", "perm": "wo", "rule": "OneOfMany"}), "DefLightVector": (def_parts.DefLight, {"state": "Idle"}),
        "DefBLOBVector": (def_parts.DefBLOB, {"state": "Alert", "perm": "rw"}),
        "SetTextVector": (one_parts.OneText, {"state": "Ok"}), "SetNumberVector": (one_parts.OneNumber, {"state": "Ok"}),
        "SetSwitchVector": (one_parts.OneSwitch, {"state": "Ok"}), "SetLightVector": (one_parts.OneLight, {"state": "Ok"}),
        "SetBLOBVector": (one_parts.OneBLOB, {"state": "Ok"}),
        "NewTextVector": (one_parts.OneText, {}), "NewNumberVector": (one_parts.OneNumber, {}), "NewSwitchVector": (one_parts.OneSwitch, {}),
        "NewBLOBVector": (one_parts.OneBLOB, {}),
    }

    def part(pc, i):
        kw = {"name": "e%d" % i}
        nm = pc.__name__
        if "Switch" in nm:
            kw["value"] = rnd.choice(["On", "Off"])
        elif "Light" in nm:
            kw["value"] = rnd.choice(["Idle", "Ok", "Busy", "Alert"])
        elif "Number" in nm:
            kw["value"] = rnd.choice(["1", "-2.5", "3:30", "0", "12:30:15.5"])
        else:
            kw["value"] = rnd.choice(texts + [None])
        if nm == "DefNumber":
            kw.update(format="%.2f", min=rnd.choice([0, 1, "0"]), max=10, step=rnd.choice([0, 1]))
        if nm == "OneBLOB":
            kw.update(size=rnd.choice([0, 3]), format=".fits")
        if nm.startswith("Def") and rnd.random() < .5:
            kw["label"] = rnd.choice(texts + [""])
        return {"class": nm, "module": pc.__module__, "fields": kw}
    cases, failures = 0, []
    for it in range(w.get("n", 300)):
        name = rnd.choice(list(vec) + ["GetProperties", "EnableBLOB", "DelProperty", "Message", "PingRequest", "PingReply"])
        cls = getattr(M, name)
        kw = {}
        if name in vec:
            pc, base = vec[name]
            kw.update(device=rnd.choice(["CAM", "é dev", "a<b"]), name=rnd.choice(["P", "x y"]), **base)
            for opt in ("label", "group", "timestamp", "message", "timeout"):
                if opt in inspect.signature(cls.__init__).parameters or any(opt in inspect.signature(c.__init__).parameters for c in cls.__mro__ if hasattr(c, "__init__") and c is not object):
                    if rnd.random() < .5:
                        kw[opt] = rnd.choice(texts + [0, ""]) if opt != "timeout" else rnd.choice([0, 1, "60"])
            d = {"class": name, "module": cls.__module__, "fields": kw, "children": [part(pc, i) for i in range(rnd.randint(0, 3))]}
        else:
            if name == "GetProperties":
                kw = {"version": "1.7"}
                if rnd.random() < .5:
                    kw["device"] = rnd.choice(texts)
                if rnd.random() < .5:
                    kw["name"] = rnd.choice(texts)
            elif name == "EnableBLOB":
                kw = {"device": rnd.choice(texts), "value": rnd.choice(["Never", "Also", "Only"])}
            elif name == "DelProperty":
                kw = {"device": "CAM"}
                if rnd.random() < .5:
                    kw["name"] = rnd.choice(texts)
            elif name == "Message":
                kw = {k: rnd.choice(texts + [""]) for k in ("device", "timestamp", "message") if rnd.random() < .6}
            else:
                kw = {"uid": rnd.choice(texts)}
            d = {"class": name, "module": cls.__module__, "fields": kw}
        cases += 1
        r = codec_roundtrip({"m": d})
        if r.get("reproduced"):
            failures.append({"detail": r["detail"], "witness": {"replay_kind": "codec.roundtrip", "m": d}, "reproduced": True})
            if len(failures) >= 3:
                break
    return {"cases": cases, "failures": failures}


REQUIRED_ATTRS = {"defTextVector": ("device", "name", "state", "perm"), "defNumberVector": ("device", "name", "state", "perm"),
                  "defSwitchVector": ("device", "name", "state", "perm", "rule"), "defBLOBVector": ("device", "name", "state", "perm"),
                  "defLightVector": ("device", "name", "state"), "setTextVector": ("device", "name"), "setNumberVector": ("device", "name"),
                  "setSwitchVector": ("device", "name"), "setBLOBVector": ("device", "name"), "setLightVector": ("device", "name"),
                  "newTextVector": ("device", "name"), "newNumberVector": ("device", "name"), "newSwitchVector": ("device", "name"),
                  "newBLOBVector": ("device", "name"), "enableBLOB": ("device",), "delProperty": ("device",), "getProperties": ("version",)}


@kind("codec.parse_corpus")
def parse_corpus(w):
    """bounded stand-in for C13 when a task is out of the engine's reach: every vector tag x every constrained field perturbed (absent, empty,
    wrong case, foreign vocabulary member, python-internal looking, arbitrary) x children of every other kind; parsing must fail or yield a
    conformant message"""
    import xml.etree.ElementTree as ET
    from indi.message import IndiMessage
    bad_values = [None, "", "ok", "OK", "Idle ", "rw ", "On", "Never", "indi.message.const", "__module__", "None", "1", "\xe9"]
    probs, cases = [], 0
    child_attrs = {"defNumber": {"name": "c", "format": "%f", "min": "0", "max": "1", "step": "1"}, "oneBLOB": {"name": "c", "size": "0", "format": ""}}
    for tag, req in REQUIRED_ATTRS.items():
        base = {"device": "D", "name": "P", "state": "Ok", "perm": "rw", "rule": "OneOfMany", "version": "1.7"}
        base = {k: v for k, v in base.items() if k in req or k in ("device", "name")}
        variants = [dict(base)]
        for fld in list(base) + list(FIELD_VOCAB.get(tag, {})):
            for bv in bad_values:
                v = dict(base)
                if bv is None:
                    v.pop(fld, None)
                else:
                    v[fld] = bv
                variants.append(v)
        for attrs in variants:
            texts = [None] if tag != "enableBLOB" else [None, "Also", "also", "Sometimes", ""]
            for text in texts:
                kids = [None] + sorted(set(CHILD_TAG.values()) | {"junk"}) if tag in CHILD_TAG else [None]
                for kid in kids:
                    e = ET.Element(tag, {k: v for k, v in attrs.items() if k != "value"})
                    if text is not None:
                        e.text = text
                    if kid is not None:
                        k = ET.SubElement(e, kid, child_attrs.get(kid, {"name": "c"}))
                        k.text = {"defSwitch": "On", "oneSwitch": "Off", "defLight": "Ok", "oneLight": "Busy", "defNumber": "1", "oneNumber": "x1"}.get(kid, "t")
                    cases += 1
                    try:
                        m = IndiMessage.from_xml(e)
                    except Exception:
                        continue
                    p = nonconformities(m, tag)
                    if m.tag_name() != tag:
                        p.append("parsed <%s> as %s" % (tag, m.__class__.__name__))
                    for a in req:
                        if getattr(m, a, None) is None:
                            p.append("required attribute %s absent" % a)
                    for c in getattr(m, "children", None) or ():
                        if not hasattr(c, "tag_name") or c.tag_name() != CHILD_TAG.get(tag):
                            p.append("child %r is not a <%s>" % (c, CHILD_TAG.get(tag)))
                        else:
                            p += nonconformities(c, c.tag_name())
                    if p:
                        probs.append("%s %r text=%r child=%s: %s" % (tag, attrs, text, kid, "; ".join(p)))
                        if len(probs) >= 3:
                            return {"cases": cases, "reproduced": True, "detail": "; ".join(probs),
                                    "failures": [{"detail": x, "reproduced": True, "witness": {"replay_kind": "codec.parse_corpus"}} for x in probs]}
    # number values: texts with a numeric prefix or suffix only, wrong separators, too many fields
    from indi.message.base import IndiMessagePart
    for tag in ("oneNumber", "defNumber"):
        for text in ("1.5abc", "abc1.5", "1e5", "0x10", "1,5", "12:3", "12:30:15:10", "12:30:", ":30", "1.5 2", "--1", "1..5", "12;30;", "1.5\n2", "NaN", "inf", "1_000"):
            e = ET.Element(tag, child_attrs.get(tag, {"name": "c"}) if tag == "defNumber" else {"name": "c"})
            e.text = text
            cases += 1
            try:
                m = IndiMessagePart.from_xml(e)
            except Exception:
                continue
            p = nonconformities(m, tag)
            if p:
                probs.append("%s text=%r: %s" % (tag, text, "; ".join(p)))
                if len(probs) >= 3:
                    break
    if probs:
        return {"cases": cases, "reproduced": True, "detail": "; ".join(probs[:3]),
                "failures": [{"detail": x, "reproduced": True, "witness": {"replay_kind": "codec.parse_corpus"}} for x in probs[:3]]}
    return {"cases": cases, "reproduced": False, "detail": "every accepted element is conformant", "failures": []}


@kind("codec.eq_corpus")
def eq_corpus(w):
    """bounded stand-in for C20 when a task is out of the engine's reach: messages of every vector kind with 0-2 children; every single-field
    and single-child difference must compare unequal, structurally identical messages equal"""
    from indi import message as M
    from indi.message import one_parts as OP, def_parts as DP
    probs, cases = [], 0

    def mk(kind, state="Ok", name="P", children=(("a", "1"), ("b", "1")), label=None):
        part = getattr(OP, "One" + kind)
        extra = {"size": "1", "format": ".x"} if kind == "BLOB" else {}
        vals = {"Switch": {"1": "On", "2": "Off"}, "Light": {"1": "Ok", "2": "Busy"}}.get(kind, {})
        ch = tuple(part(name=n, value=vals.get(v, v), **extra) for n, v in children)
        return getattr(M, "Set%sVector" % kind)(device="D", name=name, state=state, children=ch)
    for kind in ("Text", "Number", "Switch", "Light", "BLOB"):
        a = mk(kind)
        same = mk(kind)
        cases += 1
        if not (a == same):
            probs.append("%s: structurally identical messages compare unequal" % kind)
        variants = {"state": mk(kind, state="Busy"), "name": mk(kind, name="Q"), "first child value": mk(kind, children=(("a", "2"), ("b", "1"))),
                    "last child value": mk(kind, children=(("a", "1"), ("b", "2"))), "first child name": mk(kind, children=(("x", "1"), ("b", "1"))),
                    "child order": mk(kind, children=(("b", "1"), ("a", "1"))), "child count": mk(kind, children=(("a", "1"),)),
                    "extra child": mk(kind, children=(("a", "1"), ("b", "1"), ("c", "1"))), "no children": mk(kind, children=())}
        for what, b in variants.items():
            cases += 1
            if a == b or b == a:
                probs.append("%s: messages differing in %s compare equal" % (kind, what))
        cases += 1
        other = mk("Text" if kind != "Text" else "Number")
        if a == other:
            probs.append("%s: messages of different kinds compare equal" % kind)
    return {"cases": cases, "reproduced": bool(probs), "detail": "; ".join(probs[:3]) or "equality is structural on the corpus",
            "failures": [{"detail": x, "reproduced": True, "witness": {"replay_kind": "codec.eq_corpus"}} for x in probs[:3]]}
