"""Native oracle for the framing buffer (C11, C02), from the statements."""
from registry import kind


class Watchdog(Exception):
    pass


@kind("buffer.process")
def buffer_process(w):
    import sys
    from indi.transport.buffer import Buffer
    from indi.message import IndiMessage
    b = Buffer()
    if "threshold" in w:
        b.max_buffer_size_before_frontal_cleanup = w["threshold"]
    data = w.get("data") or ""
    # the counter-model pins the loop-head state, not the text fed: also try the canonical partial elements
    candidates = [data, "<getProperties vers", "<getProperties version='1.7'/", "junk <setTextVector device='d'"]
    # complete, well-formed elements the message classes refuse, each in its own way (unknown child, missing required attribute of a
    # message / of a part, value outside a vocabulary, wrong child kind, unexpected attribute, no children, not a number)
    candidates += ['<newTextVector name="T"><oneText name="a">x</oneText></newTextVector>',
                   '<newTextVector device="CAM" name="T"><oneText>x</oneText></newTextVector>',
                   '<newBLOBVector device="CAM" name="B"><oneBLOB name="b" format=".fits">QQ==</oneBLOB></newBLOBVector>',
                   '<newSwitchVector device="CAM" name="S"><oneSwitch name="a">Maybe</oneSwitch></newSwitchVector>',
                   '<newSwitchVector device="CAM" name="S"><oneText name="a">On</oneText></newSwitchVector>',
                   '<newNumberVector device="CAM" name="N"><oneNumber name="n">1:2:3:4</oneNumber></newNumberVector>',
                   '<newNumberVector device="CAM" name="N"><bogus name="n">1</bogus></newNumberVector>',
                   '<setTextVector device="CAM" name="T" state="Sideways"/>', '<enableBLOB device="CAM">Perhaps</enableBLOB>', '<enableBLOB/>',
                   '<defLight name="l">Ok</defLight>', '<oneBLOB name="b"/>', '<delProperty/>', '<message/>', '<getProperties/>']
    candidates += [c + '<getProperties version="1.7"/>' for c in candidates[4:8]]
    for d in candidates:
        b = Buffer()
        if "threshold" in w:
            b.max_buffer_size_before_frontal_cleanup = w["threshold"]
        got = []
        steps = [0]

        def cb(m):
            steps[0] += 1
            got.append(m)
            if steps[0] > 2000:
                raise Watchdog()
        b.append(d)
        try:
            b.process(cb)
        except Watchdog:
            return {"reproduced": True, "detail": "Buffer.process does not terminate on %r with threshold %r: the consumer was called %d times (with %r)"
                    % (d, w.get("threshold", 2048), steps[0], got[0]), "data": d}
        except Exception as e:
            return {"reproduced": True, "detail": "Buffer.process raised %r on %r" % (e, d), "data": d}
        bad = [m for m in got if not isinstance(m, IndiMessage)]
        if bad:
            return {"reproduced": True, "detail": "the consumer was handed %r" % (bad[0],), "data": d}
        th = b.max_buffer_size_before_frontal_cleanup
        if th is not None and b.data_len > th:
            return {"reproduced": True, "detail": "retained %d > threshold %d" % (b.data_len, th), "data": d}
    return {"reproduced": False, "detail": "terminated, genuine messages only, within the threshold"}


def _corpus_messages():
    return ['<getProperties version="1.7"/>', '<getProperties device="CAM" version="1.7" />',
            '<enableBLOB device="CAM">Also</enableBLOB>',
            '<newTextVector device="CAM" name="T"><oneText name="a">x &gt; y</oneText><oneText name="b">z</oneText></newTextVector>',
            '<setNumberVector device="CAM" name="N" state="Ok"><oneNumber name="n">1.5</oneNumber></setNumberVector>',
            '<defSwitchVector device="CAM" name="S" state="Idle" perm="rw" rule="OneOfMany"><defSwitch name="a">On</defSwitch></defSwitchVector>',
            '<delProperty device="CAM"/>', '<message device="CAM" message="hi"/>',
            # legal XML a foreign peer may send: raw '>' in text and attribute values, comments and processing instructions inside an element
            '<newTextVector device="CAM" name="alt > 15"><oneText name="a">a -> b >> c</oneText></newTextVector>',
            '<setTextVector device="CAM" name="T" state="Ok"><!-- note > here --><oneText name="a">x</oneText><?pi data > ?></setTextVector>',
            '<pingRequest uid="1"/>']


@kind("buffer.junk_corpus")
def junk_corpus(w):
    """Bounded stand-in for the whole-stream clauses of C11 (labelled bounded): junk that does not
    imitate a protocol element never prevents delivery of the valid messages around it; processing
    always terminates, raises nothing, delivers only messages, respects the threshold."""
    import random
    from indi.transport.buffer import Buffer
    from indi.message import IndiMessage
    rnd = random.Random(w.get("seed", 0))
    msgs = _corpus_messages()
    junk_atoms = ["", " ", "\n", "garbage", "\x00", "& ;", "> >", "]]>", "-->", "abc>def", "'\"", "\xe9\xff", "1 2 3", "/>", "text>"]
    failures, cases = [], 0
    for it in range(w.get("n", 150)):
        th = rnd.choice([128, 2048, None, 2048])
        k = rnd.randint(1, 4)
        seq = [rnd.choice(msgs) for _ in range(k)]
        parts = []
        for m in seq:
            parts.append(rnd.choice(junk_atoms))
            parts.append(m)
        parts.append(rnd.choice(junk_atoms))
        stream = "".join(parts)
        if th is not None and any(len(m) > th for m in seq):
            continue
        want = [IndiMessage.from_string(m) for m in seq]
        cuts = sorted(rnd.sample(range(1, len(stream)), min(len(stream) - 1, rnd.randint(0, 5)))) if len(stream) > 1 else []
        if rnd.random() < 0.2:
            cuts = list(range(1, len(stream)))
        pieces = [stream[a:b] for a, b in zip([0] + cuts, cuts + [len(stream)])]
        b = Buffer()
        b.max_buffer_size_before_frontal_cleanup = th
        got = []
        steps = [0]

        def cb(m):
            steps[0] += 1
            if steps[0] > 5000:
                raise Watchdog()
            got.append(m)
        cases += 1
        try:
            for p in pieces:
                b.append(p)
                b.process(cb)
        except Watchdog:
            failures.append({"detail": "does not terminate", "witness": {"replay_kind": "buffer.stream", "pieces": pieces, "threshold": th}, "reproduced": True})
            continue
        except Exception as e:
            failures.append({"detail": "raised %r" % (e,), "witness": {"replay_kind": "buffer.stream", "pieces": pieces, "threshold": th}, "reproduced": True})
            continue
        if any(not isinstance(m, IndiMessage) for m in got) or got != want or (th is not None and b.data_len > th):
            failures.append({"detail": "delivered %d messages, expected %d (junk must be skipped, valid messages kept)" % (len(got), len(want)),
                             "witness": {"replay_kind": "buffer.stream", "pieces": pieces, "threshold": th}, "reproduced": True})
        if len(failures) >= 3:
            break
    # junk that opens like markup without imitating a protocol element (declaration, comment, unknown opener with attributes, closing
    # tag), longer than the message behind it and arriving in an EARLIER read than that message: the retained tail of the junk must not
    # change how the following message is scanned (state carried from one process() call to the next)
    long_junk = ['<?xml version="1.0" encoding="UTF-8" standalone="yes"?>' + " " * 40,
                 "<!-- " + "a comment, nothing that looks like the protocol; " * 3 + "-->",
                 '<unknownTag attr="value" other="another value > with a bracket" third="and a third one, to make it long enough" x="y">',
                 "</closing>" + ">" * 90, "<" + "q" * 150 + ">"]
    for th in (128, 2048, None):
        for j in long_junk:
            for m in msgs:
                for split in (0, 1, len(m) // 2):
                    if len(failures) >= 3 or (th is not None and (len(j) > th or len(m) > th)):
                        continue
                    pieces = [j] + ([m] if split == 0 else [m[:split], m[split:]]) + ['<getProperties version="1.7"/>']
                    b = Buffer()
                    b.max_buffer_size_before_frontal_cleanup = th
                    got = []
                    cases += 1
                    try:
                        for p_ in pieces:
                            b.append(p_)
                            b.process(got.append)
                    except Exception as e:
                        failures.append({"detail": "raised %r" % (e,), "witness": {"replay_kind": "buffer.stream", "pieces": pieces, "threshold": th}, "reproduced": True})
                        continue
                    want = [IndiMessage.from_string(m), IndiMessage.from_string('<getProperties version="1.7"/>')]
                    if got != want:
                        failures.append({"detail": "junk %r... read before the message: delivered %d of the %d valid messages behind it (threshold %r)" % (j[:24], len(got), len(want), th),
                                         "witness": {"replay_kind": "buffer.stream", "pieces": pieces, "threshold": th,
                                                     "expect": [m, '<getProperties version="1.7"/>']}, "reproduced": True})
    # recovery from a truncated element: every later valid message is delivered once the threshold is exceeded
    pings = ['<pingRequest uid="%d"/>' % i for i in range(120)]
    for th in (128, 2048):
        for m in msgs[:4] + msgs[8:10]:
            for cut in sorted(set(list(range(1, min(len(m), 40))) + [len(m) // 2, len(m) - 1])):
                for piece in (None, 7, 64):
                    if len(failures) >= 3:
                        break
                    n_p = (th // len(pings[0])) + 4
                    stream = m[:cut] + "".join(pings[:n_p])
                    pieces = [stream] if piece is None else [stream[i:i + piece] for i in range(0, len(stream), piece)]
                    b = Buffer()
                    b.max_buffer_size_before_frontal_cleanup = th
                    got = []
                    cases += 1
                    try:
                        for p in pieces:
                            b.append(p)
                            b.process(got.append)
                    except Exception as e:
                        failures.append({"detail": "raised %r" % (e,), "witness": {"replay_kind": "buffer.stream", "pieces": pieces, "threshold": th}, "reproduced": True})
                        continue
                    want = [IndiMessage.from_string(x) for x in pings[:n_p]]
                    # the truncated front may swallow nothing but itself: all pings arrive (a truncation that happens to be
                    # well-formed together with following text is not constructed here: the cut is inside the element)
                    tail = [x for x in got if x in want]
                    if tail != want:
                        failures.append({"detail": "after an element truncated at %d characters, %d of the %d following valid messages were delivered (threshold %d)"
                                         % (cut, len(tail), len(want), th),
                                         "witness": {"replay_kind": "buffer.stream", "pieces": pieces, "threshold": th, "expect_tail": pings[:n_p]}, "reproduced": True})
    # the same recovery with the threshold DISABLED (the mode of BLOB connections): nothing ever abandons a corrupt front element
    for front in ('<getProperties version="1.7" dev', '<setNumberVector device="D"><oneNumber name="x">1</oneNumber></setNumberVector>'):
        stream = front + "".join(pings[:30])
        b = Buffer()
        b.max_buffer_size_before_frontal_cleanup = None
        got = []
        cases += 1
        b.append(stream)
        b.process(got.append)
        want = [IndiMessage.from_string(x) for x in pings[:30]]
        if [x for x in got if x in want] != want:
            failures.append({"detail": "threshold disabled: after the corrupt element %r none of the %d following valid messages is delivered (%d characters retained)"
                             % (front[:40], len(want), b.data_len),
                             "witness": {"replay_kind": "buffer.stream", "class": "disabled-threshold-recovery", "pieces": [stream], "threshold": None, "expect_tail": pings[:30]},
                             "reproduced": True})
            break
    return {"cases": cases, "failures": failures}


@kind("buffer.stream")
def buffer_stream(w):
    from indi.transport.buffer import Buffer
    from indi.message import IndiMessage
    b = Buffer()
    b.max_buffer_size_before_frontal_cleanup = w.get("threshold", 2048)
    got = []
    steps = [0]

    def cb(m):
        steps[0] += 1
        if steps[0] > 5000:
            raise Watchdog()
        got.append(m)
    try:
        for p in w["pieces"]:
            b.append(p)
            b.process(cb)
    except Watchdog:
        return {"reproduced": True, "detail": "does not terminate"}
    except Exception as e:
        return {"reproduced": True, "detail": "raised %r" % (e,)}
    if w.get("expect_tail") is not None:
        exp = [IndiMessage.from_string(m) for m in w["expect_tail"]]
        tail = [x for x in got if x in exp]
        return {"reproduced": tail != exp, "detail": "%d of the %d valid messages after the truncated element were delivered" % (len(tail), len(exp))}
    want = w.get("expect")
    if want is not None:
        exp = [IndiMessage.from_string(m) for m in want]
        return {"reproduced": got != exp, "detail": "delivered %d message(s), expected %d" % (len(got), len(exp))}
    return {"reproduced": False, "detail": "delivered %d message(s)" % len(got)}


@kind("buffer.fragmentation_corpus")
def fragmentation_corpus(w):
    """Bounded stand-in for the whole-stream clause of C02 (labelled bounded): streams of 1..3
    well-formed messages in several XML spellings x every 1- and 2-cut partition (short streams),
    character-by-character, random k-cuts x threshold in {max message length, 2048, disabled};
    oracle: exactly the messages sent, once, in order, each no later than the processing call that
    follows arrival of its last character."""
    import random
    import itertools
    from indi.transport.buffer import Buffer
    from indi.message import IndiMessage
    rnd = random.Random(w.get("seed", 0))
    base = _corpus_messages()
    spell = lambda m: [m, '<?xml version="1.0"?>\n' + m + "\n", m.replace('"', "'") if "'" not in m and "&gt;" not in m else m, "\n  " + m + "\n"]
    cases, failures = 0, []

    def run(pieces, texts, th, bounds):
        b = Buffer()
        b.max_buffer_size_before_frontal_cleanup = th
        got, when = [], []
        steps = [0]
        fed = 0
        for p in pieces:
            b.append(p)
            fed += len(p)

            def cb(m):
                steps[0] += 1
                if steps[0] > 5000:
                    raise Watchdog()
                got.append(m)
                when.append(fed)
            b.process(cb)
        want = [IndiMessage.from_string(t) for t in texts]
        if got != want:
            return "delivered %d message(s), sent %d" % (len(got), len(want))
        for k, endpos in enumerate(bounds):
            # first piece boundary at or after the message's last character
            first = min(x for x in itertools.accumulate(len(p) for p in pieces) if x >= endpos)
            if when[k] > first:
                return "message %d delivered late (after %d characters, complete at %d)" % (k, when[k], endpos)
        return None
    budget = w.get("n", 60)
    for it in range(budget):
        k = rnd.randint(1, 3)
        texts = [rnd.choice(base) for _ in range(k)]
        spelled = [rnd.choice(spell(t)) for t in texts]
        stream = "".join(spelled)
        bounds, pos = [], 0
        for s_, t in zip(spelled, texts):
            core_end = pos + s_.rstrip().__len__() if s_.rstrip().endswith(">") else pos + len(s_)
            bounds.append(pos + len(s_.rstrip("\n ")))
            pos += len(s_)
        ths = [max(len(s) for s in spelled), 2048, None]
        n = len(stream)
        partitions = [[stream]] + [[stream[:a], stream[a:]] for a in range(1, n)]
        if n <= 90:
            partitions += [[stream[:a], stream[a:b], stream[b:]] for a in range(1, n) for b in range(a + 1, n, 3)]
        partitions.append(list(stream))
        for _ in range(5):
            cuts = sorted(rnd.sample(range(1, n), min(n - 1, rnd.randint(1, 6))))
            partitions.append([stream[a:b] for a, b in zip([0] + cuts, cuts + [n])])
        for th in ths:
            for pieces in partitions:
                cases += 1
                try:
                    err = run(pieces, texts, th, bounds)
                except Watchdog:
                    err = "does not terminate"
                except Exception as e:
                    err = "raised %r" % (e,)
                if err:
                    failures.append({"detail": err, "reproduced": True,
                                     "witness": {"replay_kind": "buffer.stream", "pieces": pieces, "threshold": th, "expect": texts}})
                    if len(failures) >= 3:
                        return {"cases": cases, "failures": failures}
    return {"cases": cases, "failures": failures}
