"""Native oracle for C09 (switch rule), written from the statement."""
from registry import kind


def build(w):
    from indi.device import Driver, properties
    from indi.routing import Router, Client
    n = w["n"]
    rule = w.get("rule")
    if rule not in ("OneOfMany", "AtMostOne", "AnyOfMany"):
        rule = "AnyOfMany" if rule is None else rule
    vals = [v if v in ("On", "Off") else "Off" for v in (w.get("vals") or [])]
    vals += ["Off"] * (n - len(vals))
    elements = {"e%d" % i: properties.Switch("S%d" % i, default=vals[i]) for i in range(n)}

    class Dev(Driver):
        name = "DEV"
        main = properties.Group("MAIN", vectors=dict(sw=properties.SwitchVector("SW", rule=rule, elements=elements)))

    class Rec(Client):
        def __init__(self):
            self.got = []

        def message_from_device(self, m):
            self.got.append(m)
    r = Router()
    rec = Rec()
    r.register_client(rec)
    d = Dev(router=r)
    return d, rec, d.main.sw, rule, vals


def state(vec):
    return [e._value for e in vec._elements.values()]


def ok(rule, before, after):
    probs = []
    if rule in ("OneOfMany", "AtMostOne") and before.count("On") <= 1 and after.count("On") > 1:
        probs.append("more than one switch On under %s: %r" % (rule, after))
    if rule == "OneOfMany" and before.count("On") >= 1 and after.count("On") == 0:
        probs.append("OneOfMany property lost its On switch: %r -> %r" % (before, after))
    if any(v not in ("On", "Off") for v in after):
        probs.append("value outside the vocabulary: %r" % (after,))
    return probs


@kind("switch.op")
def switch_op(w):
    from indi import message
    from indi.message import one_parts
    if w.get("too_large"):
        return {"reproduced": False, "detail": "counter-model too large"}
    d, rec, vec, rule, vals = build(w)
    before = state(vec)
    op = w["op"]
    s = w.get("s", 0)
    v = w.get("v", "On")
    els = list(vec._elements.values())
    probs = []
    try:
        if op in ("assign", "apply_rule"):
            els[s].value = v
        elif op == "bool_value":
            els[s].bool_value = (v == "On")
        elif op == "set_value":
            els[s].set_value(v)
        elif op == "set_value_from_message":
            els[s].set_value_from_message(one_parts.OneSwitch(name=els[s].name, value=v))
        elif op == "selected_value":
            vec.selected_value = els[s].name
            v = "On"
        elif op == "selected_values":
            names = [els[i].name for i in w.get("names", [s])]
            vec.selected_values = names
        elif op == "from_new_message":
            ch = tuple(one_parts.OneSwitch(name=els[i].name, value=x) for i, x in w.get("writes", [[s, v]]))
            vec.from_new_message(message.NewSwitchVector(device="DEV", name="SW", children=ch))
        else:
            return {"reproduced": False, "detail": "unknown op %s" % op}
    except Exception as e:
        return {"reproduced": True, "detail": "%s on switch %d of %r (rule %s) raised %r" % (op, s, before, rule, e)}
    after = state(vec)
    probs += ok(rule, before, after)
    if op in ("assign", "bool_value", "set_value", "set_value_from_message", "selected_value", "apply_rule"):
        if v == "On" and after[s] != "On":
            probs.append("switch %d was turned On but is %r" % (s, after[s]))
        if v == "Off" and after[s] != "Off" and not (rule == "OneOfMany" and all(x != "On" for i, x in enumerate(before) if i != s)):
            probs.append("(C06) switch %d was turned Off but is %r under %s" % (s, after[s], rule))
        if rule == "AnyOfMany" and op != "selected_value":
            for i in range(len(after)):
                if i != s and after[i] != before[i]:
                    probs.append("AnyOfMany: switch %d changed by an assignment to switch %d" % (i, s))
    # every published update must satisfy the rule as well
    for m in rec.got:
        if isinstance(m, message.SetSwitchVector):
            pub = [c.value for c in m.children]
            probs += ["published: " + p for p in ok(rule, before, pub)]
    return {"reproduced": bool(probs), "detail": "; ".join(probs) or "real code agrees with the statement on this input",
            "before": before, "after": after}


@kind("switch.enumerate")
def enumerate_small(w):
    """Bounded stand-in (labelled bounded, never counted as proved): every rule x
    n in 1..nmax switches x every admissible initial configuration x every single
    operation of the statement, against the real code."""
    import itertools
    nmax = w.get("nmax", 3)
    failures, cases = [], 0
    for rule in ("OneOfMany", "AtMostOne", "AnyOfMany"):
        for n in range(1, nmax + 1):
            for vals in itertools.product(("On", "Off"), repeat=n):
                if rule != "AnyOfMany" and vals.count("On") > 1:
                    continue
                base = {"n": n, "rule": rule, "vals": list(vals)}
                ops = []
                for s in range(n):
                    for v in ("On", "Off"):
                        for op in ("assign", "bool_value", "set_value", "set_value_from_message"):
                            ops.append(dict(op=op, s=s, v=v))
                    ops.append(dict(op="selected_value", s=s))
                for k in range(0, n + 1):
                    for names in itertools.combinations(range(n), k):
                        ops.append(dict(op="selected_values", names=list(names), s=0))
                for s1 in range(n):
                    for v1 in ("On", "Off"):
                        ops.append(dict(op="from_new_message", writes=[[s1, v1]], s=s1, v=v1))
                        for s2 in range(n):
                            for v2 in ("On", "Off"):
                                ops.append(dict(op="from_new_message", writes=[[s1, v1], [s2, v2]], s=s2, v=v2))
                for o in ops:
                    case = dict(base, **o)
                    cases += 1
                    if o["op"] == "selected_values":
                        r = _selected_values_case(case)
                    elif o["op"] == "from_new_message":
                        r = _multi_case(case)
                    else:
                        r = switch_op(case)
                    if r.get("reproduced"):
                        failures.append({"witness": dict(case, replay_kind="switch.op"), "detail": r["detail"], "reproduced": True})
                        if len(failures) >= 5:
                            return {"cases": cases, "failures": failures}
    return {"cases": cases, "failures": failures}


def _selected_values_case(w):
    d, rec, vec, rule, vals = build(w)
    before = state(vec)
    els = list(vec._elements.values())
    try:
        vec.selected_values = [els[i].name for i in w["names"]]
    except Exception as e:
        return {"reproduced": True, "detail": "selected_values=%r on %r (%s) raised %r" % (w["names"], before, rule, e)}
    after = state(vec)
    probs = ok(rule, before, after)
    from indi import message
    for m in rec.got:
        if isinstance(m, message.SetSwitchVector):
            probs += ["published: " + p for p in ok(rule, before, [c.value for c in m.children])]
    return {"reproduced": bool(probs), "detail": "; ".join(probs)}


def _multi_case(w):
    from indi import message
    from indi.message import one_parts
    d, rec, vec, rule, vals = build(w)
    before = state(vec)
    els = list(vec._elements.values())
    ch = tuple(one_parts.OneSwitch(name=els[i].name, value=x) for i, x in w["writes"])
    try:
        vec.from_new_message(message.NewSwitchVector(device="DEV", name="SW", children=ch))
    except Exception as e:
        return {"reproduced": True, "detail": "client write %r on %r (%s) raised %r" % (w["writes"], before, rule, e)}
    after = state(vec)
    probs = ok(rule, before, after)
    named = {i for i, _ in w["writes"]}
    if rule == "AnyOfMany":
        probs += ["AnyOfMany: unnamed switch %d changed" % i for i in range(len(after)) if i not in named and after[i] != before[i]]
    for i, x in w["writes"]:
        pass
    last_on = [i for i, x in w["writes"] if x == "On"]
    if last_on and rule != "AnyOfMany" and after[last_on[-1]] != "On" and w["writes"][-1][1] == "On":
        probs.append("switch turned On last is not On")
    for m in rec.got:
        if isinstance(m, message.SetSwitchVector):
            probs += ["published: " + p for p in ok(rule, before, [c.value for c in m.children])]
    return {"reproduced": bool(probs), "detail": "; ".join(probs)}
