"""Native oracle for C09 (switch rule), written from the statement."""
from registry import kind


def build(w):
    from indi.device import Driver, properties
    from indi.routing import Router, Client
    n = w["n"]
    rule = w.get("rule")
    if rule not in ("OneOfMany", "AtMostOne", "AnyOfMany"):
        rule = "AnyOfMany" if rule is None else rule
    vals = [v if v in ("On", "Off") else "Off" for v in (w.get("vals") or [])]
    vals += ["Off"] * (n - len(vals))
    elements = {"e%d" % i: properties.Switch("S%d" % i, default=vals[i]) for i in range(n)}

    class Dev(Driver):
        name = "DEV"
        main = properties.Group("MAIN", vectors=dict(sw=properties.SwitchVector("SW", rule=rule, elements=elements)))

    class Rec(Client):
        def __init__(self):
            self.got = []

        def message_from_device(self, m):
            self.got.append(m)
    r = Router()
    rec = Rec()
    r.register_client(rec)
    d = Dev(router=r)
    return d, rec, d.main.sw, rule, vals


def state(vec):
    return [e._value for e in vec._elements.values()]


def ok(rule, before, after):
    probs = []
    if rule in ("OneOfMany", "AtMostOne") and before.count("On") <= 1 and after.count("On") > 1:
        probs.append("more than one switch On under %s: %r" % (rule, after))
    if rule == "OneOfMany" and before.count("On") >= 1 and after.count("On") == 0:
        probs.append("OneOfMany property lost its On switch: %r -> %r" % (before, after))
    if any(v not in ("On", "Off") for v in after):
        probs.append("value outside the vocabulary: %r" % (after,))
    return probs


@kind("switch.op")
def switch_op(w):
    from indi import message
    from indi.message import one_parts
    if w.get("too_large"):
        return {"reproduced": False, "detail": "counter-model too large"}
    d, rec, vec, rule, vals = build(w)
    before = state(vec)
    op = w["op"]
    s = w.get("s", 0)
    v = w.get("v", "On")
    els = list(vec._elements.values())
    probs = []
    try:
        if op in ("assign", "apply_rule"):
            els[s].value = v
        elif op == "bool_value":
            els[s].bool_value = (v == "On")
        elif op == "set_value":
            els[s].set_value(v)
        elif op == "set_value_from_message":
            els[s].set_value_from_message(one_parts.OneSwitch(name=els[s].name, value=v))
        elif op == "selected_value":
            vec.selected_value = els[s].name
            v = "On"
        elif op == "selected_values":
            names = [els[i].name for i in w.get("names", [s])]
            vec.selected_values = names
        elif op == "from_new_message":
            ch = tuple(one_parts.OneSwitch(name=els[i].name, value=x) for i, x in w.get("writes", [[s, v]]))
            vec.from_new_message(message.NewSwitchVector(device="DEV", name="SW", children=ch))
        else:
            return {"reproduced": False, "detail": "unknown op %s" % op}
    except Exception as e:
        return {"reproduced": True, "detail": "%s on switch %d of %r (rule %s) raised %r" % (op, s, before, rule, e)}
    after = state(vec)
    probs += ok(rule, before, after)
    if op in ("assign", "bool_value", "set_value", "set_value_from_message", "selected_value", "apply_rule"):
        if v == "On" and after[s] != "On":
            probs.append("switch %d was turned On but is %r" % (s, after[s]))
        if v == "Off" and after[s] != "Off" and not (rule == "OneOfMany" and all(x != "On" for i, x in enumerate(before) if i != s)):
            probs.append("(C06) switch %d was turned Off but is %r under %s" % (s, after[s], rule))
        if rule == "AnyOfMany" and op != "selected_value":
            for i in range(len(after)):
                if i != s and after[i] != before[i]:
                    probs.append("AnyOfMany: switch %d changed by an assignment to switch %d" % (i, s))
    # every published update must satisfy the rule as well
    for m in rec.got:
        if isinstance(m, message.SetSwitchVector):
            pub = [c.value for c in m.children]
            probs += ["published: " + p for p in ok(rule, before, pub)]
    return {"reproduced": bool(probs), "detail": "; ".join(probs) or "real code agrees with the statement on this input",
            "before": before, "after": after}
