"""Native replay of counter-models against the real code in /repo.

usage: native.py <kind>    (witness JSON on stdin)  -> JSON on stdout:
  {"reproduced": bool, "detail": str, ...}
Every oracle here is written from the property statement, independently of
the SMT contracts, and runs the *real* classes imported from the repository.
"""
import json
import os
import sys

REPO = os.environ.get("INDIPY_REPO", "/repo")
sys.path.insert(0, REPO)
sys.path.insert(0, os.path.dirname(os.path.abspath(__file__)))

from registry import KINDS, kind  # noqa: E402


def main():
    k = sys.argv[1]
    w = json.load(sys.stdin)
    import importlib
    for m in ("r_router", "r_switch", "r_codec", "r_buffer", "r_numbers", "r_driver", "r_client", "r_transport", "r_e2e"):
        try:
            importlib.import_module(m)
        except ModuleNotFoundError as e:
            if e.name != m:
                raise
    try:
        out = KINDS[k](w)
    except Exception as e:      # replay harness failure is not a reproduction
        import traceback
        out = {"reproduced": False, "detail": "replay harness error: %r" % (e,), "trace": traceback.format_exc()}
    json.dump(out, sys.stdout)


if __name__ == "__main__":
    main()
