"""Native oracles for C10: an independent INDI-convention reference reader (exact rationals) against the real
num_to_str / str_to_num / checks.number."""
import re
from fractions import Fraction

from registry import kind

RES = {3: Fraction(1, 60), 5: Fraction(1, 600), 6: Fraction(1, 3600), 8: Fraction(1, 36000), 9: Fraction(1, 360000)}


def resolution(fmt):
    m = re.fullmatch(r"%(\d*)\.(\d+)m", fmt)
    if m:
        return RES[int(m.group(2))]
    m = re.fullmatch(r"%([-+ 0#]*)(\d*)(?:\.(\d+))?([dif])", fmt)
    if m.group(4) in "di":
        return Fraction(1)
    return Fraction(1, 10 ** (int(m.group(3)) if m.group(3) is not None else 6))


def denote(text):
    """the value an INDI number text denotes (sign on the whole magnitude); None when it is not a number text"""
    t = text.strip()
    m = re.fullmatch(r"([-+]?)(\d+(?:\.\d*)?|\.\d+)(?:[:; ](\d+(?:\.\d*)?))?(?:[:; ](\d+(?:\.\d*)?))?", t)
    if not m:
        return None
    sign, a, b, c = m.groups()
    v = Fraction(a if not a.startswith(".") else "0" + a) if a != "." else None
    if v is None:
        return None
    if b is not None:
        v += Fraction(b.rstrip(".") or "0") / 60
    if c is not None:
        v += Fraction(c.rstrip(".") or "0") / 3600
    return -v if sign == "-" else v


def check_render(n, fmt):
    from indi.device.values import num_to_str, str_to_num
    from indi.message import checks
    probs = []
    try:
        text = num_to_str(n, fmt)
    except Exception as e:
        return ["num_to_str(%r, %r) raised %r" % (n, fmt, e)]
    try:
        checks.number(text)
    except Exception as e:
        return ["num_to_str(%r, %r) = %r is rejected by the library's validator (%r)" % (n, fmt, text, e)]
    d = denote(text)
    res = resolution(fmt)
    exact = Fraction(n)
    if d is None:
        probs.append("num_to_str(%r, %r) = %r is not an INDI number text" % (n, fmt, text))
    elif abs(d - exact) > res:
        probs.append("num_to_str(%r, %r) = %r denotes %s: off by more than the resolution" % (n, fmt, text, float(d)))
    try:
        back = str_to_num(text, fmt)
    except Exception as e:
        return probs + ["str_to_num(%r, %r) raised %r" % (text, fmt, e)]
    # float arithmetic of the parser: allow a relative error of a few ulps on top of the resolution
    if abs(Fraction(back) - exact) > res + abs(exact) * Fraction(1, 2 ** 48):
        probs.append("%r rendered as %r parses back to %r" % (n, text, back))
    return probs


def check_parse(text, fmt):
    from indi.device.values import str_to_num
    from indi.message import checks
    d = denote(text)
    try:
        checks.number(text)
    except Exception as e:
        return ["the validator rejects the number text %r (%r)" % (text, e)]
    try:
        v = str_to_num(text, fmt)
    except Exception as e:
        return ["str_to_num(%r, %r) raised %r" % (text, fmt, e)]
    if d is None or abs(Fraction(v) - d) > abs(d) * Fraction(1, 2 ** 48) + Fraction(1, 10 ** 12):
        return ["str_to_num(%r, %r) = %r, the text denotes %s" % (text, fmt, v, None if d is None else float(d))]
    return []


@kind("number.render")
def number_render(w):
    n = w["n"]
    if isinstance(n, str):
        n = n.rstrip("?")
        n = Fraction(n)
        n = int(n) if w.get("argkind") == "int" else float(n)
    probs = check_render(n, w["fmt"])
    # the counter-model's value may not be a float: also try its neighbours on the format's resolution grid
    if not probs and w.get("argkind") != "int":
        res = resolution(w["fmt"])
        for k in range(-3, 4):
            probs += check_render(float(Fraction(n) + k * res / 2), w["fmt"])
    return {"reproduced": bool(probs), "detail": "; ".join(probs[:3]) or "rendering of %r with %s is accepted, accurate and parses back" % (n, w["fmt"])}


@kind("number.parse")
def number_parse(w):
    probs = check_parse(w["text"], w["fmt"])
    return {"reproduced": bool(probs), "detail": "; ".join(probs[:3]) or "%r is parsed to the value it denotes" % (w["text"],)}


SEXA = ["%.3m", "%.5m", "%.6m", "%.8m", "%.9m", "%10.6m", "%12.9m"]
PRINTF = ["%f", "%d", "%.2f", "%8.2f", "%-8.3f", "%+d", "%+.1f", "% .3f", "%08.2f", "%05d", "%#.0f", "%.0f", "%+08.1f", "%12.6f", "%3d", "%- 6d", "%i", "%.10f"]


@kind("number.grid")
def number_grid(w):
    """Bounded stand-in (labelled bounded): every point of the resolution grid of %.3m/%.5m/%.6m on [-360, 360] degrees (thorough; quick:
    [-3, 3] and sparse elsewhere), dense sub-grids for the finer formats, values within half a unit of a field carry, negatives in (-1, 0),
    integers, width-overflowing values, random values in [-1e9, 1e9]; parsing: every text of the number grammar built from a small
    alphabet of fields x separators x signs."""
    import random
    rnd = random.Random(w.get("seed", 0))
    thorough = w.get("thorough", False)
    probs, cases = [], 0

    def add(p):
        probs.extend(p)
        return len(probs) >= 4
    special = [0, 0.0, -0.0, 1, -1, 59.5 / 60, -59.5 / 60, 59.95 / 60, 1 + 59.5 / 60, 1 + 59 / 60 + 59.5 / 3600, -(2 + 59 / 60 + 59.95 / 3600), 12.999999, -12.999999,
               -0.25, -0.5, -0.999, -0.0001, 0.0001, 359.99999, -359.99999, 1e9, -1e9, 123456789.125, 0.5, 1.5, 2.5, -1.5, 99999.995, 1e-9, 1 / 3, -1 / 3]
    for fmt in SEXA + PRINTF:
        for n in special + [rnd.uniform(-1e9, 1e9) for _ in range(40)] + [rnd.uniform(-1, 1) for _ in range(40)] + [rnd.randrange(-10 ** 9, 10 ** 9) for _ in range(20)]:
            cases += 1
            if add(check_render(n, fmt)):
                break
    lim = 360 if thorough else 3
    for fmt, per in (("%.3m", 60), ("%.5m", 600), ("%.6m", 3600)):
        if probs:
            break
        step = 1 if (thorough or per <= 600) else 7
        for k in range(-lim * per, lim * per + 1, step):
            cases += 1
            if add(check_render(k / per, fmt)):
                break
            if k % 5 == 0:
                cases += 1
                if add(check_render((k + 0.49) / per, fmt)):
                    break
    for fmt, per in (("%.8m", 36000), ("%.9m", 360000)):
        if probs:
            break
        for k in range(-2 * per, 2 * per + 1, 37 if not thorough else 3):
            cases += 1
            if add(check_render(k / per, fmt)):
                break
    # parsing
    fields_w = ["0", "7", "12", "359", "000", "100000"]
    fields_m = ["00", "05", "30", "59", "60"]
    fracs = ["", ".0", ".5", ".25", ".999"]
    for sign in ("", "-", "+"):
        for wv in fields_w:
            for fmt in ("%f", "%.6m", "%d", "%.3m"):
                for t in [sign + wv, sign + wv + ".", sign + wv + ".5", sign + ".5", sign + wv + ".000125"]:
                    cases += 1
                    add(check_parse(t, fmt))
                for sep in ":; ":
                    for m in fields_m:
                        for fr in fracs:
                            if fr != ".":
                                cases += 1
                                add(check_parse(sign + wv + sep + m + fr, fmt))
                        for sep2 in ":; ":
                            for s in fields_m:
                                for fr in fracs:
                                    cases += 1
                                    add(check_parse(sign + wv + sep + m + sep2 + s + fr, fmt))
                if len(probs) >= 4:
                    break
    return {"cases": cases, "reproduced": bool(probs), "detail": "; ".join(probs[:4]) or "all renderings accepted, accurate and inverse; all texts parsed to their value",
            "failures": [{"detail": p, "reproduced": True, "witness": {"replay_kind": "number.grid"}} for p in probs[:4]]}
