KINDS = {}


def kind(name):
    def deco(f):
        KINDS[name] = f
        return f
    return deco
