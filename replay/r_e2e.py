"""Native end-to-end oracles (C06, C08, C01): a client and a driver connected through the real
serializer, framing buffers and router (everything but the asyncio sockets)."""
from registry import kind


def wire_pair(chunk=1024, blob_threshold_none=False):
    from indi.client.client import BaseClient
    from indi.routing import Router, Client as RClient
    from indi.transport.buffer import Buffer

    class WireClient(BaseClient, RClient):
        """BaseClient whose traffic crosses to_string / Buffer / from_string in both directions"""
        def __init__(self, router):
            BaseClient.__init__(self)
            self.router = router
            self.up = Buffer()         # server side receive buffer
            self.down = Buffer()       # client side receive buffer
            if blob_threshold_none:
                self.down.max_buffer_size_before_frontal_cleanup = None
            router.register_client(self)

        def send_message(self, msg):
            data = msg.to_string().decode("latin1")
            for i in range(0, len(data), chunk):
                self.up.append(data[i:i + chunk])
                self.up.process(lambda m: self.router.process_message(m, sender=self))

        def message_from_device(self, msg):
            data = msg.to_string().decode("latin1")
            for i in range(0, len(data), chunk):
                self.down.append(data[i:i + chunk])
                self.down.process(self.process_message)
    return WireClient


def make_dev(router):
    from indi.device import Driver, properties

    class Dev(Driver):
        name = "DEV"
        main = properties.Group("MAIN", vectors=dict(
            # (element keys deliberately differ from the protocol names)
            text=properties.TextVector("TEXT", elements=dict(first=properties.Text("A", default="x"), a=properties.Text("B", default="y"))),
            number=properties.NumberVector("NUMBER", elements=dict(num=properties.Number("N", default=1.0), sexa=properties.Number("S", default=1.5, format="%.3m"),
                                                                   n=properties.Number("D", default=3, format="%d"))),
            switch=properties.SwitchVector("SWITCH", rule="OneOfMany", default_on="A", elements=dict(one=properties.Switch("A"), a=properties.Switch("B"))),
            blob=properties.BLOBVector("BLOB", elements=dict(payload=properties.BLOB("B"))),
        ))
    return Dev(router=router)


def dev_state(d):
    out = {}
    for v in d._vectors.values():
        for e in v._elements.values():
            x = e._value
            out[(v.name, e.name)] = ("BLOB", x.binary, x.format) if hasattr(x, "binary") else x
    return out


@kind("write.e2e")
def write_e2e(w):
    from indi.routing import Router
    from indi.device import values
    import indi
    probs = []
    cases = [("TEXT", {"A": "hello <&> \"q\" é"}, {"A": "hello <&> \"q\" é"}),
             ("TEXT", {"A": "1", "B": "2"}, {"A": "1", "B": "2"}),
             ("NUMBER", {"N": "2.5"}, {"N": 2.5}), ("NUMBER", {"S": "2:30"}, {"S": 2.5}), ("NUMBER", {"D": "7"}, {"D": 7}),
             ("SWITCH", {"B": "On"}, {"B": "On", "A": "Off"}),
             ("BLOB", {"B": values.BLOB(bytes(range(256)) * 3, ".bin")}, {"B": ("BLOB", bytes(range(256)) * 3, ".bin")}),
             ("BLOB", {"B": values.BLOB(b"", ".e")}, {"B": ("BLOB", b"", ".e")})]
    for chunk in (1024, 7):
        for vec, writes, expect in cases:
            r = Router()
            d = make_dev(r)
            other = make_dev.__call__  # noqa (second device below)
            WC = wire_pair(chunk)
            c = WC(r)
            c.send_message(indi.message.GetProperties(version="1.7"))
            if vec == "BLOB":
                c.send_message(indi.message.EnableBLOB(device="DEV", value="Also"))
            before = dev_state(d)
            try:
                cv = c["DEV"][vec]
                for en, val in writes.items():
                    cv[en].value = val
                cv.submit()
            except Exception as e:
                probs.append("submit %s %r raised %r" % (vec, list(writes), e))
                continue
            after = dev_state(d)
            for (vn, en), val in after.items():
                if vn == vec and en in expect:
                    if val != expect[en]:
                        probs.append("chunk=%d: %s.%s is %r after writing %r (expected %r)" % (chunk, vn, en, val if not isinstance(val, tuple) else val[:1], writes.get(en), expect[en] if not isinstance(expect[en], tuple) else expect[en][:1]))
                elif val != before[(vn, en)]:
                    probs.append("chunk=%d: %s.%s changed by a write to %s %r" % (chunk, vn, en, vec, list(writes)))
            # the client's own view shows the new values once the update has come back
            for en in writes:
                shown = c["DEV"][vec][en].value
                want = d._vectors[vec]._elements_by_name[en]
                if vec == "BLOB":
                    ok = hasattr(shown, "binary") and shown.binary == expect[en][1] and shown.format == expect[en][2]
                elif vec == "NUMBER":
                    from indi.device.values import str_to_num
                    ok = shown is not None and abs(str_to_num(shown, want._definition.format) - float(after[(vec, en)])) <= 0.5 / 60
                else:
                    ok = shown == after[(vec, en)]
                if not ok:
                    probs.append("chunk=%d: client view of %s.%s shows %r after the update" % (chunk, vec, en, shown if vec != "BLOB" else "<blob>"))
    return {"reproduced": bool(probs), "detail": "; ".join(probs[:4]) or "every write reached exactly the addressed element and came back to the client's view",
            "cases": 2 * len(cases), "failures": [{"detail": p, "reproduced": True, "witness": {"replay_kind": "write.e2e"}} for p in probs[:3]]}


FORMATS = [".fits", " .FiTs.Z ", "", "a&<b>\"'\xe9", ".fits.fz"]


def _transfer(size, direction, chunk, policy, seed=0):
    """one BLOB through the real chain; returns (received?, identical?, detail)"""
    import random
    import indi
    from indi.routing import Router
    from indi.device import values
    rnd = random.Random(seed + size)
    payload = bytes(rnd.randrange(256) for _ in range(size)) if size < 70000 else bytes(rnd.randrange(256) for _ in range(4096)) * (size // 4096) + b"\x00" * (size % 4096)
    fmt = FORMATS[(size + chunk + len(policy or "")) % len(FORMATS)]
    r = Router()
    d = make_dev(r)
    WC = wire_pair(chunk, blob_threshold_none=True)
    c = WC(r)
    c.send_message(indi.message.GetProperties(version="1.7"))
    if policy is not None:
        c.send_message(indi.message.EnableBLOB(device="DEV", value=policy))
    if direction == "down":
        d.main.blob.payload.value = values.BLOB(payload, fmt)
        got = c["DEV"]["BLOB"]["B"].value
        received = hasattr(got, "binary")
        same = received and got.binary == payload and got.format == fmt and got.size == len(payload)
        return received, same
    cv = c["DEV"]["BLOB"]
    cv["B"].value = values.BLOB(payload, fmt)
    cv.submit()
    got = d.main.blob.payload._value
    received = got is not None
    same = received and got.binary == payload and got.format == fmt
    return received, same


@kind("blob.grid")
def blob_grid(w):
    """Bounded stand-in for C08 (labelled bounded): payload lengths across the 1024-byte read size and the
    2048-character threshold x read fragmentation {1024, 1 (short payloads), 97} x client policy x direction.
    Uploads whose message exceeds the server-side threshold are the recorded known finding and are checked
    separately (kind blob.upload)."""
    sizes = w.get("sizes") or [0, 1, 2, 3, 100, 700, 765, 766, 767, 768, 769, 1000, 1023, 1024, 1025, 1400]
    big = w.get("big") or [1500, 1536, 2047, 2048, 2049, 3000, 4200]
    probs, cases = [], 0
    for direction in ("down", "up"):
        for size in sizes + (big if direction == "down" else []):
            for chunk in (1024, 97) + ((1,) if size <= 100 else ()):
                for policy in ((None, "Never", "Also", "Only") if direction == "down" else ("Also",)):
                    cases += 1
                    try:
                        received, same = _transfer(size, direction, chunk, policy, w.get("seed", 0))
                    except Exception as e:
                        probs.append("%s size=%d chunk=%d policy=%s raised %r" % (direction, size, chunk, policy, e))
                        continue
                    want = direction == "up" or policy in ("Also", "Only")
                    if received != want:
                        probs.append("%s size=%d chunk=%d policy=%s: payload %s" % (direction, size, chunk, policy, "received without enabling" if received else "not received"))
                    elif received and not same:
                        probs.append("%s size=%d chunk=%d policy=%s: payload differs" % (direction, size, chunk, policy))
                    if len(probs) >= 4:
                        break
    return {"cases": cases, "failures": [{"detail": p, "reproduced": True, "witness": {"replay_kind": "blob.grid"}} for p in probs[:4]],
            "reproduced": bool(probs), "detail": "; ".join(probs[:4]) or "all transfers bit-exact"}


@kind("blob.upload")
def blob_upload(w):
    """the known finding's witness class: an upload whose newBLOBVector is longer than the server-side threshold"""
    size = w.get("size", 3000)
    received, same = _transfer(size, "up", 1024, "Also")
    return {"reproduced": not (received and same),
            "detail": "upload of %d bytes through a server connection (threshold 2048, reads of 1024): %s" % (size, "arrived intact" if (received and same) else "lost: junk recovery destroyed the partial message")}
