"""Native end-to-end oracles (C06, C08, C01): a client and a driver connected through the real
serializer, framing buffers and router (everything but the asyncio sockets)."""
from registry import kind


def wire_pair(chunk=1024, blob_threshold_none=False):
    from indi.client.client import BaseClient
    from indi.routing import Router, Client as RClient
    from indi.transport.buffer import Buffer

    class WireClient(BaseClient, RClient):
        """BaseClient whose traffic crosses to_string / Buffer / from_string in both directions"""
        def __init__(self, router):
            BaseClient.__init__(self)
            self.router = router
            self.up = Buffer()         # server side receive buffer
            self.down = Buffer()       # client side receive buffer
            if blob_threshold_none:
                self.down.max_buffer_size_before_frontal_cleanup = None
            router.register_client(self)

        blob_policy = "Never"      # the library's control connection; a one-connection client that wants BLOBs sets "Also"

        def blob_handshake(self, device):
            import indi
            self.send_message(indi.message.EnableBLOB(device=device, value=self.blob_policy))

        def send_message(self, msg):
            data = msg.to_string().decode("latin1")
            for i in range(0, len(data), chunk):
                self.up.append(data[i:i + chunk])
                self.up.process(lambda m: self.router.process_message(m, sender=self))

        def message_from_device(self, msg):
            data = msg.to_string().decode("latin1")
            for i in range(0, len(data), chunk):
                self.down.append(data[i:i + chunk])
                self.down.process(self.process_message)
    return WireClient


def make_dev(router):
    from indi.device import Driver, properties

    class Dev(Driver):
        name = "DEV"
        main = properties.Group("MAIN", vectors=dict(
            # (element keys deliberately differ from the protocol names)
            text=properties.TextVector("TEXT", elements=dict(first=properties.Text("A", default="x"), a=properties.Text("B", default="y"))),
            number=properties.NumberVector("NUMBER", elements=dict(num=properties.Number("N", default=1.0), sexa=properties.Number("S", default=1.5, format="%.3m"),
                                                                   n=properties.Number("D", default=3, format="%d"))),
            switch=properties.SwitchVector("SWITCH", rule="OneOfMany", default_on="A", elements=dict(one=properties.Switch("A"), a=properties.Switch("B"))),
            blob=properties.BLOBVector("BLOB", elements=dict(payload=properties.BLOB("B"))),
        ))
    return Dev(router=router)


def dev_state(d):
    out = {}
    for v in d._vectors.values():
        for e in v._elements.values():
            x = e._value
            out[(v.name, e.name)] = ("BLOB", x.binary, x.format) if hasattr(x, "binary") else x
    return out


@kind("write.e2e")
def write_e2e(w):
    from indi.routing import Router
    from indi.device import values
    import indi
    probs = []
    cases = [("TEXT", {"A": "hello <&> \"q\" é"}, {"A": "hello <&> \"q\" é"}),
             ("TEXT", {"A": "1", "B": "2"}, {"A": "1", "B": "2"}),
             ("NUMBER", {"N": "2.5"}, {"N": 2.5}), ("NUMBER", {"S": "2:30"}, {"S": 2.5}), ("NUMBER", {"D": "7"}, {"D": 7}),
             ("SWITCH", {"B": "On"}, {"B": "On", "A": "Off"}),
             ("BLOB", {"B": values.BLOB(bytes(range(256)) * 3, ".bin")}, {"B": ("BLOB", bytes(range(256)) * 3, ".bin")}),
             ("BLOB", {"B": values.BLOB(b"", ".e")}, {"B": ("BLOB", b"", ".e")})]
    for chunk in (1024, 7):
        for vec, writes, expect in cases:
            r = Router()
            d = make_dev(r)
            other = make_dev.__call__  # noqa (second device below)
            WC = wire_pair(chunk)
            c = WC(r)
            c.send_message(indi.message.GetProperties(version="1.7"))
            if vec == "BLOB":
                c.send_message(indi.message.EnableBLOB(device="DEV", value="Also"))
            before = dev_state(d)
            try:
                cv = c["DEV"][vec]
                for en, val in writes.items():
                    cv[en].value = val
                cv.submit()
            except Exception as e:
                probs.append("submit %s %r raised %r" % (vec, list(writes), e))
                continue
            after = dev_state(d)
            for (vn, en), val in after.items():
                if vn == vec and en in expect:
                    if val != expect[en]:
                        probs.append("chunk=%d: %s.%s is %r after writing %r (expected %r)" % (chunk, vn, en, val if not isinstance(val, tuple) else val[:1], writes.get(en), expect[en] if not isinstance(expect[en], tuple) else expect[en][:1]))
                elif val != before[(vn, en)]:
                    probs.append("chunk=%d: %s.%s changed by a write to %s %r" % (chunk, vn, en, vec, list(writes)))
            # the client's own view shows the new values once the update has come back
            for en in writes:
                shown = c["DEV"][vec][en].value
                want = d._vectors[vec]._elements_by_name[en]
                if vec == "BLOB":
                    ok = hasattr(shown, "binary") and shown.binary == expect[en][1] and shown.format == expect[en][2]
                elif vec == "NUMBER":
                    from indi.device.values import str_to_num
                    ok = shown is not None and abs(str_to_num(shown, want._definition.format) - float(after[(vec, en)])) <= 0.5 / 60
                else:
                    ok = shown == after[(vec, en)]
                if not ok:
                    probs.append("chunk=%d: client view of %s.%s shows %r after the update" % (chunk, vec, en, shown if vec != "BLOB" else "<blob>"))
    return {"reproduced": bool(probs), "detail": "; ".join(probs[:4]) or "every write reached exactly the addressed element and came back to the client's view",
            "cases": 2 * len(cases), "failures": [{"detail": p, "reproduced": True, "witness": {"replay_kind": "write.e2e"}} for p in probs[:3]]}


FORMATS = [".fits", " .FiTs.Z ", "", "a&<b>\"'\xe9", ".fits.fz"]


def _transfer(size, direction, chunk, policy, seed=0):
    """one BLOB through the real chain; returns (received?, identical?, detail)"""
    import random
    import indi
    from indi.routing import Router
    from indi.device import values
    rnd = random.Random(seed + size)
    payload = bytes(rnd.randrange(256) for _ in range(size)) if size < 70000 else bytes(rnd.randrange(256) for _ in range(4096)) * (size // 4096) + b"\x00" * (size % 4096)
    fmt = FORMATS[(size + chunk + len(policy or "")) % len(FORMATS)]
    r = Router()
    d = make_dev(r)
    WC = wire_pair(chunk, blob_threshold_none=True)
    c = WC(r)
    c.send_message(indi.message.GetProperties(version="1.7"))
    if policy is not None:
        c.send_message(indi.message.EnableBLOB(device="DEV", value=policy))
    if direction == "down":
        d.main.blob.payload.value = values.BLOB(payload, fmt)
        got = c["DEV"]["BLOB"]["B"].value
        received = hasattr(got, "binary")
        same = received and got.binary == payload and got.format == fmt and got.size == len(payload)
        return received, same
    cv = c["DEV"]["BLOB"]
    cv["B"].value = values.BLOB(payload, fmt)
    cv.submit()
    got = d.main.blob.payload._value
    received = got is not None
    same = received and got.binary == payload and got.format == fmt
    return received, same


@kind("blob.grid")
def blob_grid(w):
    """Bounded stand-in for C08 (labelled bounded): payload lengths across the 1024-byte read size and the
    2048-character threshold x read fragmentation {1024, 1 (short payloads), 97} x client policy x direction.
    Uploads whose message exceeds the server-side threshold are the recorded known finding and are checked
    separately (kind blob.upload)."""
    sizes = w.get("sizes") or [0, 1, 2, 3, 100, 700, 765, 766, 767, 768, 769, 1000, 1023, 1024, 1025, 1400]
    big = w.get("big") or [1500, 1536, 2047, 2048, 2049, 3000, 4200]
    probs, cases = [], 0
    for direction in ("down", "up"):
        for size in sizes + (big if direction == "down" else []):
            for chunk in ((1024, 97) if size < 60000 else (1024,)) + ((1,) if size <= 100 else ()):
                for policy in ((None, "Never", "Also", "Only") if (direction == "down" and size < 60000) else ("Also",)):
                    cases += 1
                    try:
                        received, same = _transfer(size, direction, chunk, policy, w.get("seed", 0))
                    except Exception as e:
                        probs.append("%s size=%d chunk=%d policy=%s raised %r" % (direction, size, chunk, policy, e))
                        continue
                    want = direction == "up" or policy in ("Also", "Only")
                    if received != want:
                        probs.append("%s size=%d chunk=%d policy=%s: payload %s" % (direction, size, chunk, policy, "received without enabling" if received else "not received"))
                    elif received and not same:
                        probs.append("%s size=%d chunk=%d policy=%s: payload differs" % (direction, size, chunk, policy))
                    if len(probs) >= 4:
                        break
    return {"cases": cases, "failures": [{"detail": p, "reproduced": True, "witness": {"replay_kind": "blob.grid"}} for p in probs[:4]],
            "reproduced": bool(probs), "detail": "; ".join(probs[:4]) or "all transfers bit-exact"}


@kind("blob.upload")
def blob_upload(w):
    """the known finding's witness class: an upload whose newBLOBVector is longer than the server-side threshold"""
    size = w.get("size", 3000)
    received, same = _transfer(size, "up", 1024, "Also")
    return {"reproduced": not (received and same),
            "detail": "upload of %d bytes through a server connection (threshold 2048, reads of 1024): %s" % (size, "arrived intact" if (received and same) else "lost: junk recovery destroyed the partial message")}


# ---------------------------------------------------------------------------------------------------
# C01: random driver definitions x random histories; the client view must equal the device's published view
# ---------------------------------------------------------------------------------------------------
def _gen_driver(rnd, idx, depth):
    """a Driver subclass chain of the given depth with 1-3 groups; returns (class, device name)"""
    from indi.device import Driver, properties
    kinds = ["text", "number", "switch", "light", "blob"]
    fmts = ["%f", "%.2f", "%d", "%8.3f", "%.3m", "%.5m", "%.6m", "%.8m", "%.9m", "%+.1f"]

    def vec(tag):
        k = rnd.choice(kinds)
        n = rnd.randint(1, 3)
        name = "%s_%s" % (k.upper(), tag)
        en = rnd.random() > 0.2
        if k == "text":
            return properties.TextVector(name, enabled=en, label=rnd.choice([None, "lbl " + tag]),
                                         elements={"k%d" % i: properties.Text("E%d" % i, default=rnd.choice(["", "x", "a<&>\"b'", "\xe9"]), enabled=rnd.random() > 0.15) for i in range(n)})
        if k == "number":
            return properties.NumberVector(name, enabled=en, elements={"k%d" % i: properties.Number("E%d" % i, default=rnd.choice([0, 1.5, -0.25, 12.999999, -3, 1e6]), format=rnd.choice(fmts)) for i in range(n)})
        if k == "switch":
            rule = rnd.choice(["OneOfMany", "AtMostOne", "AnyOfMany"])
            return properties.SwitchVector(name, enabled=en, rule=rule, default_on="E0" if rule == "OneOfMany" else rnd.choice([None, "E0"]),
                                           elements={"k%d" % i: properties.Switch("E%d" % i) for i in range(n)})
        if k == "light":
            return properties.LightVector(name, enabled=en, elements={"k%d" % i: properties.Light("E%d" % i, default=rnd.choice(["Idle", "Ok", "Busy", "Alert"])) for i in range(n)})
        return properties.BLOBVector(name, enabled=en, elements={"k%d" % i: properties.BLOB("E%d" % i) for i in range(n)})
    cls = Driver
    for lvl in range(depth):
        dct = {"name": "DEV%d" % idx}
        for g in range(rnd.randint(1, 2) if lvl else rnd.randint(1, 3)):
            gname = "G%d_%d" % (lvl, g)
            dct["g%d_%d" % (lvl, g)] = properties.Group(gname, enabled=rnd.random() > 0.2,
                                                        vectors={"v%d" % j: vec("%d%d%d" % (lvl, g, j)) for j in range(rnd.randint(1, 2))})
        if lvl and rnd.random() < 0.3:          # override an inherited group attribute
            dct["g0_0"] = properties.Group("G0_0x", vectors={"v0": vec("ovr%d" % lvl)})
        cls = type(cls)("Dev%d_%d" % (idx, lvl), (cls,), dct)
    return cls, "DEV%d" % idx


def published_view(d):
    """what a mirror must show for device d (from the statement): its currently enabled properties with state, label, group and
    the enabled elements' values as rendered on the wire"""
    from indi.device.values import num_to_str
    out = {}
    for v in d._vectors.values():
        if not v.enabled:
            continue
        els = {}
        for e in v._elements.values():
            if not e.enabled:
                continue
            x = e._value
            if hasattr(x, "binary"):
                x = ("BLOB", x.binary, x.format)
            elif v.__class__.__name__ == "NumberVector":
                x = num_to_str(x, e._definition.format)
            els[e.name] = x
        out[v.name] = {"kind": v.__class__.__name__, "state": v._state, "label": v._definition.label, "group": v._group.name, "elements": els}
    return out


def client_view(c, dev):
    out = {}
    if dev not in c.devices:
        return out
    for vn, vec in c.devices[dev].vectors.items():
        els = {}
        for en, el in vec.elements.items():
            x = el.value
            els[en] = ("BLOB", x.binary, x.format) if hasattr(x, "binary") else x
        out[vn] = {"kind": vec.__class__.__name__, "state": vec.state, "label": vec.label, "group": vec.group, "elements": els}
    return out


def _norm(view, blobs, other=None):
    """other: the view this one is compared with (a BLOB element a client shows as empty has simply not received a payload since
    the property was last defined to it -- definitions carry no payload -- so it is compared as empty on both sides)"""
    out = {}
    for vn, v in view.items():
        els = dict(v["elements"])
        if v["kind"] == "BLOBVector" and not blobs:
            # a client that did not enable BLOBs receives no setBLOBVector at all (C05): neither payloads nor the state they carry
            els = {k: None for k in els}
            v = dict(v, state=None)
        else:
            els = {k: (("BLOB", b"", "") if (v["kind"] == "BLOBVector" and x is None) else x) for k, x in els.items()}
            els = {k: (None if x == ("BLOB", b"", "") else x) for k, x in els.items()}
        if v["kind"] == "BLOBVector" and other is not None and vn in other:
            els = {k: (None if other[vn]["elements"].get(k, 0) is None else x) for k, x in els.items()}
        # the wire does not distinguish an empty text from no text
        els = {k: (None if x == "" else x) for k, x in els.items()}
        out[vn] = dict(v, elements=els, label=v["label"] or None)
    return out


def _history(seed, steps, chunk):
    import random
    import indi
    from indi.routing import Router
    from indi.device import values
    rnd = random.Random(seed)
    r = Router()
    devs = []
    for i in range(rnd.randint(1, 3)):
        cls, name = _gen_driver(rnd, i, rnd.randint(1, 3))
        devs.append(cls(router=r))
    WC = wire_pair(chunk, blob_threshold_none=True)
    net = WC(r)
    net.blob_policy = "Also"
    snoop = devs[0].snooping_client if len(devs) > 1 else None
    clients = [("network", net, True)] + ([("snooping", snoop, False)] if snoop else [])
    log = []
    net.send_message(indi.message.GetProperties(version="1.7"))
    if snoop:
        for d in devs[1:]:
            devs[0].snoop_device(d.name)
    states = ["Idle", "Ok", "Busy", "Alert"]

    def compare(when):
        for cname, c, blobs in clients:
            for d in devs:
                if cname == "snooping" and d is devs[0]:
                    continue
                cv = client_view(c, d.name)
                want, got = _norm(published_view(d), blobs, cv), _norm(cv, blobs)
                if want != got:
                    diff = [k for k in set(want) | set(got) if want.get(k) != got.get(k)]
                    k = sorted(diff)[0]
                    short = lambda x: {a: (("BLOB", len(b[1]), b[2]) if isinstance(b, tuple) else b) for a, b in x["elements"].items()} if x else x
                    want = {k: dict(want[k], elements=short(want[k]))} if k in want else {}
                    got = {k: dict(got[k], elements=short(got[k]))} if k in got else {}
                    return "%s client, device %s, %s: property %s: device has %r, client shows %r; history: %s" % (
                        cname, d.name, when, k, want.get(k), got.get(k), "; ".join(log[-6:]))
        return None
    p = compare("after the handshake")
    if p:
        return p
    for step in range(steps):
        d = rnd.choice(devs)
        v = rnd.choice(list(d._vectors.values()))
        e = rnd.choice(list(v._elements.values()))
        op = rnd.choice(["assign", "assign", "set_value", "state", "vec_enabled", "group_enabled", "client_write", "client_write", "handshake", "handshake_device", "bool", "selected"])
        kindn = v.__class__.__name__
        try:
            if op in ("assign", "set_value"):
                if kindn == "TextVector":
                    val = rnd.choice(["", "t%d" % step, "<x a='1'/>&amp;", "\xe9\xff"])
                elif kindn == "NumberVector":
                    val = rnd.choice([0, -0.25, 1.999999, 59.5 / 60, -1.5, step * 1.25, 7])
                elif kindn == "SwitchVector":
                    val = rnd.choice(["On", "Off"])
                elif kindn == "LightVector":
                    val = rnd.choice(states)
                else:
                    val = values.BLOB(bytes(rnd.randrange(256) for _ in range(rnd.choice([0, 1, 300, 1500]))), rnd.choice([".fits", "", ".x y"]))
                log.append("%s.%s.%s %s %r" % (d.name, v.name, e.name, op, val if kindn != "BLOBVector" else "<blob %d>" % val.size))
                if op == "assign":
                    e.value = val
                else:
                    e.set_value(val)
            elif op == "bool" and kindn == "SwitchVector":
                b = rnd.random() > 0.5
                log.append("%s.%s.%s bool_value=%r" % (d.name, v.name, e.name, b))
                e.bool_value = b
            elif op == "selected" and kindn == "SwitchVector":
                log.append("%s.%s selected_value=%s" % (d.name, v.name, e.name))
                try:
                    v.selected_value = e.name
                except AttributeError:
                    pass
            elif op == "state":
                s = rnd.choice(states)
                log.append("%s.%s state_=%s" % (d.name, v.name, s))
                v.state_ = s
            elif op == "vec_enabled":
                b = rnd.random() > 0.4
                log.append("%s.%s enabled=%r" % (d.name, v.name, b))
                v.enabled = b
            elif op == "group_enabled":
                g = v._group
                b = rnd.random() > 0.4
                log.append("%s group %s enabled=%r" % (d.name, g.name, b))
                g.enabled = b
            elif op == "handshake":
                log.append("handshake")
                net.send_message(indi.message.GetProperties(version="1.7"))
            elif op == "handshake_device":
                # a getProperties naming one device (what waitforevent's polling and snoop_device send) must not narrow what the client receives afterwards
                log.append("getProperties device=%s" % d.name)
                net.send_message(indi.message.GetProperties(version="1.7", device=d.name))
                if snoop and d is not devs[0]:
                    devs[0].snoop_device(d.name)
            elif op == "client_write":
                cv = net.devices.get(d.name) and net.devices[d.name].vectors.get(v.name)
                if cv is None or kindn in ("LightVector",) or not cv.elements:
                    continue
                en = rnd.choice(list(cv.elements))
                if kindn == "TextVector":
                    val = rnd.choice(["w%d" % step, "a b", "&"])
                elif kindn == "NumberVector":
                    val = rnd.choice(["1", "-2.5", "12:30", "-0:15:30", "+7", "3;30"])
                elif kindn == "SwitchVector":
                    val = rnd.choice(["On", "Off"])
                else:
                    val = values.BLOB(bytes(rnd.randrange(256) for _ in range(rnd.choice([0, 5, 700]))), ".up")
                log.append("client writes %s.%s.%s=%r" % (d.name, v.name, en, val if kindn != "BLOBVector" else "<blob>"))
                cv[en].value = val
                cv.submit()
        except (ValueError, AssertionError) as ex:
            log.append("  (rejected: %s)" % type(ex).__name__)
        p = compare("after step %d" % step)
        if p:
            return p
    return None


@kind("converge.history")
def converge_history(w):
    """Bounded stand-in for C01 (labelled bounded): random driver definitions (1-3 devices, 1-3 groups, all vector kinds and switch rules,
    printf and sexagesimal formats, disabled groups / vectors / elements, inheritance depth <= 3 with overriding) x random histories of
    driver-side and client-side operations; a network client behind the real serializer and framing buffers (fragmentation 1024 / 7 / 1)
    and an in-process snooping client; after every step the client views must equal the devices' published views."""
    n = w.get("n", 150)
    steps = w.get("steps", 25)
    probs, cases = [], 0
    for i in range(n):
        for chunk in ((1024, 7) if i % 5 else (1,)):
            cases += 1
            try:
                p = _history(w.get("seed", 0) * 100003 + i, steps, chunk)
            except Exception as e:
                import traceback
                p = "history %d raised %r: %s" % (i, e, traceback.format_exc()[-600:])
            if p:
                probs.append("seed %d chunk %d: %s" % (i, chunk, p))
                break
        if len(probs) >= 3:
            break
    return {"cases": cases, "reproduced": bool(probs), "detail": "; ".join(probs[:2]) or "client views equal the devices' published views after every step",
            "failures": [{"detail": p, "reproduced": True, "witness": {"replay_kind": "converge.history"}} for p in probs[:3]]}


@kind("converge.long_message")
def converge_long_message(w):
    """F34 witness: a definition longer than the control connection's junk threshold never reaches the client's mirror"""
    import indi
    from indi.routing import Router
    from indi.device import Driver, properties
    r = Router()

    class Big(Driver):
        name = "BIG"
        g = properties.Group("G", vectors=dict(sw=properties.SwitchVector("SW", rule="AnyOfMany", elements={"k%d" % i: properties.Switch("ELEMENT_NUMBER_%d" % i, label="label %d" % i) for i in range(w.get("n", 60))})))
    d = Big(router=r)
    WC = wire_pair(1024, blob_threshold_none=False)       # the control connection keeps the default threshold
    c = WC(r)
    c.send_message(indi.message.GetProperties(version="1.7"))
    size = len(d.g.sw.to_def_message().to_string())
    seen = "BIG" in c.devices and "SW" in c.devices["BIG"].vectors
    return {"reproduced": not seen, "detail": "a defSwitchVector of %d characters %s the client's mirror over a connection with the default threshold (reads of 1024)"
            % (size, "reached" if seen else "never reached")}


@kind("converge.two_links")
def converge_two_links(w):
    """F35 witness: the library's Client feeds one mirror from two connections; a definition still in flight on the (slower) BLOB
    connection replaces the property after a newer update arrived on the control connection"""
    import asyncio
    import logging
    logging.disable(logging.CRITICAL)
    from indi.routing import Router
    from indi.device import Driver, properties
    from indi.transport.server.tcp import ConnectionHandler as SrvConn
    from indi.transport.client.tcp import ConnectionHandler as CliConn
    from indi.client.client import Client

    class Pipe:
        def __init__(self):
            self.buf, self.ev, self.closed = bytearray(), asyncio.Event(), False
            self.gate = asyncio.Event()
            self.gate.set()

        def write(self, d):
            self.buf += d
            self.ev.set()

        async def drain(self):
            pass

        def close(self):
            self.closed = True
            self.ev.set()

        async def read(self, n):
            await self.gate.wait()
            while not self.buf and not self.closed:
                self.ev.clear()
                await self.ev.wait()
                await self.gate.wait()
            d = bytes(self.buf[:n])
            del self.buf[:n]
            return d
    pipes = []

    class FakeTCP:
        def __init__(self, router):
            self.router = router

        async def connect(self, cb, for_blobs=False):
            c2s, s2c = Pipe(), Pipe()
            pipes.append((c2s, s2c))
            asyncio.create_task(SrvConn.handler(self.router)(c2s, s2c))
            return CliConn(s2c, c2s, cb, for_blobs=for_blobs)

    class Dev(Driver):
        name = "D"
        main = properties.Group("MAIN", vectors=dict(num=properties.NumberVector("TEMP", elements=dict(x=properties.Number("T", default=1.0)))))

    async def main():
        r = Router()
        d = Dev(router=r)
        c = Client(FakeTCP(r), FakeTCP(r))
        await c.start()
        slow = pipes[1][1]
        slow.gate.clear()
        await asyncio.sleep(0.05)
        d.main.num.x.value = 2.0
        await asyncio.sleep(0.05)
        slow.gate.set()
        await asyncio.sleep(0.05)
        mirror, truth = c["D"]["TEMP"]["T"].value, "%f" % d.main.num.x.value
        return mirror, truth
    mirror, truth = asyncio.run(main())
    return {"reproduced": mirror != truth, "detail": "at quiescence the client shows T=%s, the device has T=%s" % (mirror, truth)}
