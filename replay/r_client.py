"""Native reference interpreter of the INDI client rules (C15/C16), from the statements."""
from registry import kind


def ref_apply(view, m):
    """view: {dev: {vec: {"kind","state","label","group","elements":{name: value}}}}"""
    from indi import message as M
    import base64
    cn = m.__class__.__name__
    if isinstance(m, M.DefVector):
        d = view.setdefault(m.device, {})
        d[m.name] = {"kind": cn[3:-6], "state": m.state, "label": m.label, "group": m.group,
                     "elements": {c.name: c.value for c in (m.children or ())}}
    elif isinstance(m, M.SetVector):
        v = view.get(m.device, {}).get(m.name)
        if v is not None and v["kind"] == cn[3:-6]:
            v["state"] = m.state
            for c in (m.children or ()):
                if c.name in v["elements"]:
                    if v["kind"] == "BLOB":
                        try:
                            v["elements"][c.name] = ("BLOB", base64.b64decode(c.value or ""), c.format)
                        except ValueError:
                            pass          # an undecodable payload leaves the element as it was
                    else:
                        v["elements"][c.name] = c.value
    elif isinstance(m, M.DelProperty):
        if m.name is None:
            view.pop(m.device, None)
        elif m.device in view:
            view[m.device].pop(m.name, None)
    return view


def real_view(client):
    out = {}
    for dn, dev in client.devices.items():
        out[dn] = {}
        for vn, vec in dev.vectors.items():
            els = {}
            for en, el in vec.elements.items():
                v = el.value
                els[en] = ("BLOB", v.binary, v.format) if hasattr(v, "binary") else v
            out[dn][vn] = {"kind": vec.__class__.__name__[:-6], "state": vec.state, "label": vec.label, "group": vec.group, "elements": els}
    return out


@kind("client.step")
def client_step(w):
    """random streams over a small universe, real client vs reference interpreter"""
    import random
    import copy
    from indi import message as M
    from indi.message import def_parts as DP, one_parts as OP
    from indi.device.snoop import SnoopingClient
    rnd = random.Random(w.get("seed", 0))
    kinds = ["Text", "Number", "Switch", "Light", "BLOB"]
    vals = {"Text": ["a", "b", ""], "Number": ["1", "2.5"], "Switch": ["On", "Off"], "Light": ["Ok", "Busy"], "BLOB": ["YWJj", "", None, "YWJ", "!!!", "eHl6"]}
    cases = 0
    for it in range(w.get("n", 200)):
        c = SnoopingClient(None)
        view = {}
        stream = []
        for step in range(rnd.randint(1, 8)):
            k = rnd.choice(kinds)
            dev, vec = rnd.choice(["A", "B"]), rnd.choice(["P", "Q"])
            r = rnd.random()
            names = [rnd.choice(["x", "y", "z"]) for _ in range(rnd.randint(0, 3))]
            if r < 0.4:
                extra = {"format": "%f", "min": "0", "max": "1", "step": "0"} if k == "Number" else {}
                ch = tuple(getattr(DP, "Def" + k)(name=n, value=rnd.choice([v for v in vals[k] if v is not None] if k in ("Switch", "Light") else vals[k]), **extra) for n in names)
                kw = dict(device=dev, name=vec, state=rnd.choice(["Idle", "Ok", "Busy", "Alert"]), children=ch)
                if k != "Light":
                    kw["perm"] = "rw"
                if k == "Switch":
                    kw["rule"] = "AnyOfMany"
                m = getattr(M, "Def%sVector" % k)(**kw)
            elif r < 0.8:
                def part(n):
                    v = rnd.choice(vals[k] if k not in ("Switch", "Light") else [x for x in vals[k]])
                    if k == "BLOB":
                        return OP.OneBLOB(name=n, value=v, size=rnd.choice(["3", "0", "99", "abc", ""]), format=rnd.choice([".x", ".fits.z"]))
                    return getattr(OP, "One" + k)(name=n, value=v)
                m = getattr(M, "Set%sVector" % k)(device=dev, name=vec, state=rnd.choice(["Idle", "Ok", "Busy", "Alert"]), children=tuple(part(n) for n in names))
            elif r < 0.9:
                m = M.DelProperty(device=dev, name=rnd.choice([vec, None]))
            else:
                m = rnd.choice([M.Message(device=dev, message="hi"), M.PingRequest(uid="1"), M.GetProperties(version="1.7")])
            stream.append(m)
            try:
                c.process_message(m)
            except Exception as e:
                return {"reproduced": True, "detail": "process_message raised %r on %s after %d messages" % (e, m.__class__.__name__, step), "cases": cases}
            view = ref_apply(view, m)
            cases += 1
            if real_view(c) != view:
                return {"reproduced": True, "detail": "client view differs from the reference after %s(device=%r, name=%r): %r vs %r"
                        % (m.__class__.__name__, getattr(m, "device", None), getattr(m, "name", None), real_view(c), view), "cases": cases}
    # an update without a state attribute (#IMPLIED in the protocol's DTD): the property keeps its state, the listed elements change
    from indi.transport.buffer import Buffer
    c = SnoopingClient(None)
    b = Buffer()
    got = []
    stream = ('<defNumberVector device="A" name="P" state="Ok" perm="rw"><defNumber name="x" format="%f" min="0" max="9" step="1">1</defNumber></defNumberVector>'
              '<setNumberVector device="A" name="P"><oneNumber name="x">2</oneNumber></setNumberVector>'
              '<setNumberVector device="A" name="P" state="Busy"><oneNumber name="x">3</oneNumber></setNumberVector>')
    b.append(stream)
    b.process(lambda m: (got.append(m), c.process_message(m)))
    cases += 1
    shown = c.devices["A"].vectors["P"].elements["x"].value if "A" in c.devices else None
    if len(got) != 3 or shown != "3":
        return {"reproduced": True, "cases": cases, "detail": "an update without state is not applied: %d of 3 messages delivered, the client shows x=%r" % (len(got), shown),
                "failures": [{"detail": "a set*Vector without the (optional) state attribute is rejected by the parser: the update is lost and, being a complete element the parser refuses, it blocks "
                                        "the updates behind it until the junk threshold is exceeded (%d of 3 messages delivered, client shows x=%r)" % (len(got), shown),
                              "reproduced": True, "witness": {"replay_kind": "client.step", "class": "set-without-state"}}]}
    return {"reproduced": False, "detail": "client agrees with the reference interpreter on %d steps" % cases, "cases": cases, "failures": []}


def _random_message(rnd, kinds, vals):
    from indi import message as M
    from indi.message import def_parts as DP, one_parts as OP
    import base64
    k = rnd.choice(kinds)
    dev, vec = rnd.choice(["A", "B"]), rnd.choice(["P", "Q"])
    r = rnd.random()
    names = [rnd.choice(["x", "y", "z"]) for _ in range(rnd.randint(0, 3))]
    if r < 0.35:
        extra = {"format": "%f", "min": "0", "max": "1", "step": "0"} if k == "Number" else {}
        ch = tuple(getattr(DP, "Def" + k)(name=n, value=(None if k == "BLOB" else rnd.choice([v for v in vals[k] if v is not None])), **extra) for n in names)
        kw = dict(device=dev, name=vec, state=rnd.choice(["Idle", "Ok", "Busy", "Alert"]), children=ch)
        if k != "Light":
            kw["perm"] = "rw"
        if k == "Switch":
            kw["rule"] = "AnyOfMany"
        return getattr(M, "Def%sVector" % k)(**kw)
    if r < 0.85:
        def part(n):
            v = rnd.choice(vals[k])
            if k == "BLOB":
                return OP.OneBLOB(name=n, value=v, size=rnd.choice(["3", "0", "7", "x"]), format=".x")
            return getattr(OP, "One" + k)(name=n, value=v)
        return getattr(M, "Set%sVector" % k)(device=dev, name=vec, state=rnd.choice(["Idle", "Ok", "Busy", "Alert"]), children=tuple(part(n) for n in names))
    if r < 0.93:
        return M.DelProperty(device=dev, name=rnd.choice([vec, None]))
    return rnd.choice([M.Message(device=dev, message="hi"), M.PingRequest(uid="1")])


@kind("client.events")
def client_events(w):
    """C16 natively: (a) an application that only listens to events (catch-all callback) never holds a stale value or state: chains are
    unbroken per element / property object and end at the current value; (b) every registered callback gets exactly the events matching its
    filters (independent matching rule), removed callbacks get nothing, a raising callback does not stop the others."""
    import random
    from indi.client import events as EV
    from indi.device.snoop import SnoopingClient
    rnd = random.Random(w.get("seed", 0))
    kinds = ["Text", "Number", "Switch", "Light", "BLOB"]
    vals = {"Text": ["a", "b", ""], "Number": ["1", "2.5"], "Switch": ["On", "Off"], "Light": ["Ok", "Busy"], "BLOB": ["YWJj", "", "eHl6", "YWJ"]}
    cases = 0

    def shown(v):
        return ("BLOB", v.binary, v.format) if hasattr(v, "binary") else v
    for it in range(w.get("n", 80)):
        c = SnoopingClient(None)
        heard_val, heard_state, all_events = {}, {}, []

        def listen(ev):
            all_events.append(ev)
            if isinstance(ev, EV.ValueUpdate):
                key = id(ev.element)
                if key in heard_val and shown(heard_val[key][1]) != shown(ev.old_value):
                    raise AssertionError("chain broken: event old value %r, the listener last heard %r" % (shown(ev.old_value), shown(heard_val[key][1])))
                # (a definition announces every element, also one without content: the first event of an element object is exempt)
                if key in heard_val and shown(ev.old_value) == shown(ev.new_value) and not hasattr(ev.new_value, "binary"):
                    raise AssertionError("ValueUpdate although the value did not change (%r)" % (shown(ev.new_value),))
                heard_val[key] = (ev.element, ev.new_value)
            elif isinstance(ev, EV.StateUpdate):
                key = id(ev.vector)
                if key in heard_state and heard_state[key][1] != ev.old_state:
                    raise AssertionError("state chain broken")
                if ev.old_state == ev.new_state:
                    raise AssertionError("StateUpdate although the state did not change")
                heard_state[key] = (ev.vector, ev.new_state)
        problems = []

        def safe_listen(ev):
            try:
                listen(ev)
            except AssertionError as e:
                problems.append(str(e))
        c.onevent(callback=safe_listen)
        # filtered callbacks
        regs = []
        for j in range(rnd.randint(0, 4)):
            f = dict(device=rnd.choice([None, None, None, "A", "B", "Z"]), vector=rnd.choice([None, None, None, "P", "Q", "Z"]),
                     element=rnd.choice([None, None, None, "x", "y", "Z"]),
                     event_type=rnd.choice([EV.BaseEvent, EV.BaseEvent, EV.ValueUpdate, EV.StateUpdate, EV.DefinitionUpdate]))
            got = []
            boom = rnd.random() < 0.3
            oneshot = rnd.random() < 0.3          # removes itself while being dispatched to (a one-shot listener)
            cell = {}

            def cb(ev, got=got, boom=boom, oneshot=oneshot, cell=cell):
                got.append(ev)
                if oneshot and "done" not in cell:
                    cell["done"] = True
                    c.rmonevent(uuid=cell["uid"])
                if boom:
                    raise RuntimeError("callback failure")
            uid = c.onevent(callback=cb, **f)
            cell["uid"] = uid
            regs.append({"f": f, "got": got, "uid": uid, "active": True, "from": 0, "oneshot": oneshot})
        for step in range(rnd.randint(1, 10)):
            m = _random_message(rnd, kinds, vals)
            mark = len(all_events)
            try:
                c.process_message(m)
            except Exception as e:
                return {"reproduced": True, "detail": "process_message raised %r" % (e,), "cases": cases, "failures": []}
            cases += 1
            new = all_events[mark:]
            for r in regs:
                f = r["f"]

                def match(ev):
                    if not isinstance(ev, f["event_type"]):
                        return False
                    if f["device"] is not None and (ev.device is None or ev.device.name != f["device"]):
                        return False
                    if f["vector"] is not None and (ev.vector is None or ev.vector.name != f["vector"]):
                        return False
                    if f["element"] is not None and (ev.element is None or ev.element.name != f["element"]):
                        return False
                    return True
                want = [ev for ev in new if match(ev)] if r["active"] else []
                if r["oneshot"] and r["active"] and want:
                    want = want[:1]          # it removed itself on its first event
                    r["active"] = False
                got = r["got"][r["from"]:]
                r["from"] = len(r["got"])
                if [id(x) for x in got] != [id(x) for x in want]:
                    problems.append("callback with filter %r (%s) got %d event(s) for %s, %d match its filter"
                                    % ({k: (v.__name__ if isinstance(v, type) else v) for k, v in f.items()}, "registered" if r["active"] else "removed",
                                       len(got), m.__class__.__name__, len(want)))
            if regs and rnd.random() < 0.25:
                r = rnd.choice(regs)
                if r["active"]:
                    c.rmonevent(uuid=r["uid"])
                    r["active"] = False
            # the listener's knowledge equals the client's view
            for dev in c.devices.values():
                for vec in dev.vectors.values():
                    if id(vec) in heard_state and heard_state[id(vec)][1] != vec.state:
                        problems.append("a listener holds state %r for %s.%s, the client shows %r" % (heard_state[id(vec)][1], dev.name, vec.name, vec.state))
                    if id(vec) not in heard_state and vec.state is not None:
                        problems.append("no state event was ever raised for %s.%s (state %r)" % (dev.name, vec.name, vec.state))
                    for el in vec.elements.values():
                        cur = shown(el.value)
                        if id(el) in heard_val:
                            if shown(heard_val[id(el)][1]) != cur:
                                problems.append("a listener holds %r for %s.%s.%s, the client shows %r" % (shown(heard_val[id(el)][1]), dev.name, vec.name, el.name, cur))
                        elif cur is not None:
                            problems.append("no value event was ever raised for %s.%s.%s (value %r)" % (dev.name, vec.name, el.name, cur))
            if problems:
                return {"reproduced": True, "detail": "; ".join(problems[:3]), "cases": cases,
                        "failures": [{"detail": p, "reproduced": True, "witness": {"replay_kind": "client.events"}} for p in problems[:3]]}
    return {"reproduced": False, "detail": "event chains unbroken and callbacks exact on %d steps" % cases, "cases": cases, "failures": []}
