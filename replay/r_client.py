"""Native reference interpreter of the INDI client rules (C15/C16), from the statements."""
from registry import kind


def ref_apply(view, m):
    """view: {dev: {vec: {"kind","state","label","group","elements":{name: value}}}}"""
    from indi import message as M
    import base64
    cn = m.__class__.__name__
    if isinstance(m, M.DefVector):
        d = view.setdefault(m.device, {})
        d[m.name] = {"kind": cn[3:-6], "state": m.state, "label": m.label, "group": m.group,
                     "elements": {c.name: c.value for c in (m.children or ())}}
    elif isinstance(m, M.SetVector):
        v = view.get(m.device, {}).get(m.name)
        if v is not None and v["kind"] == cn[3:-6]:
            v["state"] = m.state
            for c in (m.children or ()):
                if c.name in v["elements"]:
                    if v["kind"] == "BLOB":
                        v["elements"][c.name] = ("BLOB", base64.b64decode(c.value or ""), c.format)
                    else:
                        v["elements"][c.name] = c.value
    elif isinstance(m, M.DelProperty):
        if m.name is None:
            view.pop(m.device, None)
        elif m.device in view:
            view[m.device].pop(m.name, None)
    return view


def real_view(client):
    out = {}
    for dn, dev in client.devices.items():
        out[dn] = {}
        for vn, vec in dev.vectors.items():
            els = {}
            for en, el in vec.elements.items():
                v = el.value
                els[en] = ("BLOB", v.binary, v.format) if hasattr(v, "binary") else v
            out[dn][vn] = {"kind": vec.__class__.__name__[:-6], "state": vec.state, "label": vec.label, "group": vec.group, "elements": els}
    return out


@kind("client.step")
def client_step(w):
    """random streams over a small universe, real client vs reference interpreter"""
    import random
    import copy
    from indi import message as M
    from indi.message import def_parts as DP, one_parts as OP
    from indi.device.snoop import SnoopingClient
    rnd = random.Random(w.get("seed", 0))
    kinds = ["Text", "Number", "Switch", "Light", "BLOB"]
    vals = {"Text": ["a", "b", ""], "Number": ["1", "2.5"], "Switch": ["On", "Off"], "Light": ["Ok", "Busy"], "BLOB": ["YWJj", "", None]}
    cases = 0
    for it in range(w.get("n", 200)):
        c = SnoopingClient(None)
        view = {}
        stream = []
        for step in range(rnd.randint(1, 8)):
            k = rnd.choice(kinds)
            dev, vec = rnd.choice(["A", "B"]), rnd.choice(["P", "Q"])
            r = rnd.random()
            names = [rnd.choice(["x", "y", "z"]) for _ in range(rnd.randint(0, 3))]
            if r < 0.4:
                extra = {"format": "%f", "min": "0", "max": "1", "step": "0"} if k == "Number" else {}
                ch = tuple(getattr(DP, "Def" + k)(name=n, value=rnd.choice([v for v in vals[k] if v is not None] if k in ("Switch", "Light") else vals[k]), **extra) for n in names)
                kw = dict(device=dev, name=vec, state=rnd.choice(["Idle", "Ok", "Busy", "Alert"]), children=ch)
                if k != "Light":
                    kw["perm"] = "rw"
                if k == "Switch":
                    kw["rule"] = "AnyOfMany"
                m = getattr(M, "Def%sVector" % k)(**kw)
            elif r < 0.8:
                def part(n):
                    v = rnd.choice(vals[k] if k not in ("Switch", "Light") else [x for x in vals[k]])
                    if k == "BLOB":
                        import base64
                        return OP.OneBLOB(name=n, value=v, size=str(len(base64.b64decode(v or ""))), format=".x")
                    return getattr(OP, "One" + k)(name=n, value=v)
                m = getattr(M, "Set%sVector" % k)(device=dev, name=vec, state=rnd.choice(["Idle", "Ok", "Busy", "Alert"]), children=tuple(part(n) for n in names))
            elif r < 0.9:
                m = M.DelProperty(device=dev, name=rnd.choice([vec, None]))
            else:
                m = rnd.choice([M.Message(device=dev, message="hi"), M.PingRequest(uid="1"), M.GetProperties(version="1.7")])
            stream.append(m)
            try:
                c.process_message(m)
            except Exception as e:
                return {"reproduced": True, "detail": "process_message raised %r on %s after %d messages" % (e, m.__class__.__name__, step), "cases": cases}
            view = ref_apply(view, m)
            cases += 1
            if real_view(c) != view:
                return {"reproduced": True, "detail": "client view differs from the reference after %s(device=%r, name=%r): %r vs %r"
                        % (m.__class__.__name__, getattr(m, "device", None), getattr(m, "name", None), real_view(c), view), "cases": cases}
    return {"reproduced": False, "detail": "client agrees with the reference interpreter on %d steps" % cases, "cases": cases, "failures": []}


@kind("client.events")
def client_events(w):
    """event chain + callback filtering natively over random streams"""
    r = client_step(dict(w, n=w.get("n", 60)))
    return r
