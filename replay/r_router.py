"""Native oracle for C04/C05/C12 (router) written from the statements."""
from registry import kind

FROM_DEVICE = {"defBLOBVector", "defLightVector", "defNumberVector", "defSwitchVector", "defTextVector",
               "setBLOBVector", "setLightVector", "setNumberVector", "setSwitchVector", "setTextVector",
               "delProperty", "message", "pingRequest", "getProperties"}
FROM_CLIENT = {"newBLOBVector", "newNumberVector", "newSwitchVector", "newTextVector", "enableBLOB",
               "pingReply", "getProperties"}


def lets_through(policy, payload):
    if payload:
        return policy in ("Also", "Only")
    return policy in (None, "Never", "Also")


def build_message(tag, device, value=None):
    from indi import message
    from indi.message import one_parts, def_parts
    M = message
    table = {
        "defBLOBVector": lambda: M.DefBLOBVector(device=device, name="P", state="Ok", perm="rw"),
        "defLightVector": lambda: M.DefLightVector(device=device, name="P", state="Ok"),
        "defNumberVector": lambda: M.DefNumberVector(device=device, name="P", state="Ok", perm="rw"),
        "defSwitchVector": lambda: M.DefSwitchVector(device=device, name="P", state="Ok", perm="rw", rule="OneOfMany"),
        "defTextVector": lambda: M.DefTextVector(device=device, name="P", state="Ok", perm="rw"),
        "setBLOBVector": lambda: M.SetBLOBVector(device=device, name="P", state="Ok",
                                                 children=(one_parts.OneBLOB(name="b", size=3, format=".x", value="YWJj"),)),
        "setLightVector": lambda: M.SetLightVector(device=device, name="P", state="Ok"),
        "setNumberVector": lambda: M.SetNumberVector(device=device, name="P", state="Ok"),
        "setSwitchVector": lambda: M.SetSwitchVector(device=device, name="P", state="Ok"),
        "setTextVector": lambda: M.SetTextVector(device=device, name="P", state="Ok"),
        "delProperty": lambda: M.DelProperty(device=device, name="P"),
        "message": lambda: M.Message(device=device, message="hi"),
        "pingRequest": lambda: M.PingRequest(uid="1"),
        "pingReply": lambda: M.PingReply(uid="1"),
        "getProperties": lambda: M.GetProperties(version="1.7", device=device),
        "newBLOBVector": lambda: M.NewBLOBVector(device=device, name="P"),
        "newNumberVector": lambda: M.NewNumberVector(device=device, name="P"),
        "newSwitchVector": lambda: M.NewSwitchVector(device=device, name="P"),
        "newTextVector": lambda: M.NewTextVector(device=device, name="P"),
        "enableBLOB": lambda: M.EnableBLOB(device=device, value=value or "Also"),
    }
    return table[tag]()


@kind("router.process_message")
def process_message(w):
    from indi.routing import Router, Client, Device

    class Cli(Client):
        def __init__(self):
            self.got = []

        def message_from_device(self, m):
            self.got.append(m)

    class Dev(Device):
        def __init__(self, acc):
            self.got = []
            self.acc = acc

        def accepts(self, device):
            return self.acc

        def message_from_client(self, m):
            self.got.append(m)

    if w.get("too_large"):
        return {"reproduced": False, "detail": "counter-model too large to concretise"}
    r = Router()
    clients = [Cli() for _ in range(w["n_clients"])]
    devices = [Dev(a) for a in w.get("accepts", [])]
    while len(devices) < w["n_devices"]:
        devices.append(Dev(False))
    for c in clients:
        r.register_client(c)
    for d in devices:
        r.register_device(d)
    dev = w.get("msg_device")
    tag = w["tag"]
    if tag in ("pingRequest", "pingReply"):
        dev = None
    pol = list(w.get("policies", []))
    for c, p in zip(clients, pol):
        if p is not None:
            r.blob_routing[c][dev] = p
    s = w.get("sender")
    if s is None:
        sender = None
    elif s == "other":
        sender = Cli()
    elif s[0] == "client":
        sender = clients[s[1]]
    else:
        sender = devices[s[1]]
    msg = build_message(tag, dev, w.get("msg_value"))
    try:
        r.process_message(msg, sender)
    except Exception as e:
        return {"reproduced": True, "detail": "Router.process_message raised %r (tag=%s, sender=%r)" % (e, tag, s)}
    problems = []
    for k, d in enumerate(devices):
        want = 1 if (tag in FROM_CLIENT and d is not sender and d.acc) else 0
        if len(d.got) != want or any(x is not msg for x in d.got):
            problems.append("device %d received %d copies, statement says %d" % (k, len(d.got), want))
    for k, c in enumerate(clients):
        p = pol[k] if k < len(pol) else None
        relayed = tag in FROM_CLIENT or sender not in clients       # a device-kind message sent by a registered client is not relayed (C12 / C04)
        want = 1 if (tag in FROM_DEVICE and relayed and c is not sender and lets_through(p, tag == "setBLOBVector")) else 0
        if len(c.got) != want or any(x is not msg for x in c.got):
            problems.append("client %d (policy %r for device %r) received %d copies of <%s>, statement says %d"
                            % (k, p, dev, len(c.got), tag, want))
    if tag == "enableBLOB" and s and s != "other" and s[0] == "client":
        if r.blob_routing[clients[s[1]]].get(dev) != (w.get("msg_value") or "Also"):
            problems.append("enableBLOB did not record the sender's policy")
    return {"reproduced": bool(problems), "detail": "; ".join(problems) or "real code agrees with the statement on this input"}


@kind("router.mutator")
def mutator(w):
    from indi.routing import Router, Client, Device
    from indi import message

    class Cli(Client):
        def message_from_device(self, m):
            pass
    r = Router()
    cs = [Cli() for _ in range(min(w.get("n_clients", 0), 6))]
    for c in cs:
        r.register_client(c)
    which = w["which"]
    x = cs[0] if (w.get("registered") and cs) else Cli()
    try:
        if which == "process_enable_blob":
            r.process_enable_blob(message.EnableBLOB(device="D", value="Also"), x)
            if x in cs and r.blob_routing[x].get("D") != "Also":
                return {"reproduced": True, "detail": "policy not recorded"}
        elif which == "unregister_client":
            r.unregister_client(x)
            if x in r.clients or x in r.blob_routing:
                return {"reproduced": True, "detail": "client not forgotten"}
        elif which == "register_client":
            r.register_client(x)
            if r.clients.count(x) != 1 or r.blob_routing.get(x) != {}:
                return {"reproduced": True, "detail": "client not registered with default policy"}
        elif which == "register_device":
            r.register_device(x)
            if r.devices != [x]:
                return {"reproduced": True, "detail": "device not registered"}
    except Exception as e:
        return {"reproduced": True, "detail": "Router.%s raised %r for %s endpoint" % (which, e, "a registered" if x in cs else "an unregistered")}
    return {"reproduced": False, "detail": "real code agrees on this input"}


@kind("router.accepts")
def accepts(w):
    from indi.device import Driver

    class D(Driver):
        name = w["name"]
    d = D()
    got = bool(d.accepts(w["device"]))
    want = w["device"] is None or w["device"] == w["name"]
    return {"reproduced": got != want, "detail": "Driver named %r accepts(%r) -> %r, statement says %r" % (w["name"], w["device"], got, want)}


@kind("router.enumerate")
def router_enumerate(w):
    """bounded stand-in for C04/C05 when a task is out of the engine's reach: every message tag x sender x 0-2 devices (accepting or not)
    x 0-2 clients with every policy, on the real router, against the statement's routing function"""
    import itertools
    probs, cases = [], 0
    tags = sorted(FROM_DEVICE | FROM_CLIENT)
    for tag in tags:
        for nd in (0, 1, 2):
            for acc in itertools.product([True, False], repeat=nd):
                for nc in (0, 1, 2):
                    for pol in itertools.product([None, "Never", "Also", "Only"], repeat=nc):
                        senders = [None, "other"] + [["client", i] for i in range(nc)] + [["device", i] for i in range(nd)]
                        for s in senders:
                            cases += 1
                            r = process_message({"tag": tag, "n_clients": nc, "n_devices": nd, "accepts": list(acc), "policies": list(pol), "sender": s,
                                                 "msg_device": "CAM", "msg_value": "Only"})
                            if r.get("reproduced"):
                                probs.append("%s sender=%s devices=%s policies=%s: %s" % (tag, s, acc, pol, r["detail"]))
                                if len(probs) >= 3:
                                    return {"cases": cases, "reproduced": True, "detail": "; ".join(probs),
                                            "failures": [{"detail": p, "reproduced": True, "witness": {"replay_kind": "router.enumerate"}} for p in probs]}
    return {"cases": cases, "reproduced": False, "detail": "real router agrees with the statement on every enumerated configuration", "failures": []}


@kind("router.history")
def router_history(w):
    """bounded stand-in for the history clauses of C04/C05 (a policy is the client's MOST RECENT enableBLOB for that device; nothing else
    changes it; unregistering forgets it): random histories of register / unregister / enableBLOB / device messages (incl. name-less
    delProperty) / client messages on the real router against a reference model"""
    import random
    from indi.routing import Router, Client, Device
    from indi import message as M
    rnd = random.Random(w.get("seed", 0))
    probs, cases = [], 0

    class Cli(Client):
        def __init__(self, n):
            self.n, self.got = n, []

        def message_from_device(self, m):
            self.got.append(m)

    class Dev(Device):
        def __init__(self, name):
            self.name, self.got = name, []

        def accepts(self, device):
            return device is None or device == self.name

        def message_from_client(self, m):
            self.got.append(m)
    for it in range(w.get("n", 300)):
        r = Router()
        devs = [Dev("A"), Dev("B")]
        for d in devs:
            r.register_device(d)
        clients = [Cli(i) for i in range(3)]
        registered, policy = [], {}
        log = []
        if rnd.random() < 0.5:
            for c in clients[:2]:
                r.register_client(c)
                registered.append(c)
                policy[c.n] = {}
        for step in range(rnd.randint(4, 20)):
            op = rnd.choice(["reg", "unreg", "enable", "enable", "enable", "dev", "dev", "dev", "dev", "dev", "cli"])
            c = rnd.choice(clients)
            if op == "reg" and c not in registered:
                r.register_client(c)
                registered.append(c)
                policy[c.n] = {}
                log.append("register c%d" % c.n)
            elif op == "unreg" and c in registered:
                r.unregister_client(c)
                registered.remove(c)
                policy.pop(c.n, None)
                log.append("unregister c%d" % c.n)
            elif op == "enable" and c in registered:
                dn, v = rnd.choice(["A", "B"]), rnd.choice(["Never", "Also", "Only"])
                r.process_message(M.EnableBLOB(device=dn, value=v), sender=c)
                policy[c.n][dn] = v
                log.append("c%d enableBLOB %s=%s" % (c.n, dn, v))
            elif op == "dev":
                d = rnd.choice(devs)
                tag = rnd.choice(["setBLOBVector", "setBLOBVector", "setTextVector", "setTextVector", "delProperty", "delProperty-whole", "delProperty-whole", "message", "defTextVector"])
                m = M.DelProperty(device=d.name) if tag == "delProperty-whole" else build_message(tag, d.name)
                for x in clients:
                    del x.got[:]
                r.process_message(m, sender=d)
                cases += 1
                log.append("%s sends %s" % (d.name, tag))
                for x in clients:
                    want = 1 if (x in registered and lets_through(policy[x.n].get(d.name), tag == "setBLOBVector")) else 0
                    if len(x.got) != want:
                        probs.append("client c%d (policy %r for %s, %s) received %d copies of %s, expected %d; history: %s"
                                     % (x.n, policy.get(x.n, {}).get(d.name), d.name, "registered" if x in registered else "not registered", len(x.got), tag, want, "; ".join(log[-7:])))
            elif op == "cli" and c in registered:
                tag = rnd.choice(["newTextVector", "getProperties", "delProperty", "setTextVector"])
                m = build_message(tag, rnd.choice(["A", "B"]))
                for x in clients:
                    del x.got[:]
                r.process_message(m, sender=c)
                cases += 1
                log.append("c%d sends %s" % (c.n, tag))
                for x in clients:
                    want = 1 if (tag == "getProperties" and x in registered and x is not c and lets_through(policy[x.n].get(m.device), False)) else 0
                    if len(x.got) != want:
                        probs.append("client c%d received %d copies of the %s sent by client c%d, expected %d; history: %s" % (x.n, len(x.got), tag, c.n, want, "; ".join(log[-7:])))
            if len(probs) >= 3:
                return {"cases": cases, "reproduced": True, "detail": "; ".join(probs[:2]),
                        "failures": [{"detail": p, "reproduced": True, "witness": {"replay_kind": "router.history"}} for p in probs[:3]]}
    return {"cases": cases, "reproduced": False, "detail": "real router agrees with the reference model on every history", "failures": []}
