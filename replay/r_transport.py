"""Native asyncio oracles (bounded, labelled as such): the real connection handlers and the real
waitforevent on a deterministic virtual-clock event loop with fake streams.  Written from the
statements of C17, C18 and C19; used to replay refuted obligations and as bounded stand-ins."""
import asyncio
import itertools
import logging

from registry import kind


class VLoop(asyncio.SelectorEventLoop):
    """virtual time: when nothing is ready the clock jumps to the next timer"""

    def __init__(self):
        super().__init__()
        self._vt = 0.0

    def time(self):
        return self._vt

    def _run_once(self):
        if not self._ready and self._scheduled:
            self._vt = max(self._vt, self._scheduled[0]._when)
        super()._run_once()


def run_virtual(coro_fn, horizon=1000.0):
    logging.disable(logging.CRITICAL)
    loop = VLoop()
    asyncio.set_event_loop(loop)
    try:
        return loop.run_until_complete(coro_fn(loop))
    finally:
        for t in asyncio.all_tasks(loop):
            t.cancel()
        loop.run_until_complete(asyncio.sleep(0))
        loop.close()


# ---------------------------------------------------------------------------------------------------
# C17
# ---------------------------------------------------------------------------------------------------
DEF_NUM = (b'<defNumberVector device="D" name="V" state="Idle" perm="rw">'
           b'<defNumber name="A" format="%g" min="0" max="100" step="1">1</defNumber>'
           b'<defNumber name="B" format="%g" min="0" max="100" step="1">1</defNumber></defNumberVector>')


def _set(a, b, state="Idle"):
    from indi.message import IndiMessage
    return IndiMessage.from_string(('<setNumberVector device="D" name="V" state="%s"><oneNumber name="A">%s</oneNumber>'
                                    '<oneNumber name="B">%s</oneNumber></setNumberVector>' % (state, a, b)).encode())


def _wait_case(cond, ek, timeout, polling, arrivals):
    """arrivals: list of (instant, matching?) ; returns list of problems"""
    from indi.client import events
    from indi.device.snoop import SnoopingClient
    from indi.message import IndiMessage, GetProperties

    async def main(loop):
        probs = []
        polls = []

        class C(SnoopingClient):
            def send_message(self, msg):
                if isinstance(msg, GetProperties):
                    polls.append(loop.time())
        c = C(None)
        c.process_message(IndiMessage.from_string(DEF_NUM))
        kw = dict(device="D", vector="V", timeout=timeout, polling_enabled=polling is not None)
        if polling is not None:
            kw.update(polling_delay=polling[0], polling_interval=polling[1])
        if ek == "value":
            kw["event_type"] = events.ValueUpdate
            match_v, other_v, init_v = "7", "1", "1"
        else:
            kw["event_type"] = events.StateUpdate
            match_v, other_v, init_v = "Busy", "Idle", "Idle"
        if cond == "expect":
            kw["expect"] = match_v
        elif cond == "initial":
            kw["initial"] = init_v
        else:
            kw["check"] = (lambda ev: ev.new_value == "7") if ek == "value" else (lambda ev: ev.new_state == "Busy")
        seen = []       # (instant, event) of matching events, in the order raised
        if ek == "value":
            c.onevent(device="D", vector="V", event_type=events.ValueUpdate, callback=lambda ev: seen.append((loop.time(), ev)) if ev.new_value == "7" else None)
        else:
            c.onevent(device="D", vector="V", event_type=events.StateUpdate, callback=lambda ev: seen.append((loop.time(), ev)) if ev.new_state == "Busy" else None)
        n_cb0 = len(c.callbacks)
        state = {"a": "1", "state": "Idle"}

        def inject(matching):
            # a non-matching event: the value/state returns to (stays) the initial one after a matching one, or B changes
            if ek == "value":
                if matching:
                    c.process_message(_set("7", "7"))          # two matching events in one message: A first
                else:
                    c.process_message(_set("1", "1"))
            else:
                c.process_message(_set("1", "1", "Busy" if matching else "Idle"))
        for t, matching in arrivals:
            loop.call_at(t, inject, matching)
        done_at = {}

        async def waiter():
            try:
                ev = await c.waitforevent(**kw)
                done_at["t"], done_at["ev"] = loop.time(), ev
            except Exception as e:
                done_at["t"], done_at["exc"] = loop.time(), e
        task = loop.create_task(waiter())
        horizon = max([t for t, _ in arrivals] + [timeout or 0]) + 6.0
        await asyncio.sleep(horizon)
        tm = [t for t, m in arrivals if m]
        # a non-matching injection for `initial` after a matching one is itself a departure?  no: it returns TO the initial value
        first_match = min(tm) if tm else None
        label = "%s/%s timeout=%s polling=%s arrivals=%s" % (cond, ek, timeout, polling, arrivals)
        if first_match is not None and (timeout is None or first_match < timeout):
            if "ev" not in done_at:
                probs.append("%s: a matching event arrived at %s before the timeout but the wait %s" % (label, first_match, "timed out" if "exc" in done_at else "never completed"))
            else:
                want = [e for t, e in seen if t == first_match][0]
                if done_at["ev"] is not want:
                    probs.append("%s: completed with another event than the first that satisfied the condition" % label)
                if done_at["t"] != first_match:
                    probs.append("%s: completed at %s, the event arrived at %s" % (label, done_at["t"], first_match))
            end = first_match
        elif timeout is not None:
            if "exc" not in done_at:
                probs.append("%s: no matching event before the timeout, but the wait %s" % (label, "returned an event" if "ev" in done_at else "never completed"))
            elif done_at["t"] != timeout:
                probs.append("%s: timed out at %s, not at the timeout instant" % (label, done_at["t"]))
            end = timeout
        else:
            if done_at:
                probs.append("%s: completed although nothing matched and there is no timeout" % label)
            end = None
        if polling is not None:
            want = []
            t = polling[0]
            while t < (end if end is not None else horizon):
                want.append(t)
                t += polling[1]
            if polls != want:
                probs.append("%s: getProperties re-requested at %s, expected %s" % (label, polls[:8], want[:8]))
        elif polls:
            probs.append("%s: polling disabled but getProperties sent" % label)
        if end is not None and len(c.callbacks) != n_cb0:
            probs.append("%s: %d callback(s) left registered" % (label, len(c.callbacks) - n_cb0))
        task.cancel()
        return probs
    return run_virtual(main)


@kind("client.wait")
def client_wait(w):
    """bounded: condition kinds x event kinds x timeout {None, 2, 4} x polling {off, (1,1), (0.5,2)} x arrival instants of one or
    two matching and one non-matching event on a quarter grid (no ties with timeout / polling instants)"""
    probs, cases = [], 0
    grid = [0.25, 1.25, 1.75, 2.25, 3.75, 4.25, 6.25]
    small = w.get("small", False)
    for cond in ("expect", "initial", "check"):
        for ek in ("value", "state"):
            for timeout in (None, 2.0, 4.0):
                for polling in ((None, (0.5, 2.0)) if small else (None, (1.0, 1.0), (0.5, 2.0), (1.5, 0.5))):      # delay != interval: swapping them shows
                    arr_sets = [[]] if timeout is not None else []
                    for m in grid:
                        arr_sets.append([(m, True)])
                        if not small:
                            arr_sets.append([(m - 0.125, False), (m, True)])
                            arr_sets.append([(m, True), (m + 0.5 - 0.125, True)])
                            arr_sets.append([(m, True), (m + 0.0625, False)])
                    for arr in arr_sets:
                        if cond == "initial" and ek == "state" and any(not mm for _, mm in arr):
                            pass
                        cases += 1
                        probs += _wait_case(cond, ek, timeout, polling, arr)
                        if len(probs) >= 3:
                            return {"cases": cases, "reproduced": True, "detail": "; ".join(probs[:3]),
                                    "failures": [{"detail": p, "reproduced": True, "witness": {"replay_kind": "client.wait"}} for p in probs[:3]]}
    return {"cases": cases, "reproduced": bool(probs), "detail": "; ".join(probs[:3]) or "every wait completed with the first matching event or at the timeout instant",
            "failures": [{"detail": p, "reproduced": True, "witness": {"replay_kind": "client.wait"}} for p in probs[:3]]}


# ---------------------------------------------------------------------------------------------------
# fake streams
# ---------------------------------------------------------------------------------------------------
class ScriptReader:
    """read()/readline() return the scripted items in order; an exception instance is raised; b"" is EOF;
    the item "cancel" cancels the reading task; after the script: EOF"""

    def __init__(self, script, text=False):
        self.script = list(script)
        self.text = text

    async def read(self, n=-1):
        await asyncio.sleep(0)
        if not self.script:
            return "" if self.text else b""
        it = self.script.pop(0)
        if isinstance(it, BaseException):
            raise it
        if it == "cancel":
            raise asyncio.CancelledError()
        return it.decode("latin1") if self.text and isinstance(it, bytes) else it

    readline = read


class GatedWriter:
    """write() records synchronously; drain()/flush() wait for gates opened by the scenario"""

    def __init__(self, text=False, fail_after=None):
        self.chunks, self.gates, self.auto, self.closed, self.text = [], [], False, 0, text
        self.fail_after = fail_after

    def _record(self, data):
        if self.fail_after is not None and len(self.chunks) >= self.fail_after:
            raise ConnectionResetError("peer gone")
        self.chunks.append(data.encode("latin1") if isinstance(data, str) else data)

    def write(self, data):
        if self.text:
            async def w():
                self._record(data)
            return w()
        self._record(data)

    async def _gate(self):
        if self.auto:
            return
        g = asyncio.get_running_loop().create_future()
        self.gates.append(g)
        await g

    drain = _gate
    flush = _gate

    def open_next(self):
        for g in self.gates:
            if not g.done():
                g.set_result(None)
                return True
        return False

    def open_all(self):
        self.auto = True
        for g in self.gates:
            if not g.done():
                g.set_result(None)

    def close(self):
        self.closed += 1


def _dev_msg(i, name="CFG"):
    from indi.message import IndiMessage
    return IndiMessage.from_string(('<setTextVector device="CAM" name="%s" state="Ok"><oneText name="A">m%s</oneText></setTextVector>' % (name, i)).encode())


NEW = b'<newTextVector device="CAM" name="CFG"><oneText name="A">x</oneText></newTextVector>'
ENABLE = b'<enableBLOB device="CAM">Also</enableBLOB>'
GETP = b'<getProperties version="1.7"/>'


# ---------------------------------------------------------------------------------------------------
# C18
# ---------------------------------------------------------------------------------------------------
def _teardown_case(transport, prefix, fault):
    from indi.routing import Router, Device

    class Cam(Device):
        def __init__(self, boom):
            self.boom, self.got = boom, 0

        def accepts(self, device):
            return True

        def message_from_client(self, message):
            self.got += 1
            if self.boom and message.__class__.__name__ == "NewTextVector":
                raise RuntimeError("handler exception")

    async def main(loop):
        probs = []
        r = Router()
        cam = Cam(fault == "handler-exception")
        r.register_device(cam)
        script = list(prefix)
        if fault == "eof":
            pass
        elif fault == "read-error":
            script.append(ConnectionResetError("reset"))
        elif fault == "eof-inside-message":
            script.append(NEW[:25])
        elif fault == "junk-then-eof":
            script.append(b"\x00\xff<<garbage&> <newTextVector <")
        elif fault == "handler-exception":
            script.append(NEW)
        elif fault == "cancel":
            script.append("cancel")
        elif fault == "os-error":
            script.append(OSError("io"))
        if transport == "tcp":
            from indi.transport.server import tcp
            w = GatedWriter()
            w.auto = True
            other_w = GatedWriter()
            other_w.auto = True
            other = tcp.ConnectionHandler(ScriptReader([]), other_w, r)
            hf = tcp.ConnectionHandler.handler(r)
            n0 = len(r.clients)
            t = loop.create_task(hf(ScriptReader(script), w))
        else:
            from indi.transport.server import tty
            w = GatedWriter(text=True)
            w.auto = True
            other_w = GatedWriter(text=True)
            other_w.auto = True
            other = tty.ConnectionHandler(r, ScriptReader([], text=True), other_w)
            n0 = len(r.clients)
            h = tty.ConnectionHandler(r, ScriptReader(script, text=True), w)
            t = loop.create_task(h.handle())
        for _ in range(60):
            await asyncio.sleep(0)
        label = "%s %s after %d reads" % (transport, fault, len(prefix))
        if not t.done():
            probs.append("%s: the handler never finished" % label)
        if len(r.clients) != n0:
            probs.append("%s: the router still knows the connection (%d clients registered, %d expected)" % (label, len(r.clients), n0))
        stale = [k for k in getattr(r, "blob_routing", {}) if k is not other and k not in r.clients]
        if stale:
            probs.append("%s: BLOB settings of the ended connection kept" % label)
        if transport == "tcp" and not w.closed:
            probs.append("%s: the connection was not closed" % label)
        sent0 = len(w.chunks)
        r.process_message(_dev_msg(9), sender=cam)
        for _ in range(10):
            await asyncio.sleep(0)
        if len(w.chunks) != sent0:
            probs.append("%s: delivery attempted to the ended connection" % label)
        if not any(b"m9" in c for c in other_w.chunks):
            probs.append("%s: the other connection no longer receives device traffic" % label)
        return probs
    return run_virtual(main)


@kind("transport.teardown")
def transport_teardown(w):
    """bounded: both server transports x fault kinds x session prefixes (nothing, handshake, handshake+enableBLOB, +write)"""
    probs, cases = [], 0
    prefixes = [[], [GETP], [GETP, ENABLE], [GETP, ENABLE, NEW], [GETP + NEW[:30]]]
    for transport in ("tcp", "tty"):
        for fault in ("eof", "read-error", "eof-inside-message", "junk-then-eof", "handler-exception", "cancel", "os-error"):
            for prefix in prefixes:
                cases += 1
                probs += _teardown_case(transport, prefix, fault)
                if len(probs) >= 3:
                    break
    return {"cases": cases, "reproduced": bool(probs), "detail": "; ".join(probs[:3]) or "every ended connection was closed and forgotten",
            "failures": [{"detail": p, "reproduced": True, "witness": {"replay_kind": "transport.teardown"}} for p in probs[:3]]}


# ---------------------------------------------------------------------------------------------------
# C19
# ---------------------------------------------------------------------------------------------------
def _order_case(which, n_msgs, schedule):
    """schedule: sequence of actions: "r" route the next message, "o" open the oldest pending gate, "t" one loop turn"""
    from indi.routing import Router, Device

    class Cam(Device):
        def accepts(self, device):
            return True

        def message_from_client(self, message):
            pass

    async def main(loop):
        probs = []
        r = Router()
        cam = Cam()
        r.register_device(cam)
        msgs = [_dev_msg(i + 1) for i in range(n_msgs)]
        if which == "tcp":
            from indi.transport.server import tcp
            w, stalled = GatedWriter(), GatedWriter()
            tcp.ConnectionHandler(ScriptReader([]), stalled, r)
            tcp.ConnectionHandler(ScriptReader([]), w, r)
            route = lambda m: r.process_message(m, sender=cam)
        elif which == "tty":
            from indi.transport.server import tty
            w, stalled = GatedWriter(text=True), GatedWriter(text=True)
            tty.ConnectionHandler(r, ScriptReader([], text=True), stalled)
            tty.ConnectionHandler(r, ScriptReader([], text=True), w)
            route = lambda m: r.process_message(m, sender=cam)
        else:
            from indi.transport.client import tcp as ctcp
            w, stalled = GatedWriter(), None
            h = ctcp.ConnectionHandler(ScriptReader([]), w, lambda m: None)
            route = h.send_message
        k = 0
        for a in schedule:
            if a == "r" and k < n_msgs:
                route(msgs[k])
                k += 1
            elif a == "o":
                w.open_next()
            else:
                await asyncio.sleep(0)
        while k < n_msgs:
            route(msgs[k])
            k += 1
        w.open_all()
        for _ in range(12 * n_msgs + 10):
            await asyncio.sleep(0)
        out = b"".join(w.chunks)
        want = b"".join(m.to_string() for m in msgs)
        label = "%s, %d messages, schedule %s" % (which, n_msgs, "".join(schedule))
        if out != want:
            order = []
            for i, m in enumerate(msgs, 1):
                s = m.to_string()
                order.append((out.find(s), i))
            if all(p >= 0 for p, _ in order) and len(out) == len(want):
                probs.append("%s: routed m1..m%d, on the stream as %s" % (label, n_msgs, ",".join("m%d" % i for _, i in sorted(order))))
            else:
                probs.append("%s: stream is not the concatenation of the routed messages (lost, duplicated or interleaved bytes)" % label)
        if stalled is not None and len(stalled.chunks) > 1 and False:
            pass
        return probs
    return run_virtual(main)


@kind("transport.order")
def transport_order(w):
    """bounded: three senders x bursts of 1..4 messages x every schedule word over {route, open-oldest-gate, loop-turn} of length <= L
    (L = 7 quick) in which routes are in order; a second connection whose drain never completes is registered throughout"""
    L = w.get("length", 7)
    probs, cases = [], 0
    for which in ("tcp", "tty", "client"):
        for n in (2, 3, 4) if not w.get("small") else (3,):
            for word in itertools.product("rot", repeat=L):
                if word.count("r") > n or word[0] != "r":
                    continue
                if "rr" not in "".join(word) and n > 2 and w.get("small"):
                    pass
                cases += 1
                probs += _order_case(which, n, word)
                if len(probs) >= 3:
                    return {"cases": cases, "reproduced": True, "detail": "; ".join(probs[:3]),
                            "failures": [{"detail": p, "reproduced": True, "witness": {"replay_kind": "transport.order"}} for p in probs[:3]]}
    return {"cases": cases, "reproduced": False, "detail": "every stream is the concatenation of the routed messages in routing order", "failures": []}


# ---------------------------------------------------------------------------------------------------
# promptness at the call sites (C02 / C08 / C15): what has arrived completely is delivered before the connection waits again
# ---------------------------------------------------------------------------------------------------
class FeedReader:
    """read() blocks until the scenario feeds a chunk; read(n) returns at most n bytes like a StreamReader"""

    def __init__(self, text=False):
        self.q, self.text, self.waiting = asyncio.Queue(), text, 0
        self.pending = b""

    async def read(self, n=-1):
        if not self.pending:
            self.waiting += 1
            self.pending = await self.q.get()
            self.waiting -= 1
        if self.pending is None:
            return "" if self.text else b""
        out, self.pending = (self.pending[:n], self.pending[n:]) if n and n > 0 else (self.pending, b"")
        return out.decode("latin1") if self.text else out

    async def readline(self):
        return await self.read(-1)


def _prompt_case(which, sizes, chunk, fill=b"x"):
    from indi.routing import Router, Device

    async def main(loop):
        got = []
        probs = []
        msgs = [b'<setTextVector device="CAM" name="CFG" state="Ok"><oneText name="A">' + (fill * n)[:n] + b'</oneText></setTextVector>' for n in sizes]
        if which == "client":
            from indi.transport.client import tcp as ctcp
            rd = FeedReader()
            h = ctcp.ConnectionHandler(rd, GatedWriter(), got.append, for_blobs=True)
        else:
            class Cam(Device):
                def accepts(self, device):
                    return True

                def message_from_client(self, message):
                    got.append(message)
            r = Router()
            r.register_device(Cam())
            msgs = [m.replace(b"setTextVector", b"newTextVector").replace(b' state="Ok"', b"") for m in msgs]
            if which == "tcp":
                from indi.transport.server import tcp
                rd = FeedReader()
                h = tcp.ConnectionHandler(rd, GatedWriter(), r)
            else:
                from indi.transport.server import tty
                rd = FeedReader(text=True)
                h = tty.ConnectionHandler(r, rd, GatedWriter(text=True))
            h.buffer.max_buffer_size_before_frontal_cleanup = None
        t = loop.create_task(h.wait_for_messages())
        stream = b"".join(msgs)
        ends, pos = [], 0
        for m in msgs:
            pos += len(m)
            ends.append(pos)
        fed = 0
        while fed < len(stream):
            piece = stream[fed:fed + chunk]
            fed += len(piece)
            rd.q.put_nowait(piece)
            for _ in range(50):
                await asyncio.sleep(0)
                if rd.waiting and not rd.pending:
                    break
            want = sum(1 for e in ends if e <= fed)
            if t.done() and not t.cancelled():
                probs.append("%s connection, text bytes %r fed in pieces of %d: the receive loop ended after %d bytes (%r)" % (which, fill, chunk, fed, t.exception()))
                break
            if len(got) != want:
                probs.append("%s connection, messages of %s bytes fed in pieces of %d: after %d bytes %d complete message(s) had arrived but %d were delivered when the connection waited for more data"
                             % (which, [len(m) for m in msgs], chunk, fed, want, len(got)))
                break
        t.cancel()
        return probs
    return run_virtual(main)


@kind("transport.prompt")
def transport_prompt(w):
    """bounded: three receive loops x message lengths around the 1024-byte read size x feeding granularity {exact multiples of 1024, 1024, 512, 97}"""
    probs, cases = [], 0
    base = len('<setTextVector device="CAM" name="CFG" state="Ok"><oneText name="A"></oneText></setTextVector>')
    # any byte may arrive in a text (the wire is Latin-1 for the receiver): high bytes, a UTF-8 pair, a lone continuation byte -- whole and split
    for which in ("client", "tcp", "tty"):
        for fill in (b"\xe9\xff", b"\xc3\xa9", b"a\xa9\xc3"):
            for chunk in (4096, 1):
                cases += 1
                probs += _prompt_case(which, [7, 12], chunk, fill=fill)
    if probs:
        return {"cases": cases, "reproduced": True, "detail": "; ".join(probs[:3]),
                "failures": [{"detail": p_, "reproduced": True, "witness": {"replay_kind": "transport.prompt"}} for p_ in probs[:3]]}
    for which in ("client", "tcp", "tty"):
        adj = 0 if which == "client" else len(b"newTextVector") * 2 - len(b"setTextVector") * 2 - len(b' state="Ok"')
        for total in (1024, 2048, 3072, 1023, 1025, 500):
            for chunk in (1024, 2048, 4096, 512, 97):
                cases += 1
                probs += _prompt_case(which, [total - base - adj], chunk)
                cases += 1
                probs += _prompt_case(which, [total - base - adj, 10, total - base - adj], chunk)
                if len(probs) >= 3:
                    return {"cases": cases, "reproduced": True, "detail": "; ".join(probs[:3]),
                            "failures": [{"detail": p, "reproduced": True, "witness": {"replay_kind": "transport.prompt"}} for p in probs[:3]]}
    return {"cases": cases, "reproduced": bool(probs), "detail": "; ".join(probs[:3]) or "every complete message was delivered before the connection waited again",
            "failures": [{"detail": p, "reproduced": True, "witness": {"replay_kind": "transport.prompt"}} for p in probs[:3]]}


# ---------------------------------------------------------------------------------------------------
# C05: the endpoint contract the router's fan-out loop relies on (shipped server-side endpoints)
# ---------------------------------------------------------------------------------------------------
@kind("router.endpoint_frame")
def router_endpoint_frame(w):
    """scenario: real Router with real tcp and tty connection handlers (fake streams) and one more plain client; a device
    message is fanned out; delivery to a connection must raise nothing, leave the registry and the BLOB policy table as
    they were, and every registered client must have been served"""
    from indi.routing import Router, Device, Client

    class Cam(Device):
        def accepts(self, device):
            return True

        def message_from_client(self, message):
            pass

    class Plain(Client):
        def __init__(self):
            self.got = []

        def message_from_device(self, message):
            self.got.append(message)

    async def main(loop):
        from indi.transport.server import tcp, tty
        probs = []
        for order in ("tcp-first", "tty-first", "plain-first"):
            r = Router()
            cam = Cam()
            r.register_device(cam)
            wt, wy, plain = GatedWriter(), GatedWriter(text=True), Plain()
            wt.auto = wy.auto = True
            made = {}
            for what in {"tcp-first": ("tcp", "tty", "plain"), "tty-first": ("tty", "plain", "tcp"), "plain-first": ("plain", "tcp", "tty")}[order]:
                if what == "tcp":
                    made["tcp"] = tcp.ConnectionHandler(ScriptReader([]), wt, r)
                elif what == "tty":
                    made["tty"] = tty.ConnectionHandler(r, ScriptReader([], text=True), wy)
                else:
                    r.register_client(plain)
                    made["plain"] = plain
            clients0 = list(r.clients)
            pol0 = {id(k): dict((kk, dict(vv) if isinstance(vv, dict) else vv) for kk, vv in v.items()) if isinstance(v, dict) else v
                    for k, v in r.blob_routing.items()}
            msgs = [_dev_msg(i + 1) for i in range(3)] + [_dev_msg("x" * 70000), _dev_msg(5)]
            for m in msgs:
                try:
                    r.process_message(m, sender=cam)
                except Exception as e:
                    probs.append("%s: fan-out of a device message raised %r" % (order, e))
                    break
                if [id(c) for c in r.clients] != [id(c) for c in clients0]:
                    probs.append("%s: the client registry changed while a device message was delivered (%d -> %d clients)" % (order, len(clients0), len(r.clients)))
                    break
                pol1 = {id(k): dict((kk, dict(vv) if isinstance(vv, dict) else vv) for kk, vv in v.items()) if isinstance(v, dict) else v
                        for k, v in r.blob_routing.items()}
                if pol1 != pol0:
                    probs.append("%s: the BLOB policy table changed while a device message was delivered" % order)
                    break
            for _ in range(40):
                await asyncio.sleep(0)
            want = b"".join(m.to_string() for m in msgs)
            if not probs:
                if b"".join(wt.chunks) != want:
                    probs.append("%s: the tcp connection did not receive every device message" % order)
                if b"".join(wy.chunks) != want:
                    probs.append("%s: the tty connection did not receive every device message" % order)
                if len(plain.got) != len(msgs):
                    probs.append("%s: a client registered next to the connections received %d of %d device messages" % (order, len(plain.got), len(msgs)))
                if wt.closed or wy.closed:
                    probs.append("%s: delivery closed a connection" % order)
        return probs
    probs = run_virtual(main)
    return {"cases": 3, "reproduced": bool(probs), "detail": "; ".join(probs[:3]) or "delivery left the registry and the policy table unchanged and served every client",
            "failures": [{"detail": p, "reproduced": True, "witness": {"replay_kind": "router.endpoint_frame"}} for p in probs[:3]]}
