#!/bin/sh
export PYVC_EVIDENCE_DIR=/tmp/pyvc_selftest_evidence
# usage: try_mutant.sh <patch-file> <prop> [<prop> ...]  -- applies the patch to /repo, runs the checks, reverts.
p="$1"; shift
cd /repo && git apply "$p" || { echo "patch does not apply"; exit 9; }
for prop in "$@"; do
  (cd /verif && ./check "$prop" | tail -4)
  echo "exit=$? ($prop)"
done
cd /repo && git checkout -- . 
