#!/bin/sh
# usage: confirm_seed.sh <dir with patch.diff + demo.py> <out.json>
# Confirms in a scratch worktree: patch applies, full test suite passes with it, demo fails with it and passes without it.
d="$1"; out="$2"
wt=$(mktemp -d /tmp/seedwt.XXXXXX)
git -C /repo worktree add -q --detach "$wt" HEAD || exit 9
cd "$wt"
PYTHONPATH="$wt" /venv/bin/python "$d/demo.py" >/dev/null 2>&1; demo_clean=$?
if git apply "$d/patch.diff"; then applies=true; else applies=false; fi
PYTHONPATH="$wt" /venv/bin/python "$d/demo.py" > "$wt/.demo_out" 2>&1; demo_patched=$?
PYTHONPATH="$wt" /venv/bin/python -m pytest -q -p no:cacheprovider --timeout=900 > "$wt/.tests_out" 2>&1; tests=$?
summary=$(tail -1 "$wt/.tests_out")
printf '{"applies": %s, "demo_exit_pristine": %d, "demo_exit_patched": %d, "tests_exit": %d, "tests_summary": "%s"}\n' "$applies" "$demo_clean" "$demo_patched" "$tests" "$summary" > "$out"
cd /; git -C /repo worktree remove --force "$wt"
