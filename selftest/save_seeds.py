"""save_seeds.py PROP 'result for 1' 'result for 2' 'result for 3' -- copies /tmp/mut_PROP/N into /verif/seeded/PROP-N"""
import json, os, shutil, sys
p = sys.argv[1]
for n, res in enumerate(sys.argv[2:], start=1):
    src = "/tmp/mut_%s/%d" % (p, n)
    dst = "/verif/seeded/%s-%d" % (p, n)
    os.makedirs(dst, exist_ok=True)
    shutil.copy(src + "/patch.diff", dst)
    shutil.copy(src + "/demo.py", dst)
    conf = json.load(open(src + "/confirm.json"))
    assert conf["applies"] and conf["demo_exit_pristine"] == 0 and conf["demo_exit_patched"] != 0 and conf["tests_exit"] == 0, conf
    json.dump({"property": p, "origin": "independent sub-agent given only the property text and a scratch worktree",
               "what_it_needs_to_manifest_and_notes": open(src + "/notes.txt").read(), "confirmed_by_me": conf,
               "confirmation_cmd": "selftest/confirm_seed.sh <dir> <out.json> (scratch worktree: patch applies, full suite 333 passed, demo fails with / passes without)",
               "check_result": res}, open(dst + "/meta.json", "w"), indent=1)
    print("saved", dst)
