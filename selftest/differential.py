"""CPython differential for the PyVC interpreter: every scenario module is run
natively and through the interpreter on concrete data; results must agree."""
import sys, os, json, importlib.util
HERE = os.path.dirname(os.path.abspath(__file__))
sys.path.insert(0, os.path.dirname(HERE))
REPO = os.environ.get("INDIPY_REPO", "/repo")


def to_host(I, v):
    from pyvc.values import IList, IDict, Sym
    if isinstance(v, IList):
        return [to_host(I, x) for x in v.items]
    if isinstance(v, tuple):
        return [to_host(I, x) for x in v]
    if isinstance(v, IDict):
        return {str(k): to_host(I, x) for k, x in v.d.items()}
    if isinstance(v, Sym):
        return "SYM:" + str(v.term)
    return v


def native(path):
    sys.path.insert(0, REPO)
    spec = importlib.util.spec_from_file_location("scn", path)
    m = importlib.util.module_from_spec(spec)
    spec.loader.exec_module(m)
    return json.loads(json.dumps(m.scenario()))


def interpreted(path):
    from pyvc.prover import Explorer
    from pyvc.values import IModule
    from pyvc.interp import Env
    import ast
    res = {}

    def task(I, run):
        I.concrete_time = "2000-01-01T00:00:00"
        m = IModule("scn")
        m.ns["__name__"] = "scn"
        m.relpath = "<scenario>"
        tree = ast.parse(open(path).read())
        env = Env(); env.vars = m.ns; m.env = env
        I.exec_block(tree.body, env, m, "")
        res["v"] = to_host(I, I.call(m.ns["scenario"], [], {}))
    e = Explorer("diff", task, REPO).run()
    if e.errors or e.out_of_reach:
        return {"errors": e.errors, "oor": e.out_of_reach}
    return json.loads(json.dumps(res["v"]))


def main():
    bad = 0
    d = os.path.join(HERE, "scenarios")
    for f in sorted(os.listdir(d)):
        if not f.endswith(".py"):
            continue
        p = os.path.join(d, f)
        a, b = native(p), interpreted(p)
        ok = a == b
        print("%s: %s" % (f, "agree" if ok else "DISAGREE"))
        if not ok:
            bad += 1
            print(" native     :", json.dumps(a)[:3000])
            print(" interpreted:", json.dumps(b)[:3000])
    return bad


if __name__ == "__main__":
    sys.exit(3 if main() else 0)
