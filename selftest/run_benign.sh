#!/bin/sh
# usage: run_benign.sh <dir with N.diff>  -- behaviour-preserving refactorings: every check must stay at exit 0
export PYVC_EVIDENCE_DIR=/tmp/pyvc_selftest_evidence
cd /verif
for f in "$1"/*.diff; do
  git -C /repo apply "$f" || { echo "$f does not apply"; continue; }
  res=""
  for p in C01 C02 C03 C04 C05 C06 C07 C08 C09 C10 C11 C12 C13 C14 C15 C16 C17 C18 C19 C20; do
    out=$(./check $p 2>/dev/null); code=$?
    if [ $code -ne 0 ]; then res="$res $p=$code"; echo "$out" | grep "VIOLATION\|undecided:\|out of reach\|canary\|error" | head -3 | cut -c1-260 | sed "s/^/      [$p] /"; fi
  done
  git -C /repo checkout -- .
  echo "$(basename $f): ${res:- all 20 checks exit 0}"
done
