from indi.device import Driver, properties
from indi.device.pool import default_pool
from indi.device.events import on, Write, Change, Read
from indi.device.properties import const
from indi.message import const as mconst
from indi import message
from indi.routing import Router, Client
from indi.message import IndiMessage


class Rec(Client):
    def __init__(self):
        self.got = []

    def message_from_device(self, m):
        self.got.append(m.to_string().decode("latin1").split("timestamp")[0][:70] + "|" + m.__class__.__name__)


class Dev(Driver):
    name = "DEV"
    main = properties.Group(
        "MAIN",
        vectors=dict(
            sw=properties.SwitchVector("SW", rule=const.SwitchRule.ONE_OF_MANY, default_on="A",
                                       elements=dict(a=properties.Switch("A"), b=properties.Switch("B"), c=properties.Switch("C"))),
            tx=properties.TextVector("TX", elements=dict(t=properties.Text("T", default="hello"))),
            nm=properties.NumberVector("NM", elements=dict(n=properties.Number("N", default=1.5, min=0, max=10, format="%.2f"))),
            li=properties.LightVector("LI", elements=dict(l=properties.Light("L"))),
        ),
    )
    log = []

    @on(main.tx.t, Write)
    def w(self, event):
        Dev.log.append(("write", event.new_value))

    @on(main.tx.t, Change)
    def c(self, event):
        Dev.log.append(("change", event.old_value, event.new_value))


def scenario():
    Dev.log = []
    r = Router()
    rec = Rec()
    r.register_client(rec)
    d = Dev(router=r)
    out = []
    r.process_message(message.GetProperties(version="1.7"), sender=rec)
    out.append(list(rec.got)); rec.got.clear()
    d.main.sw.b.bool_value = True
    out.append([d.main.sw.a.value, d.main.sw.b.value, d.main.sw.c.value])
    d.main.sw.b.value = "Off"
    out.append([d.main.sw.a.value, d.main.sw.b.value, d.main.sw.c.value])
    m = IndiMessage.from_string('<newTextVector device="DEV" name="TX"><oneText name="T">zzz</oneText></newTextVector>')
    r.process_message(m, sender=rec)
    out.append(d.main.tx.t.value)
    m = IndiMessage.from_string('<newNumberVector device="DEV" name="NM"><oneNumber name="N">2.25</oneNumber></newNumberVector>')
    r.process_message(m, sender=rec)
    out.append(d.main.nm.n.value)
    out.append(Dev.log)
    out.append(list(rec.got))
    try:
        r.process_message(IndiMessage.from_string('<newTextVector device="DEV" name="NOPE"/>'), sender=rec)
    except KeyError as e:
        out.append("KeyError")
    a = message.SetTextVector(device="d", name="n", state="Ok", children=(message.one_parts.OneText(name="x", value="1"), message.one_parts.OneText(name="y", value="2")))
    b = message.SetTextVector(device="d", name="n", state="Ok", children=(message.one_parts.OneText(name="x", value="9"), message.one_parts.OneText(name="y", value="2")))
    out.append(a == b)
    d.main.enabled = False
    out.append(len(rec.got))
    return out
