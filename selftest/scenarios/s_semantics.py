"""Python semantics the engine must share with CPython (each item was once a divergence or is easy to get wrong)."""


class A:
    def __init__(self):
        self.x = 1

    def __getattr__(self, item):
        if item == "magic":
            return 42
        return self.__getattribute__(item)


def scenario():
    out = []
    # list mutated while iterated: live, index based
    l = [1, 2, 2, 3, 4]
    for v in l:
        if v == 2:
            l.remove(v)
    out.append(l)
    # getattr default swallows AttributeError from __getattr__
    a = A()
    out.append([a.magic, getattr(a, "nope", "dflt"), hasattr(a, "nope")])
    # dict comprehension with filter, sorted items, str of values
    d = {"b": 0, "a": None, "c": ""}
    out.append({k: str(v) for k, v in sorted(d.items()) if v is not None})
    # slicing with None bounds
    s = "abcdef"
    e = None
    out.append([s[e:], s[:e], s[2:], s[-2:]])
    # kw-only / defaults / **junk binding
    def f(a, b=2, *args, c, d=4, **junk):
        return [a, b, list(args), c, d, sorted(junk)]
    out.append(f(1, c=3, z=9))
    out.append(f(1, 5, 6, 7, c=3))
    try:
        f(1)
    except TypeError:
        out.append("TypeError")
    # try/finally with return, for/else, while/else
    def g():
        try:
            return "try"
        finally:
            out.append("finally")
    out.append(g())
    for i in [1, 2]:
        pass
    else:
        out.append("for-else")
    # min with None guard, chained comparison, truthiness of containers
    start = None
    for fp in [5, -1, 3]:
        if fp >= 0:
            start = min(start, fp) if start is not None else fp
    out.append([start, 1 < 2 < 3, bool([]), bool({}), bool(""), bool("x")])
    # % formatting and f-strings
    out.append(["%.2f" % 1.005, "%d" % 3.9, f"{7:02d}:{3.14159:04.1f}", "%8.2f" % 3.5])
    return out
