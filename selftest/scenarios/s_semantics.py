"""Python semantics the engine must share with CPython (each item was once a divergence or is easy to get wrong)."""


class A:
    def __init__(self):
        self.x = 1

    def __getattr__(self, item):
        if item == "magic":
            return 42
        return self.__getattribute__(item)


class P:
    def __init__(self, x):
        self.x = x

    def __eq__(self, other):
        if not isinstance(other, P):
            return NotImplemented
        return self.x == other.x

    def __hash__(self):
        return hash(self.x)


def scenario():
    out = []
    # __eq__ returning NotImplemented falls back to the reflected operand, then to identity
    out.append([P(1) == P(1), P(1) != P(1), P(1) == P(2), P(1) == "1", "1" == P(1), P(1) != "1", P(1) is P(1), None == P(1), P(1) != None])
    # list mutated while iterated: live, index based
    l = [1, 2, 2, 3, 4]
    for v in l:
        if v == 2:
            l.remove(v)
    out.append(l)
    # getattr default swallows AttributeError from __getattr__
    a = A()
    out.append([a.magic, getattr(a, "nope", "dflt"), hasattr(a, "nope")])
    # dict comprehension with filter, sorted items, str of values
    d = {"b": 0, "a": None, "c": ""}
    out.append({k: str(v) for k, v in sorted(d.items()) if v is not None})
    # slicing with None bounds
    s = "abcdef"
    e = None
    out.append([s[e:], s[:e], s[2:], s[-2:]])
    # kw-only / defaults / **junk binding
    def f(a, b=2, *args, c, d=4, **junk):
        return [a, b, list(args), c, d, sorted(junk)]
    out.append(f(1, c=3, z=9))
    out.append(f(1, 5, 6, 7, c=3))
    try:
        f(1)
    except TypeError:
        out.append("TypeError")
    # try/finally with return, for/else, while/else
    def g():
        try:
            return "try"
        finally:
            out.append("finally")
    out.append(g())
    for i in [1, 2]:
        pass
    else:
        out.append("for-else")
    # min with None guard, chained comparison, truthiness of containers
    start = None
    for fp in [5, -1, 3]:
        if fp >= 0:
            start = min(start, fp) if start is not None else fp
    out.append([start, 1 < 2 < 3, bool([]), bool({}), bool(""), bool("x")])
    # dict built by an explicit loop with `continue` guards (the engine treats it like the comprehension): order, skipping,
    # overwriting an existing entry, loop variables bound after the loop, bytes.join, math.isfinite / trunc, int(float)
    import math
    built = {"z": "kept", "b": "old"}
    for name, val in sorted({"b": 0, "a": None, "c": "", "children": 1}.items()):
        if val is None:
            continue
        if name in ("children", "value"):
            continue
        built[name] = str(val)
    out.append([list(built.items()), name, val])
    out.append([b"".join((b"ab", b"", b"c")).decode("latin1"), b"-".join([b"x", b"y"]).decode("latin1"), math.isfinite(1.5), math.isfinite(float("inf")), math.trunc(-2.7), int(-2.7), abs(-1.5)])
    import re
    pat = re.compile(r"^([\-+]?)(\d+)[:; ](\d+)(?:[:; ](\d+))?(\.\d*)?$")
    out.append([pat.match("-12:30").groups(), pat.match("1 2;3.5").groups(), pat.match("12") is None, re.match(r"^\d+\Z", "12\n") is None,
                re.match(r"^\d+|x\d$", "12abc") is not None, re.match(r"^\d+|x\d$", "x1z") is None, re.match(r"^(?:ab|cd)+$", "abcdab") is not None, re.match(r"^(?:ab|cd)+$", "abc") is None,
                "a:b".rfind(":", 0, 2), "a:b:c".rfind(":", 0, 3), "abc".rfind("z", 1)])
    # % formatting and f-strings
    out.append(["%.2f" % 1.005, "%d" % 3.9, f"{7:02d}:{3.14159:04.1f}", "%8.2f" % 3.5])
    return out
