import json, os, shutil, sys
# save2.py SRC_DIR DST_ID 'result'
src, dst_id, res = sys.argv[1], sys.argv[2], sys.argv[3]
prop = dst_id.split("-")[0]
dst = "/verif/seeded/%s" % dst_id
os.makedirs(dst, exist_ok=True)
for f in ("patch.diff", "demo.py"):
    shutil.copy(os.path.join(src, f), dst)
conf = json.load(open(os.path.join(src, "confirm.json")))
assert conf["applies"] and conf["demo_exit_pristine"] == 0 and conf["demo_exit_patched"] != 0 and conf["tests_exit"] == 0, conf
json.dump({"property": prop, "origin": "independent sub-agent given only the property text and a scratch worktree",
           "what_it_needs_to_manifest_and_notes": open(os.path.join(src, "notes.txt")).read(), "confirmed_by_me": conf,
           "confirmation_cmd": "selftest/confirm_seed.sh <dir> <out.json> (scratch worktree: patch applies, full suite 333 passed, demo fails with / passes without)",
           "check_result": res}, open(os.path.join(dst, "meta.json"), "w"), indent=1)
print("saved", dst)
