#!/bin/sh
export PYVC_EVIDENCE_DIR=/tmp/pyvc_selftest_evidence
# usage: run_seeds.sh [PROP ...]  -- regression over /verif/seeded: applies each kept change to /repo, runs the check of its
# property, expects exit 1 with a VIOLATION line, reverts.  Prints one line per change.
cd /verif
sel="$*"
for d in seeded/*/; do
  id=$(basename "$d"); prop=${id%%-*}
  if [ -n "$sel" ] && ! echo " $sel " | grep -q " $prop "; then continue; fi
  if ! git -C /repo apply --check "/verif/$d/patch.diff" 2>/dev/null; then echo "$id: patch no longer applies"; continue; fi
  git -C /repo apply "/verif/$d/patch.diff"
  out=$(./check "$prop" 2>/dev/null); code=$?
  git -C /repo checkout -- .
  nv=$(echo "$out" | grep -c "^VIOLATION property=$prop")
  nr=$(echo "$out" | grep "^VIOLATION" | grep -vc "no-failing-input-found")
  echo "$id: exit=$code violations=$nv with-native-replay=$nr"
done
