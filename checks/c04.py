"""C04 -- client messages reach exactly the addressed devices."""
from pyvc.runner import Check, TaskSpec, run_tasks, REPO
from contracts import router as R
from checks import common


def router_specs():
    specs = []
    for name, reg in R.pm_class_names(REPO):
        specs.append(TaskSpec("process_message[%s%s]" % (name, "" if reg else ",unregistered"),
                              "contracts.router", "task_pm", (name, reg), replay_kind="router.process_message"))
    for m in ("__init__", "register_device", "register_client", "unregister_client", "process_enable_blob"):
        specs.append(TaskSpec("mutator[%s]" % m, "contracts.router", "task_mutator", (m,), replay_kind="router.mutator"))
    return specs


def accepts_specs():
    return [TaskSpec("accepts[%s]" % w, "contracts.router", "task_accepts", (w,), replay_kind="router.accepts") for w in ("Driver", "Proxy")]


def router_functions(chk):
    for fn in ("Router.__init__", "Router.register_device", "Router.register_client", "Router.unregister_client",
               "Router.process_message", "Router.process_enable_blob"):
        chk.function(R.FILE, fn)


def router_trust(chk, client_endpoints_discharged=False):
    chk.trusted_base += common.ENCODING + [
        "endpoint contract (assumed): device.accepts() is a pure predicate; message_from_client/message_from_device do not mutate "
        "the router's registries or BLOB policies while it iterates and do not raise (Driver.snooping_client, which registers a client, is the documented exception)"
        + ("; DISCHARGED here for the shipped server-side client endpoints (tcp and tty ConnectionHandler.message_from_device: raises nothing given to_string "
           "returns bytes [C03], awaits nothing, calls no router mutator, does not re-enter the router, does not close the connection); Driver.message_from_client's "
           "exception freedom and frame are C12's obligations; it stays assumed for user-written endpoints and for SnoopingClient (whose delivery runs user callbacks)"
           if client_endpoints_discharged else ""),
        "`==` on endpoints is identity (no __eq__ on Driver/ConnectionHandler/SnoopingClient: checked as a ground obligation)",
        "registration precondition (assumed): an endpoint is registered at most once at a time",
    ]
    chk.assumptions += ["messages are built by their real constructors from None-or-str attributes (wire typing)",
                        "OneLight-as-top-level-message is outside the protocol's message kinds and is not given a direction by the statement"]


def run(tier, seed):
    chk = Check("C04", tier, seed)
    chk.add_results(run_tasks(router_specs() + accepts_specs()))
    router_functions(chk)
    chk.function("indi/device/driver.py", "Driver.accepts")
    chk.function("indi/device/proxy.py", "Proxy.accepts")
    router_trust(chk)
    chk.min_obligations = 60
    chk.standin_on_out_of_reach("native router enumeration", "router.enumerate", {}, always=True,
                                bound_text="every message tag x sender (absent, unregistered, each client, each device) x 0-2 devices (accepting or not) x 0-2 clients with every BLOB policy")
    chk.standin_on_out_of_reach("native router histories", "router.history", {"seed": seed, "n": 300 if tier == "quick" else 3000}, always=True,
                                bound_text="random histories (register / unregister / re-register / enableBLOB / device messages incl. name-less delProperty / client messages) of 3 clients x "
                                           "2 devices on the real router against a reference model of the policy table")
    return chk.finish()
