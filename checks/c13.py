"""C13 -- the parser accepts only protocol-conformant messages."""
from pyvc.runner import Check, TaskSpec, run_tasks, REPO
from contracts import codec as K
from checks import common, c20


def specs(tier):
    msgs, parts = K.class_names(REPO)
    out = [TaskSpec("dictionary[%s]" % v, "contracts.codec", "task_c13_dictionary", (v,), replay_kind="codec.parse") for v in K.VOCAB]
    out.append(TaskSpec("number", "contracts.codec", "task_c13_number", (), replay_kind="codec.parse"))
    out += [TaskSpec("children[%s]" % p.split("@")[0], "contracts.codec", "task_c13_children", (p,), replay_kind="codec.parse") for p in parts]
    out += [TaskSpec("parse[%s]" % p.split("@")[0], "contracts.codec", "task_c13_parse", (p, 0), replay_kind="codec.parse") for p in parts]
    for m in msgs:
        nm = m.split("@")[0]
        if "Vector" in nm:
            out.append(TaskSpec("ctor[%s]" % nm, "contracts.codec", "task_c13_ctor", (m,), replay_kind="codec.parse"))
        for k in ((0, 1) if "Vector" in nm else (0,)):
            out.append(TaskSpec("parse[%s,%d children]" % (nm, k), "contracts.codec", "task_c13_parse", (m, k), replay_kind="codec.parse"))
    out.append(TaskSpec("parse[unknown tag]", "contracts.codec", "task_c13_unknown_tag", (), replay_kind="codec.parse"))
    return out


def run(tier, seed):
    chk = Check("C13", tier, seed)
    chk.add_results(run_tasks(specs(tier)))
    for fn in ("dictionary", "children", "number"):
        chk.function(K.CHECKS_FILE, fn)
    for fn in ("IndiMessage.from_xml", "IndiMessagePart.from_xml", "IndiMessage.tag_name", "IndiMessagePart.tag_name",
               "IndiMessagePart._all_subclasses", "IndiMessage.all_message_classes", "IndiMessagePart.__init__"):
        chk.function(K.BASE_FILE, fn)
    for f, fns in (("indi/message/defs.py", ("DefVector.__init__", "DefWritableVector.__init__", "DefSwitchVector.__init__")),
                   ("indi/message/sets.py", ("SetVector.__init__",)), ("indi/message/news.py", ("NewVector.__init__",)),
                   ("indi/message/def_parts.py", ("DefIndiMessagePart.__init__", "DefNumber.__init__", "DefNumber.check_value", "DefSwitch.check_value", "DefLight.check_value")),
                   ("indi/message/one_parts.py", ("OneBLOB.__init__", "OneLight.check_value", "OneNumber.check_value", "OneSwitch.check_value")),
                   ("indi/message/enable_blob.py", ("EnableBLOB.__init__",)), ("indi/message/one_light.py", ("OneLight.__init__",)),
                   ("indi/message/get_properties.py", ("GetProperties.__init__",)), ("indi/message/del_property.py", ("DelProperty.__init__",)),
                   ("indi/message/pings.py", ("PingReply.__init__", "PingRequest.__init__"))):
        for fn in fns:
            chk.function(f, fn)
    c20.codec_trust(chk)
    chk.trusted_base += [
        "xml.etree element model: an element is (tag, attribute map, text, child list); attribute values are strings; attributes the constructors "
        "cannot name land in **junk and are represented by one generic extra attribute",
        "str.strip(): the result has no leading/trailing whitespace (stated as regular-language membership)",
        "from_xml is analysed for 0 and 1 child elements (the required kind and, quick tier, one foreign kind; thorough: every kind); the "
        "any-number-of-children clause rests on checks.children, proved for sequences of any length, and on the per-child constructor obligations",
    ]
    chk.assumptions += ["a missing number value (None) is tolerated by the number-syntax clause"]
    chk.min_obligations = 400
    chk.standin_on_out_of_reach("native parse corpus", "codec.parse_corpus", {}, always=True,
                                bound_text="every vector tag x every constrained / required field perturbed (absent, empty, wrong case, foreign vocabulary, python-internal looking) x a child of every kind")
    return chk.finish()
