"""C01 -- the client view converges to the device's true property state."""
from pyvc.runner import Check, TaskSpec, run_tasks, PY_FULL
from contracts import converge as V, driver as D
from checks import c04, common, c14


def specs(tier):
    out = []
    for k in D.KINDS:
        for w in ("enabled", "state_"):
            out.append(TaskSpec("setter[%s.%s]" % (k, w), "contracts.converge", "task_vector_setter", (k, w), replay_kind="converge.history", scenario=True))
    for n in (0, 1, 2, 3):
        out.append(TaskSpec("Group.enabled[%d]" % n, "contracts.converge", "task_group_enabled", (n,), replay_kind="converge.history", scenario=True))
    out.append(TaskSpec("Driver.send_message", "contracts.converge", "task_send_message", (), replay_kind="converge.history", scenario=True))
    out.append(TaskSpec("delivery call sites", "contracts.converge", "task_delivery_sites", (), replay_kind="converge.long_message", python=PY_FULL))
    for kind in ("Text", "Number", "Switch", "Light", "BLOB"):
        for k in ((0, 1, 2) if tier == "quick" else (0, 1, 2, 3)):
            for what in ("def", "set", "del", "def+set"):
                if kind == "BLOB" and what == "def":
                    continue        # a definition carries no payload: after a bare re-definition the mirror holds no BLOB until the next update (stated)
                out.append(TaskSpec("lemma[%s,%d,%s]" % (kind, k, what), "contracts.converge", "task_lemma", (kind, k, what)))
    # element assignments: publication clauses of the C14 tasks (tagged C01)
    out += c14.specs()
    # inheritance and getProperties: C07 tasks with C01-tagged clauses
    out.append(TaskSpec("inheritance", "contracts.publish", "task_inheritance", (), replay_kind="driver.inheritance"))
    # (P) content of the messages the mutators send, and the handshake answer: C07 tasks, clauses tagged C01
    out.append(TaskSpec("getProperties", "contracts.publish", "task_get_properties", (), replay_kind="driver.publish"))
    for k in D.KINDS:
        for w in ("to_def_message", "to_set_message"):
            out.append(TaskSpec("vector[%s.%s]" % (k, w), "contracts.publish", "task_vector", (k, w), replay_kind="driver.publish"))
    # (T) delivery inside the router: every device message reaches every registered client the BLOB policy lets it through to, whatever
    # else that client has sent before (C05's postcondition for any registry and policy table, clauses tagged C01)
    out += [s for s in c04.router_specs() if s.name.startswith("process_message")]
    return out


def run(tier, seed):
    chk = Check("C01", tier, seed, level="other")
    chk.explanation = ("contract-based deductive verification like the proof-level checks, but NOT claimed as a proof: two delivery call-site obligations are refuted on the tree under test "
                       "(known findings F34: the client's control connection keeps the junk threshold, so messages above ~3 kB are lost; F35: the library Client feeds one mirror from two "
                       "unordered connections), so discharged < obligations by design; every other obligation is discharged; the induction over histories composes cited contracts (DESIGN 4 C01)")
    chk.add_results(run_tasks(specs(tier)))
    for fn in ("Vector.enabled", "Vector.state_"):
        chk.function(D.VEC_FILE, fn)
    chk.function("indi/device/properties/instance/group.py", "Group.enabled")
    for fn in ("Driver.send_message", "Driver._all_group_definitions", "Driver.__init__"):
        chk.function(D.DRV_FILE, fn)
    for fn in ("Element.value", "Element.set_value"):
        chk.function(D.ELT_FILE, fn)
    chk.trusted_base += common.ENCODING + [
        "COMPOSITION (induction over the history, argued in DESIGN 4 C01; each step is a discharged obligation or a cited contract): Inv 'mirror == pub(S)' is established by the handshake (C07 "
        "getProperties + lemma def/del) and preserved by every operation: (M) the mutator sends exactly its row of messages after the state change [this check + C14 tasks], (P) message content [C07], "
        "(T) delivery to every client unchanged and in order [router fan-out: C05 obligations re-discharged here; C03, C02, C19 cited], (S) client step [C15: contracts.client.expected], (L) step(pub(S), messages) == pub(S') [lemma tasks here]",
        "the lemma is discharged on the spec functions themselves (the same Python functions the C07/C15 obligations use) for properties of 0..2 (thorough 0..3) elements with every enabled/disabled "
        "pattern, symbolic names, states, labels and values; C07 proves message content for any number of elements, C15 the client step per queried element",
        "Group.enabled: groups of 0..3 properties (the loop body does not depend on the other properties); property kinds cycle through text/number/switch/blob",
        "definitions carry no BLOB payload: after a bare re-definition (getProperties) a mirror holds no BLOB for that element until the next update; clients that did not enable BLOBs are not "
        "expected to mirror BLOB properties' payloads or the state carried by setBLOBVector (C05)",
        "run-time Element.enabled changes and Element.reset_value are not driver-side operations of the statement (they publish nothing by design)",
        "precondition: element names within a property are distinct; a client is a mirror only after its handshake",
    ]
    chk.standin_on_out_of_reach("native random histories", "converge.history", {"seed": seed, "n": 120 if tier == "quick" else 1500, "steps": 25 if tier == "quick" else 40}, always=True, timeout=3000,
                                bound_text="random driver definitions (1-3 devices, 1-3 groups, all kinds, rules, printf/sexagesimal formats, disabled groups/properties/elements, inheritance depth <= 3 with "
                                           "overriding) x random histories (25 / 40 operations) x fragmentation {1024, 7, 1}; network client through the real serializer/framing and an in-process snooping client")
    chk.min_obligations = 400
    return chk.finish()
