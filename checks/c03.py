"""C03 -- serialize-then-parse is the identity on protocol messages."""
from pyvc.runner import Check, TaskSpec, run_tasks, REPO, native_replay
from contracts import codec as K
from checks import common, c20


def specs(tier):
    msgs, parts = K.class_names(REPO)
    out = [TaskSpec("registry", "contracts.codec", "task_c03_registry", (), replay_kind="codec.registry")]
    out += [TaskSpec("roundtrip[%s]" % p.split("@")[0], "contracts.codec", "task_c03_part", (p,), replay_kind="codec.roundtrip") for p in parts]
    out += [TaskSpec("foreign[%s]" % c.split("@")[0], "contracts.codec", "task_c03_foreign", (c,), replay_kind="codec.roundtrip") for c in msgs + parts]
    for m in msgs:
        nm = m.split("@")[0]
        ks = (0,) if "Vector" not in nm else ((0, 1, 2) if tier == "thorough" and "Number" not in nm else (0, 1))
        for k in ks:
            out.append(TaskSpec("roundtrip[%s,%d children]" % (nm, k), "contracts.codec", "task_c03_message", (m, k), replay_kind="codec.roundtrip"))
    return out


def run(tier, seed):
    chk = Check("C03", tier, seed)
    chk.add_results(run_tasks(specs(tier)))
    for fn in ("IndiMessage.to_xml", "IndiMessage.to_string", "IndiMessage.from_xml", "IndiMessage.from_string", "IndiMessage.tag_name",
               "IndiMessage.register_message", "IndiMessage.all_message_classes", "IndiMessagePart.to_xml", "IndiMessagePart.from_xml",
               "IndiMessagePart.tag_name", "IndiMessagePart._all_subclasses", "IndiMessagePart.__init__"):
        chk.function(K.BASE_FILE, fn)
    c20.codec_trust(chk)
    chk.trusted_base += [
        "ASSUMED (sampled natively on every run, never proved): xml.etree round trip -- fromstring(declaration + tostring(e) + newline) has e's tag, "
        "attribute map, text (empty == absent) and children, for str attributes/text over XML characters without carriage return; foreign spellings "
        "(attribute order, quoting, indentation, declaration) are covered only through this contract plus from_xml reading attrib as a map and stripping text",
        "str.strip(s) == s for text without surrounding whitespace (the statement excludes surrounding whitespace)",
        "children: messages are analysed with 0 and 1 (thorough: 2) children built by the real part constructors; any number of children follows from the "
        "per-part round trip plus to_xml/from_xml mapping children pointwise in order (for child in self.children: child.to_xml(element) / tuple(from_xml(c) for c in xml))",
    ]
    chk.assumptions += ["a valid message has its constructor-required attributes present; attribute values are None, str or int (float-valued attributes are rendered by str() like the others but are not in the symbolic domain)"]
    r = native_replay("codec.et_sample", {"seed": seed, "n": 400 if tier == "quick" else 4000})
    chk.assumption_samples.append({"contract": "xml.etree round trip", "cases": r.get("cases"), "falsified": r.get("falsified"),
                                   "failures": r.get("failures", [])[:2], "bounded": True})
    if r.get("falsified") or "cases" not in r:
        chk.errors.append({"error": "assumption sample falsified or failed: xml.etree round trip: %r" % (r,)})
    chk.min_obligations = 500 if not chk.out_of_reach else 1
    chk.standin_on_out_of_reach("native round-trip corpus", "codec.roundtrip_corpus", {"seed": seed, "n": 400 if tier == "quick" else 5000},
                                bound_text="random sample: every emittable kind x optional-attribute subsets x 0..3 children x character-class corpus "
                                           "(markup characters, quotes, non-ASCII, astral, inner whitespace and newlines)")
    return chk.finish()
