"""C12 -- no client message can take a driver, a connection or the server down."""
from pyvc.runner import Check, TaskSpec, run_tasks, PY_FULL, REPO
from contracts import driver as D, codec as K
from checks import common, c04


def specs(tier):
    out = []
    for m in D.NEW_KINDS:
        for k in ("text", "switch", "blob", "light", "unknown"):
            out.append(TaskSpec("%s->%s" % (m, k), "contracts.driver", "task_c12_new_vector", (m, k), replay_kind="driver.hostile"))
        for fmt in (("%f", "%.3m") if tier == "quick" else D.NUMBER_FORMATS):
            out.append(TaskSpec("%s->number(%s)" % (m, fmt), "contracts.driver", "task_c12_new_vector", (m, "number", fmt), replay_kind="driver.hostile"))
    msgs, parts = K.class_names(REPO)
    for m in msgs:
        if m.split("@")[0] not in D.NEW_KINDS:
            out.append(TaskSpec("driver<-%s" % m.split("@")[0], "contracts.driver", "task_c12_other_kind", (m,), replay_kind="driver.hostile"))
    for w in ("tcp", "tty"):
        out.append(TaskSpec("receive[%s]" % w, "contracts.transport", "task_c12_receive", (w,), replay_kind="transport.prompt", python=PY_FULL, scenario=True))
        out.append(TaskSpec("dispatch[%s]" % w, "contracts.transport", "task_c12_dispatch", (w,)))
    # the Buffer.process contract the receive loops use modularly (raises only what the callback raises, whatever the parser raises):
    # re-verified here on the real body, so narrowing an except clause in the scan fails C12 and not only C11
    out += [TaskSpec("Buffer.process", "contracts.buffer", "task_process", (), replay_kind="buffer.process"),
            TaskSpec("Buffer._find_message_in_buffer", "contracts.buffer", "task_find", (), replay_kind="buffer.process")]
    return out + c04.router_specs()


def run(tier, seed):
    chk = Check("C12", tier, seed)
    chk.add_results(run_tasks(specs(tier)))
    chk.function(D.DRV_FILE, "Driver.message_from_client")
    chk.function(D.DRV_FILE, "Driver.send_message")
    chk.function(D.VEC_FILE, "Vector.from_new_message")
    chk.function(D.VEC_FILE, "SwitchVector.apply_rule")
    for fn in ("Element.set_value_from_message", "Element.set_value", "Element.value", "Element.check_value_type", "Number.set_value_from_message",
               "Switch.check_value", "BLOB.set_value_from_message"):
        chk.function(D.ELT_FILE, fn)
    chk.function("indi/device/values.py", "str_to_num")
    chk.function("indi/device/values.py", "BLOB.from_base64")
    for f in ("indi/transport/server/tcp.py", "indi/transport/server/tty.py"):
        chk.function(f, "ConnectionHandler.message_from_client")
        chk.function(f, "ConnectionHandler.wait_for_messages")
    c04.router_functions(chk)
    chk.function("indi/transport/buffer.py", "Buffer.process")
    chk.function("indi/transport/buffer.py", "Buffer._find_message_in_buffer")
    chk.trusted_base += common.ENCODING + [
        "float()/int()/base64.b64decode/re.match are external: each either raises its documented exception class (ValueError, TypeError, binascii.Error) or returns (unknown predicates)",
        "event handlers (Write/Change/Read) are user code: assumed not to raise here (an error inside a handler is C18's fault kind, not a hostile message)",
        "Vector.to_set_message / to_def_message are abstracted at the serialisation point (their own exception freedom is an obligation of C07)",
        "Buffer.process is used through its C11 contract in the receive loops (raises only what the callback raises; one generic delivery per call stands for all); "
        "the exception-freedom part of that contract (process and the scan, with the parser raising ANY exception) is re-discharged here on the real bodies",
        "ASSUMED: xml.etree.ElementTree.fromstring raises only ParseError on Latin-1 text; IndiMessage.from_string either raises (any Exception) or returns a message",
        "router side: Router.process_message raises nothing for every conformant message and every sender (obligations shared with C04/C05) provided endpoints do not raise -- which is what the driver obligations here establish for Driver endpoints",
        "floats are treated as mathematical reals (machine rounding not modelled)",
    ]
    chk.assumptions += ["children of a hostile new*Vector: any number, any element names, any text or missing values, BLOB size/format any strings; "
                        "number formats of the target: %s" % ", ".join(D.NUMBER_FORMATS if tier == "thorough" else ("%f", "%.3m")),
                        "driver-author precondition: element keys do not shadow vector attribute names (e.g. 'new_message_class')"]
    chk.min_obligations = 120
    chk.standin_on_out_of_reach("native fault catalogue", "driver.hostile_all", {}, always=True,
                                bound_text="fault catalogue (unknown / duplicate / wrong-kind elements, unparsable values, wrong BLOB sizes, no children) x message kind x target property kind on a real driver behind a real router; includes number texts beyond the float range, which the deductive model (floats as reals) cannot see")
    return chk.finish()
