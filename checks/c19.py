"""C19 -- outbound messages are whole and in order under every I/O schedule (lock discipline)."""
from pyvc.runner import Check, TaskSpec, run_tasks, PY_FULL
from contracts import transport as T
from checks import common


def run(tier, seed):
    chk = Check("C19", tier, seed, level="other")
    chk.explanation = (
        "Deductive obligations O1..O5 of a lock-discipline (ownership) contract are discharged on the real code of the three senders "
        "(TCP server connection, TTY driver channel, client TCP connection): O1 the bytes are produced by to_string() synchronously in the routing call, "
        "O2 the routing call is a plain function that creates exactly one task carrying exactly those bytes and awaits nothing (it cannot block the router, the devices "
        "or other connections), O3 every access to the stream happens inside one critical section of the connection's own lock, O4 the whole message is handed over in one "
        "write before any await inside the section (TCP) / write and flush both inside it (TTY), O5 nothing else touches the stream. "
        "That O1..O5 imply whole, non-interleaved, in-order output for every completion order of the awaited operations -- including a connection whose drain never completes, "
        "which delays only tasks waiting for the same lock -- is an argument about asyncio (tasks start in creation order, asyncio.Lock wakes waiters FIFO, "
        "StreamWriter.write appends atomically); it is ASSUMED, not proved: this family of technique does not model the scheduler. Hence level 'other', not 'proof'.")
    specs = [TaskSpec("discipline[%s]" % w, "contracts.transport", "task_c19", (w,), replay_kind="transport.order", python=PY_FULL, scenario=True) for w in ("tcp-server", "tcp-client", "tty")]
    chk.add_results(run_tasks(specs))
    for f in (T.TCP_S, T.TTY_S):
        chk.function(f, "ConnectionHandler.message_from_device")
    chk.function(T.TCP_S, "ConnectionHandler.send")
    chk.function(T.TTY_S, "ConnectionHandler._write")
    chk.function(T.TCP_C, "ConnectionHandler.send_message")
    chk.function(T.TCP_C, "ConnectionHandler.send")
    chk.trusted_base += common.ENCODING + [
        "asyncio scheduling semantics (task start order, Lock FIFO wake-up, atomic StreamWriter.write): ASSUMED",
        "IndiMessage.to_string abstracted (C03); aiofiles write/flush are awaitables of the stream object",
    ]
    chk.standin_on_out_of_reach("native write-order schedules", "transport.order", {"length": 7 if tier == "quick" else 9}, python=PY_FULL, always=True, timeout=1500,
                                bound_text="real tcp-server, tty and tcp-client senders with gated fake writers: bursts of 2..4 messages x every schedule word over {route, open oldest gate, loop turn} of "
                                           "length 7 (thorough 9) beginning with a route; one more connection whose drain never completes is registered throughout")
    chk.require_canary = False
    chk.min_obligations = 20
    return chk.finish()
