"""C10 -- number rendering and parsing are mutually inverse and follow INDI conventions."""
from pyvc.runner import Check, TaskSpec, run_tasks
from contracts import numbers as N
from checks import common


def specs(tier):
    out = []
    fmts = N.PRINTF_QUICK if tier == "quick" else sorted(set(N.PRINTF_QUICK + N.printf_all()))
    for fmt in fmts + N.SEXA:
        for ak in ("real", "int"):
            out.append(TaskSpec("render[%s,%s]" % (fmt, ak), "contracts.numbers", "task_render", (fmt, ak), replay_kind="number.render"))
    for form in N.FORMS:
        for fmt in ("%f", "%d", "%.3m", "%.6m", "%.9m"):
            out.append(TaskSpec("parse[%s as %s]" % (form, fmt), "contracts.numbers", "task_parse", (form, fmt), replay_kind="number.parse"))
    out.append(TaskSpec("validator", "contracts.numbers", "task_reject", (), replay_kind="codec.registry"))
    return out


def run(tier, seed):
    chk = Check("C10", tier, seed)
    chk.add_results(run_tasks(specs(tier)))
    for fn in ("num_to_str", "str_to_num"):
        chk.function("indi/device/values.py", fn)
    chk.function("indi/message/checks.py", "number")
    chk.trusted_base += common.ENCODING + [
        "floats are modelled as mathematical reals (finite by construction): the proof is about the algorithm; binary rounding of float arithmetic (a few ulps, far below every resolution on [-1e9, 1e9]) is "
        "covered only by the bounded native grid",
        "ASSUMED contract of CPython number formatting (pyvc/numfmt.py): '%' and f-string d/f conversions produce a text of the printf language for the flags/width/precision, denoting the correctly rounded "
        "value (|v - x| <= half a unit of the last place; %d truncates toward zero), '-' iff negative, padding by blanks or zeros as the flags say",
        "ASSUMED contract of float()/int(): texts of plain decimal notation (optional sign, digits, optional fraction; surrounding blanks ignored) are accepted and denote value_of(text), an uninterpreted "
        "function shared with the formatting model; value_of(sign + digits) = +/- value_of(digits)",
        "ASSUMED contract of the re engine for the patterns used (pyvc/regex.py), incl. that group boundaries of these unambiguous patterns are the ones computed by piece alignment",
        "format family: the printf formats are ENUMERATED (quick: %d representative flag/width/precision combinations; thorough: every subset of the flags '-+ 0#' x widths {none,1,5,12} x precisions "
        "{none,0,1,3,6} x {d,f}); for each format the obligations hold for EVERY value (symbolic real and symbolic int argument); the five sexagesimal precisions with and without a width"
        % len(N.PRINTF_QUICK),
        "parse grammar decided: integer, decimal (digits '.' digits*, '.' digits+), sexagesimal with 2 or 3 fields, two-digit minute/second fields, optional fraction on the last field, separators ':' ';' blank, "
        "optional '+'/'-' sign; every field digit string is symbolic (any length). Exponent notation and one-digit minute/second fields are not part of the decided grammar",
    ]
    chk.standin_on_out_of_reach("native number grid", "number.grid", {"seed": seed, "thorough": tier != "quick"}, always=True, timeout=1500,
                                bound_text="exact-rational reference reader vs the real functions: resolution grids of %.3m/%.5m/%.6m on [-3,3] (thorough [-360,360]) degrees, sub-grids for %.8m/%.9m, carry "
                                           "boundaries, negatives in (-1,0), integers, 1e9 magnitudes, random values; parsing of ~20k grammar texts x 4 formats")
    chk.min_obligations = 200
    return chk.finish()
