"""C02 -- stream framing is lossless, ordered and independent of fragmentation."""
from pyvc.runner import Check, TaskSpec, run_tasks, PY_FULL
from contracts import buffer as B
from checks import common, c11


def specs():
    return c11.specs() + [
        TaskSpec("scan-completeness", "contracts.buffer", "task_find_complete", (), replay_kind="buffer.process", timeout_ms=4000),
        TaskSpec("junk-removal-exactness", "contracts.buffer", "task_cleanup_exact", (), replay_kind="buffer.process", timeout_ms=4000),
        # call sites: every chunk a connection reads is appended and the buffer processed before it waits for more data
        TaskSpec("receive[client.tcp]", "contracts.transport", "task_client_receive", (), replay_kind="transport.prompt", python=PY_FULL, scenario=True),
        TaskSpec("receive[server.tcp]", "contracts.transport", "task_c12_receive", ("tcp",), replay_kind="transport.prompt", python=PY_FULL, scenario=True),
        TaskSpec("receive[server.tty]", "contracts.transport", "task_c12_receive", ("tty",), replay_kind="transport.prompt", python=PY_FULL, scenario=True)]


def run(tier, seed):
    chk = Check("C02", tier, seed)
    chk.add_results(run_tasks(specs()))
    c11.buffer_functions(chk)
    c11.buffer_trust(chk)
    chk.trusted_base += [
        "ASSUMED (XML prefix axiom): no proper prefix of the text of one complete element is a well-formed document; an element's text ends with '>' preceded by a non-'>' character",
        "stream grammar (from the statement): stream = (gap body)*, body a complete message text starting with '<' + known tag, gap without the first occurrence of any known-tag opener",
        "COMPOSITION NOT MACHINE-CHECKED: the per-call lemmas proved here -- junk removal leaves exactly the text from the first message on; the scan returns exactly the first "
        "complete message and its length, never a proper prefix (so nothing is delivered early or from a fragment) and never nothing when a complete message is at the front; "
        "process consumes exactly data[:end], delivers only what the scan found, keeps a suffix, terminates -- give losslessness, order, exactly-once and promptness by "
        "induction over the stream (DESIGN 4 C02); that induction is argued, and exercised by the bounded native fragmentation stand-in, not discharged by the solver",
    ]
    chk.standin_on_out_of_reach("native fragmentation corpus", "buffer.fragmentation_corpus", {"seed": seed, "n": 12 if tier == "quick" else 200},
                                bound_text="streams of 1..3 messages x 4 spellings x all 1-cut, sampled 2-cut, char-by-char and random k-cut partitions x threshold {max+1, 2048, None}",
                                always=True, timeout=900)
    chk.min_obligations = 100
    return chk.finish()
