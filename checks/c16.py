"""C16 -- client change events are complete and exact."""
from pyvc.runner import Check, TaskSpec, run_tasks
from contracts import client as C
from checks import common, c15


def specs(tier):
    out = [TaskSpec("trigger_event", "contracts.client", "task_c16_trigger", (), replay_kind="client.events")]
    for e in C.EVENT_CLASSES:
        for t in C.EVENT_CLASSES:
            out.append(TaskSpec("accepts_event[%s event, %s filter]" % (e, t), "contracts.client", "task_c16_accepts", (e, t), replay_kind="client.events"))
    for k in ((0, 1, 2) if tier == "quick" else (0, 1, 2, 3)):
        out.append(TaskSpec("onevent/rmonevent[%d registered]" % k, "contracts.client", "task_c16_registry", (k,), replay_kind="client.events"))
    for vk in ("Text", "Switch", "Number", "Light", "BLOB"):
        out.append(TaskSpec("event-chain[%s]" % vk, "contracts.client", "task_c16_chain", (vk, 2), replay_kind="client.events"))
    return out


def run(tier, seed):
    chk = Check("C16", tier, seed)
    chk.add_results(run_tasks(specs(tier), hard_limit=900))
    c15.client_functions(chk)
    for fn in ("_CallbackConfig.accepts_event", "BaseClient.onevent", "BaseClient.rmonevent", "BaseClient.trigger_event"):
        chk.function(C.CLIENT, fn)
    chk.trusted_base += common.ENCODING + [
        "trigger_event is proved for ANY number of registered callbacks (loop invariant); accepts_event is used there through its contract (proved separately for every event class x filter type)",
        "callbacks are abstract: any of them may raise (unknown predicate), plain or coroutine; a callback does not register/remove callbacks while trigger_event iterates (stated assumption)",
        "onevent/rmonevent are analysed on callback lists of length 0..2 (thorough 3) with every field symbolic; 'never after removal' follows from trigger_event reading self.callbacks at call time",
        "event chain: checked on updates with two children against a property with two elements (all names/values symbolic, repeated listings included); a redefinition creates new element objects (per-object chain)",
        "BLOB values compare by identity, as in the code",
    ]
    chk.min_obligations = 1500
    chk.standin_on_out_of_reach("native client event scenarios", "client.events", {"seed": seed, "n": 120 if tier == "quick" else 1500}, always=True,
                                bound_text="random streams (as in C15) with a catch-all listener (chains unbroken per element / property object, listener never stale) and 0-4 filtered callbacks "
                                           "(every filter combination, raising callbacks, removal by id at random points) checked against an independent matching rule")
    return chk.finish()
