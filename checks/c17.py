"""C17 -- waiting for an event returns the first match or times out, whatever the timing (safety part)."""
from pyvc.runner import Check, TaskSpec, run_tasks
from contracts import client as C
from checks import common


def run(tier, seed):
    chk = Check("C17", tier, seed)
    specs = []
    for cond in ("expect", "initial", "check"):
        for ek in ("value", "state"):
            specs.append(TaskSpec("%s/%s/timeout/polling" % (cond, ek), "contracts.client", "task_c17", (cond, ek, True, True)))
    specs.append(TaskSpec("expect/value/no-timeout/no-polling", "contracts.client", "task_c17", ("expect", "value", False, False)))
    specs.append(TaskSpec("initial/state/timeout/no-polling", "contracts.client", "task_c17", ("initial", "state", True, False)))
    chk.add_results(run_tasks(specs))
    chk.function(C.CLIENT, "BaseClient.waitforevent")
    chk.function(C.CLIENT, "BaseClient.onevent")
    chk.function(C.CLIENT, "BaseClient.rmonevent")
    chk.trusted_base += common.ENCODING + [
        "asyncio is cooperative: waitforevent and its closures (cb, timeout_check, poll) are split at their awaits into atomic segments; each segment is verified from an ARBITRARY "
        "shared state (lock, result.event, result.timeout) satisfying the invariant J, which covers every interleaving of segments, i.e. every arrival time of events relative to the "
        "timeout and polling ticks",
        "asyncio.Event / sleep / create_task are modelled (set/is_set/wait; sleep returns; create_task records the coroutine)",
        "NOT decided (time and scheduling are outside this technique, DESIGN 5): that the timeout fires 'at the timeout instant' and that polling happens 'at the configured delay and "
        "interval' -- these follow from the assumed asyncio.sleep contract and the segment structure checked here; liveness of the wait itself",
        "the precondition `assert 1 == sum(...)` (exactly one of expect/initial/check) is executed as written",
    ]
    chk.min_obligations = 300
    return chk.finish()
