"""C17 -- waiting for an event returns the first match or times out, whatever the timing (safety part)."""
from pyvc.runner import Check, TaskSpec, run_tasks, PY_FULL
from contracts import client as C
from checks import common


def run(tier, seed):
    chk = Check("C17", tier, seed)
    specs = []
    for cond in ("expect", "initial", "check"):
        for ek in ("value", "state"):
            specs.append(TaskSpec("%s/%s/timeout/polling" % (cond, ek), "contracts.client", "task_c17", (cond, ek, True, True), replay_kind="client.wait", python=PY_FULL, scenario=True))
    specs.append(TaskSpec("expect/value/no-timeout/no-polling", "contracts.client", "task_c17", ("expect", "value", False, False), replay_kind="client.wait", python=PY_FULL, scenario=True))
    specs.append(TaskSpec("initial/state/timeout/no-polling", "contracts.client", "task_c17", ("initial", "state", True, False), replay_kind="client.wait", python=PY_FULL, scenario=True))
    chk.add_results(run_tasks(specs))
    chk.function(C.CLIENT, "BaseClient.waitforevent")
    chk.function(C.CLIENT, "BaseClient.onevent")
    chk.function(C.CLIENT, "BaseClient.rmonevent")
    chk.trusted_base += common.ENCODING + [
        "asyncio is cooperative: waitforevent and its closures (cb, timeout_check, poll) are split at their awaits into atomic segments; each segment is verified from an ARBITRARY "
        "shared state (lock, result.event, result.timeout) satisfying the invariant J, which covers every interleaving of segments, i.e. every arrival time of events relative to the "
        "timeout and polling ticks",
        "asyncio.Event / sleep / create_task are modelled (set/is_set/wait; sleep returns; create_task records the coroutine)",
        "NOT decided (time and scheduling are outside this technique, DESIGN 5): that the timeout fires 'at the timeout instant' and that polling happens 'at the configured delay and "
        "interval' -- these follow from the assumed asyncio.sleep contract and the segment structure checked here; liveness of the wait itself",
        "the precondition `assert 1 == sum(...)` (exactly one of expect/initial/check) is executed as written",
    ]
    chk.standin_on_out_of_reach("native virtual-clock waits", "client.wait", {"small": tier == "quick"}, python=PY_FULL, always=True,
                                bound_text="real waitforevent on a virtual-clock event loop: condition kinds x event kinds x timeout {none, 2, 4} x polling {off, (1,1), (0.5,2)} x arrival instants of "
                                           "matching / non-matching events on a quarter grid (no ties); checks first-match, completion instant, timeout instant, polling instants, callbacks left")
    chk.min_obligations = 300
    return chk.finish()
