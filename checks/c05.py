"""C05 -- device messages fan out to every client, subject to its BLOB policy."""
from pyvc.runner import Check, TaskSpec, run_tasks, PY_FULL
from contracts import transport as T
from checks import c04


def run(tier, seed):
    chk = Check("C05", tier, seed)
    endpoint = [TaskSpec("endpoint[%s]" % w, "contracts.transport", "task_endpoint_frame", (w,), replay_kind="router.endpoint_frame",
                         python=PY_FULL, scenario=True) for w in ("tcp-server", "tty")]
    chk.add_results(run_tasks(c04.router_specs() + endpoint))
    c04.router_functions(chk)
    for f in (T.TCP_S, T.TTY_S):
        chk.function(f, "ConnectionHandler.__init__")
        chk.function(f, "ConnectionHandler.message_from_device")
    c04.router_trust(chk, client_endpoints_discharged=True)
    chk.min_obligations = 60
    chk.standin_on_out_of_reach("native router enumeration", "router.enumerate", {}, always=True,
                                bound_text="every message tag x sender (absent, unregistered, each client, each device) x 0-2 devices (accepting or not) x 0-2 clients with every BLOB policy")
    chk.standin_on_out_of_reach("native router histories", "router.history", {"seed": seed, "n": 300 if tier == "quick" else 3000}, always=True,
                                bound_text="random histories (register / unregister / re-register / enableBLOB / device messages incl. name-less delProperty / client messages) of 3 clients x "
                                           "2 devices on the real router against a reference model of the policy table")
    return chk.finish()
