"""C05 -- device messages fan out to every client, subject to its BLOB policy."""
from pyvc.runner import Check, run_tasks
from checks import c04


def run(tier, seed):
    chk = Check("C05", tier, seed)
    chk.add_results(run_tasks(c04.router_specs()))
    c04.router_functions(chk)
    c04.router_trust(chk)
    chk.min_obligations = 60
    chk.standin_on_out_of_reach("native router enumeration", "router.enumerate", {}, always=True,
                                bound_text="every message tag x sender (absent, unregistered, each client, each device) x 0-2 devices (accepting or not) x 0-2 clients with every BLOB policy")
    return chk.finish()
