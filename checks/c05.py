"""C05 -- device messages fan out to every client, subject to its BLOB policy."""
from pyvc.runner import Check, run_tasks
from checks import c04


def run(tier, seed):
    chk = Check("C05", tier, seed)
    chk.add_results(run_tasks(c04.router_specs()))
    c04.router_functions(chk)
    c04.router_trust(chk)
    chk.min_obligations = 60
    chk.standin_on_out_of_reach("native router enumeration", "router.enumerate", {}, always=True,
                                bound_text="every message tag x sender (absent, unregistered, each client, each device) x 0-2 devices (accepting or not) x 0-2 clients with every BLOB policy")
    chk.standin_on_out_of_reach("native router histories", "router.history", {"seed": seed, "n": 300 if tier == "quick" else 3000}, always=True,
                                bound_text="random histories (register / unregister / re-register / enableBLOB / device messages incl. name-less delProperty / client messages) of 3 clients x "
                                           "2 devices on the real router against a reference model of the policy table")
    return chk.finish()
