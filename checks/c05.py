"""C05 -- device messages fan out to every client, subject to its BLOB policy."""
from pyvc.runner import Check, run_tasks
from checks import c04


def run(tier, seed):
    chk = Check("C05", tier, seed)
    chk.add_results(run_tasks(c04.router_specs()))
    c04.router_functions(chk)
    c04.router_trust(chk)
    chk.min_obligations = 60
    return chk.finish()
