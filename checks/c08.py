"""C08 -- BLOB payloads arrive bit-exact in both directions and never stall a link."""
from pyvc.runner import Check, TaskSpec, run_tasks, PY_FULL
from contracts import driver as D, buffer as B, router as R
from checks import common, c04


def specs(tier):
    out = [TaskSpec("L08a driver->client chain", "contracts.write", "task_c08_down", (), replay_kind="blob.grid"),
           TaskSpec("L08b client->driver chain", "contracts.write", "task_c08_up", (), replay_kind="blob.grid"),
           TaskSpec("BLOB value functions", "contracts.write", "task_blob_decode", (), replay_kind="write.e2e"),
           TaskSpec("client submit[BLOB]", "contracts.write", "task_submit", ("BLOB",), replay_kind="write.e2e"),
           TaskSpec("driver frame[BLOB]", "contracts.write", "task_frame", ("BLOB", None), replay_kind="write.e2e"),
           TaskSpec("driver apply[BLOB]", "contracts.write", "task_apply", ("BLOB", None), replay_kind="write.e2e"),
           TaskSpec("driver publish element[blob.to_set_message]", "contracts.publish", "task_element", ("blob", "to_set_message"), replay_kind="driver.publish"),
           TaskSpec("client.tcp receive", "contracts.transport", "task_client_receive", (), replay_kind="transport.prompt", python=PY_FULL, scenario=True),
           TaskSpec("Buffer.process terminates", "contracts.buffer", "task_process", (), replay_kind="buffer.process")]
    for which in ("client", "tcp", "tty"):
        out.append(TaskSpec("threshold call sites[%s]" % which, "contracts.write", "task_c08_threshold_sites", (which,), replay_kind="blob.upload"))
    for name, reg in R.pm_class_names(c04.REPO):
        if name in ("SetBLOBVector",):
            out.append(TaskSpec("process_message[%s%s]" % (name, "" if reg else ",unregistered"), "contracts.router", "task_pm", (name, reg),
                                replay_kind="router.process_message"))
    return out


def run(tier, seed):
    chk = Check("C08", tier, seed, level="other")
    chk.explanation = ("contract-based deductive verification like the proof-level checks, but NOT claimed as a proof: the call-site obligations for the two server transports are refuted on the "
                       "unchanged tree (known finding F21: uploads longer than the server-side threshold are lost), so discharged < obligations by design; every other obligation is discharged "
                       "by z3/cvc5 for all payloads, formats, registries and policies; the native grid is a bounded stand-in")
    chk.add_results(run_tasks(specs(tier)))
    for fn in ("BLOB.from_base64", "BLOB.size", "BLOB.binary_base64", "BLOB.__init__"):
        chk.function("indi/device/values.py", fn)
    for fn in ("BLOB.to_set_message", "BLOB.set_value_from_message", "Element.set_value"):
        chk.function(D.ELT_FILE, fn)
    for fn in ("BLOB.set_value_from_message", "BLOB.to_new_message"):
        chk.function("indi/client/elements.py", fn)
    chk.function("indi/client/vectors.py", "Vector.submit")
    chk.function("indi/client/client.py", "BaseClient.blob_handshake")
    chk.function("indi/transport/client/tcp.py", "ConnectionHandler.__init__")
    chk.function("indi/transport/server/tcp.py", "ConnectionHandler.__init__")
    chk.function("indi/transport/server/tty.py", "ConnectionHandler.__init__")
    chk.function(B.FILE, "Buffer.process")
    chk.function(R.FILE, "Router.process_message")
    chk.trusted_base += common.ENCODING + [
        "ASSUMED contract of base64 (sampled natively by the stand-in over all 256 byte values): b64decode(b64encode(x)) == x; b64encode(x) is valid base64 text, empty iff x is empty",
        "wire typing between the two ends is the C03 lemma (every attribute arrives as its str() rendering, empty text arrives as absent text): applied between the real encoder and the real decoder "
        "in the chain tasks, proved for the codec by C03, for framing by C02 (any length when the threshold is disabled) -- composition by contract, not re-proved here",
        "bytes are modelled as sequences over 0..255 (z3 strings); len() is the sequence length; int(str(n)) == n for the size attribute (assumed contract of int/str)",
        "'never stalls a link': decided as termination of Buffer.process for any content (variant) and exception freedom; delivery of the traffic after a partial BLOB is C02's promptness clause",
        "driver-side update handlers may veto an upload (then nothing is stored)",
    ]
    chk.assumptions += [
        "policy clause: decided on Router.process_message for setBLOBVector with any registry, any sender and any per-client policy (unset/Never receive nothing; Also/Only receive it exactly once)",
        "call-site clause: the framing contract carries a message of any length only with the threshold disabled; every Buffer construction in the transports is checked against that",
    ]
    sizes = None if tier == "quick" else list(range(0, 40)) + list(range(740, 800)) + list(range(1000, 1050)) + list(range(1380, 1420))
    big = None if tier == "quick" else [1500, 1536, 2047, 2048, 2049, 3000, 4200, 65536, 1 << 20, 3 * (1 << 20) + 1]
    w = {"seed": seed}
    if sizes:
        w.update(sizes=sizes, big=big)
    chk.standin_on_out_of_reach("native BLOB transfer grid", "blob.grid", w,
                                bound_text="payload lengths across the 1024-byte read size and the 2048-character threshold (thorough: every length in four windows and up to 3 MiB downstream) x reads of 1024 / 97 / 1 "
                                           "x policy {unset, Never, Also, Only} x direction; uploads limited to messages below the server-side threshold (larger ones: known finding F21)", always=True, timeout=1800)
    chk.min_obligations = 60
    return chk.finish()
