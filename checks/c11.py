"""C11 -- garbage on the wire cannot hang, crash or bloat the receiver."""
from pyvc.runner import Check, TaskSpec, run_tasks
from contracts import buffer as B
from checks import common


def specs():
    return [TaskSpec("process", "contracts.buffer", "task_process", (), replay_kind="buffer.process"),
            TaskSpec("_find_message_in_buffer", "contracts.buffer", "task_find", (), replay_kind="buffer.process"),
            TaskSpec("_cleanup_buffer", "contracts.buffer", "task_cleanup", ("_cleanup_buffer",), replay_kind="buffer.process"),
            TaskSpec("_cleanup_beginning", "contracts.buffer", "task_cleanup", ("_cleanup_beginning",), replay_kind="buffer.process"),
            TaskSpec("_cleanup_beginning(exact)", "contracts.buffer", "task_cleanup_beginning_exact", (), replay_kind="buffer.process", timeout_ms=4000)]


def buffer_functions(chk):
    for fn in ("Buffer.__init__", "Buffer.append", "Buffer.data", "Buffer.data_len", "Buffer._cleanup_buffer", "Buffer._cleanup_beginning",
               "Buffer._find_message_in_buffer", "Buffer.process"):
        chk.function(B.FILE, fn)


def buffer_trust(chk):
    chk.trusted_base += common.ENCODING + [
        "ASSUMED: xml.etree.ElementTree.fromstring raises only ParseError on Latin-1 text (the transports decode latin1); modelled as an unknown predicate et_wellformed(text)",
        "ASSUMED: IndiMessage.from_string either raises (any Exception, caught by the buffer) or returns a message object; modelled as unknown predicate is_message(text) / function message_of(text)",
        "io.StringIO model: write appends, getvalue is the concatenation, tell() is its length",
        "z3 sequence theory for str.find / slicing; string obligations z3 leaves open are sent to cvc5 --strings-exp (only its `unsat` is used)",
        "the consumer callback may raise; such exceptions are the consumer's, not the buffer's",
    ]


def run(tier, seed):
    chk = Check("C11", tier, seed)
    chk.add_results(run_tasks(specs()))
    buffer_functions(chk)
    buffer_trust(chk)
    chk.assumptions += [
        "decided here: termination of process (variant: buffer length strictly decreases on every back edge) and of the scan loop, exception freedom, "
        "genuineness of every delivered value, retention bound when the threshold is enabled, for ANY buffer content and ANY threshold",
        "NOT decided by contracts (DESIGN 5): 'junk that does not imitate a protocol element never delays the valid messages around it' and 'after a corrupt element "
        "every later valid message is still delivered once enough further data has arrived' are whole-stream liveness clauses; they are exercised by the bounded native stand-in only",
    ]
    chk.standin_on_out_of_reach("native junk/fragmentation corpus", "buffer.junk_corpus", {"seed": seed, "n": 150 if tier == "quick" else 1500},
                                bound_text="generated corpus of junk fragments x valid messages x truncations x fragmentations x thresholds {16,128,2048,None}",
                                always=True, timeout=600)
    chk.min_obligations = 40
    return chk.finish()
