"""C14 -- driver event contract: Write, then default update and publication, then Change."""
from pyvc.runner import Check, TaskSpec, run_tasks
from contracts import driver as D
from checks import common


def specs():
    out = [TaskSpec("raise_event", "contracts.events", "task_c14_dispatch", (), replay_kind="driver.events"),
           TaskSpec("two instances of one driver class", "contracts.events", "task_c14_instances", (), replay_kind="driver.two_instances")]
    for k in ("text", "number", "light", "blob", "switch"):
        ops = ["assign", "set_value", "read"] + (["write"] if k in ("text", "light") else []) + (["publish"] if k != "number" else [])
        for op in ops:
            out.append(TaskSpec("%s/%s" % (k, op), "contracts.events", "task_c14", (k, op), replay_kind="driver.events"))
    return out


def run(tier, seed):
    chk = Check("C14", tier, seed)
    chk.add_results(run_tasks(specs()))
    chk.function(D.EVT_FILE, "EventSource.raise_event")
    for c in ("BaseEvent.__init__", "Write.__init__", "Read.__init__", "Change.__init__"):
        chk.function(D.EVT_FILE, c)
    for fn in ("Element.value", "Element.set_value", "Element.set_value_from_message", "Element.check_value_type", "Element.check_value",
               "Light.check_value", "Element.device", "Element.vector"):
        chk.function(D.ELT_FILE, fn)
    chk.trusted_base += common.ENCODING + [
        "handlers are abstract: any number per event kind, plain or coroutine function (unknown predicate), a plain Write handler may veto, a plain Read handler may refresh the stored value; "
        "Write and Change handlers do not modify the element themselves (stated assumption)",
        "asyncio: create_task only records the task; the body of a coroutine function does not run before the current synchronous segment ends -- that is the statement's 'run afterwards'",
        "Vector.to_set_message / Driver.send_message abstracted at the serialisation point: the element value at that instant is what the update carries; vector enabled",
        "for switch elements the event contract is stated over the value the rule lets the element take (the rule itself is C09); BLOB 'value actually changed' is object identity in the code and in this oracle (content comparison of equal payloads is not claimed)",
        "handler *registration* (attach_event_handlers' dir() scan, the @on decorator) is outside the verified dispatch path",
    ]
    chk.min_obligations = 300
    chk.standin_on_out_of_reach("native event scenarios", "driver.events_all", {},
                                bound_text="native scenarios (handler configurations 0-2 plain/coroutine/vetoing handlers, changed and unchanged values) x element kinds x {assign, set_value, read, publish}")
    return chk.finish()
