"""C07 -- getProperties is answered with exactly the definitions asked for; every emitted message is valid."""
from pyvc.runner import Check, TaskSpec, run_tasks
from contracts import publish as P, driver as D
from checks import common


def specs(tier):
    out = [TaskSpec("getProperties", "contracts.publish", "task_get_properties", (), replay_kind="driver.publish"),
           TaskSpec("inheritance", "contracts.publish", "task_inheritance", (), replay_kind="driver.inheritance")]
    for k in D.KINDS:
        for w in ("to_def_message", "to_set_message"):
            out.append(TaskSpec("vector[%s.%s]" % (k, w), "contracts.publish", "task_vector", (k, w), replay_kind="driver.publish"))
            if k != "number":
                out.append(TaskSpec("element[%s.%s]" % (k, w), "contracts.publish", "task_element", (k, w), replay_kind="driver.publish"))
    for fmt in P.FORMATS:
        for w in ("to_def_message", "to_set_message"):
            out.append(TaskSpec("element[number.%s(%s)]" % (w, fmt), "contracts.publish", "task_element", ("number", w, fmt), replay_kind="driver.publish"))
    return out


def run(tier, seed):
    chk = Check("C07", tier, seed)
    chk.add_results(run_tasks(specs(tier)))
    chk.function(D.DRV_FILE, "Driver.message_from_client")
    chk.function(D.DRV_FILE, "Driver.send_message")
    chk.function(D.DRV_FILE, "Driver._all_group_definitions")
    chk.function(D.DRV_FILE, "Driver.__init__")
    chk.function(D.DRV_FILE, "DriverMeta.__new__")
    for fn in ("Vector.to_def_message", "Vector.to_set_message", "SwitchVector.to_def_message", "LightVector.to_def_message", "LightVector.to_set_message",
               "Vector.enabled", "Vector.device", "Vector.name"):
        chk.function(D.VEC_FILE, fn)
    for fn in ("Element.to_def_message", "Element.to_set_message", "Number.to_def_message", "Number.to_set_message", "BLOB.to_set_message", "Element.value"):
        chk.function(D.ELT_FILE, fn)
    chk.function("indi/device/values.py", "num_to_str")
    chk.function("indi/message/checks.py", "number")
    chk.trusted_base += common.ENCODING + [
        "modular structure: the vector-level functions are verified with the per-element comprehension recognised syntactically as '[e.to_*_message() for e in elements if e.enabled]' "
        "(any other element expression or filter is reported, not assumed); the element-level functions are verified on a generic element of a vector of any size",
        "ASSUMED contract of CPython number formatting (pyvc/numfmt.py): %d/%f and f-string specs produce text in the printf output language denoting the correctly rounded decimal; "
        "re.match on a concatenation of such texts is decided at the regular-language level",
        "floats are mathematical reals (machine rounding not modelled); number values in [-1e9, 1e9]; number formats without width/flags (%f, %.2f, %d) and the five sexagesimal forms -- "
        "formats with a width or '+' flag are rejected by the library's own validator (a C10 matter, not claimed here)",
        "driver-author preconditions: the definition's perm / rule / initial state are protocol vocabulary; labels are strings; Read handlers do not raise",
        "validity = C13 conformance of every constrained field + presence of the constructor-required attributes, which by the C03 round-trip lemma means the library's parser reads the message back unchanged",
        "router side (devices not addressed / unknown device names elicit nothing): C04's postcondition",
    ]
    chk.min_obligations = 150
    chk.standin_on_out_of_reach("native publication scenario", "driver.publish", {}, always=True,
                                bound_text="one driver with a property of every kind (several number formats, set/unset/empty BLOBs, disabled elements and property), getProperties in every "
                                           "(device, name) combination, run-time value / state changes; every emitted message re-parsed by the library's own parser")
    return chk.finish()
