"""C20 -- message equality is structural."""
from pyvc.runner import Check, TaskSpec, run_tasks, REPO
from contracts import codec as K
from checks import common


def specs(tier):
    msgs, parts = K.class_names(REPO)
    out = []
    for m in msgs:
        nm = m.split("@")[0]
        out.append(TaskSpec("eq[%s,any children]" % nm, "contracts.codec", "task_c20_message", (m, "symbolic"), replay_kind="codec.eq"))
        if "Number" in nm:
            ks = ()      # number parts fork on 8 regular expressions per child: covered by the symbolic-children task only
        else:
            ks = (1, 2, 3) if tier == "thorough" else (2,)
        for k in ks:
            out.append(TaskSpec("eq[%s,%d children]" % (nm, k), "contracts.codec", "task_c20_message", (m, k), replay_kind="codec.eq"))
        out.append(TaskSpec("cross[%s]" % nm, "contracts.codec", "task_c20_cross", (m,), replay_kind="codec.eq"))
    for p in parts:
        nm = p.split("@")[0]
        out.append(TaskSpec("eq[%s]" % nm, "contracts.codec", "task_c20_part", (p,), replay_kind="codec.eq"))
        out.append(TaskSpec("cross[%s]" % nm, "contracts.codec", "task_c20_cross", (p,), replay_kind="codec.eq"))
    return out


def codec_trust(chk):
    chk.trusted_base += common.ENCODING + [
        "str(v) of a non-str attribute is an uninterpreted function of v (the same function on both sides of a comparison)",
        "re engine contract (pyvc/regex.py): the repository's literal patterns denote the stated regular languages; \\d is [0-9] on Latin-1 text",
        "checks.children is used through its contract inside constructors (verified on its own under C13)",
        "function summaries (pyvc/summary.py): the field map of the i-th child is the real part constructor's result on the i-th arguments, over all accepting paths",
    ]


def run(tier, seed):
    chk = Check("C20", tier, seed)
    chk.add_results(run_tasks(specs(tier)))
    for fn in ("IndiMessage.to_dict", "IndiMessage.__eq__", "IndiMessagePart.to_dict", "IndiMessagePart.__eq__"):
        chk.function(K.BASE_FILE, fn)
    chk.function(K.BASE_FILE, "IndiMessage.__init__", "constructor executed to build the symbolic messages")
    codec_trust(chk)
    chk.assumptions += ["attribute values range over None, str and int (what the wire and the driver supply); children are instances of the vector's child class"]
    chk.min_obligations = 100
    chk.standin_on_out_of_reach("native equality corpus", "codec.eq_corpus", {}, always=True,
                                bound_text="set*Vector of every kind with 0-3 children: identical structure, every single-field / single-child / order / count difference, different kinds")
    return chk.finish()
