"""Shared trusted-base / assumption texts."""
ENCODING = [
    "Python semantics assumed by the encoding: mathematical integers; str as z3 String; `==` across different dynamic types is False; "
    "dict iteration is insertion order; object identity is (region, index) and objects of different regions never alias; "
    "no monkey-patching between extraction and run",
    "PyVC itself (symbolic interpreter over the real ASTs, loop rule, decision replay) is trusted; guarded by the CPython differential "
    "(selftest/differential.py), per-property canaries and the seeded-mutant corpus",
    "z3 4.x/5.1.0 E-matching `unsat` answers are trusted as proofs",
]
DROPS = ["type annotations", "docstrings"]
