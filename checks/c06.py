"""C06 -- a client's write changes exactly the addressed element, to the value sent."""
from pyvc.runner import Check, TaskSpec, run_tasks
from contracts import write as W, driver as D
from checks import common


def specs(tier):
    out = [TaskSpec("BLOB value functions", "contracts.write", "task_blob_decode", (), replay_kind="write.e2e")]
    for k in ("Text", "Number", "Switch", "BLOB"):
        out.append(TaskSpec("client submit[%s]" % k, "contracts.write", "task_submit", (k,), replay_kind="write.e2e"))
    for k, f in (("Text", None), ("Number", "%f"), ("Number", "%.3m"), ("BLOB", None)):
        out.append(TaskSpec("driver frame[%s,%s]" % (k, f), "contracts.write", "task_frame", (k, f), replay_kind="write.e2e"))
    fmts = ("%f", "%d", "%.6m") if tier == "quick" else D.NUMBER_FORMATS
    for k, f in [("Text", None), ("BLOB", None)] + [("Number", x) for x in fmts]:
        out.append(TaskSpec("driver apply[%s,%s]" % (k, f), "contracts.write", "task_apply", (k, f), replay_kind="write.e2e"))
    # number texts in sexagesimal notation: the value formula is proved on str_to_num (C10 tasks, C06-tagged clauses)
    from contracts import numbers as N
    for form in N.FORMS:
        for f in ("%f", "%.6m"):
            out.append(TaskSpec("parse[%s as %s]" % (form, f), "contracts.numbers", "task_parse", (form, f), replay_kind="number.parse"))
    # switches: the write clauses are proved together with the rule (C09 tasks, C06-tagged obligations)
    out.append(TaskSpec("switch apply_rule", "contracts.switch", "task_apply_rule", (), replay_kind="switch.op"))
    for op in ("set_value", "set_value_from_message"):
        out.append(TaskSpec("switch write[%s]" % op, "contracts.switch", "task_single", (op,), replay_kind="switch.op"))
    return out


def run(tier, seed):
    chk = Check("C06", tier, seed)
    chk.add_results(run_tasks(specs(tier)))
    for fn in ("Vector.submit",):
        chk.function("indi/client/vectors.py", fn)
    for fn in ("Element.value", "Element.has_new_value", "Element.reset_new_value", "Element.to_new_message", "BLOB.to_new_message"):
        chk.function("indi/client/elements.py", fn)
    chk.function(D.VEC_FILE, "Vector.from_new_message")
    chk.function(D.VEC_FILE, "SwitchVector.apply_rule")
    for fn in ("Element.set_value_from_message", "Element.set_value", "Element.value", "Number.set_value_from_message", "BLOB.set_value_from_message",
               "Switch.check_value"):
        chk.function(D.ELT_FILE, fn)
    for fn in ("str_to_num", "BLOB.from_base64", "BLOB.size", "BLOB.binary_base64"):
        chk.function("indi/device/values.py", fn)
    chk.trusted_base += common.ENCODING + [
        "client side: a property with two elements (names, values symbolic) and every subset of them assigned; driver side: vectors of any size, messages with any number of children (frame) and "
        "one named element (value)",
        "float()/int() of a number text are the denotation of plain decimal notation (assumed contract of the converters); the sexagesimal value formula and its sign convention are C10's subject, not claimed here",
        "base64: b64decode(b64encode(x)) == x, b64decode('') == b'' (assumed); an empty payload arrives as absent text",
        "a plain Write handler may veto (then nothing changes); handlers do not touch the vector",
        "COMPOSITION (stated, not discharged as one obligation): serializer/parser C03, framing C02, routing C04 carry the new*Vector to the driver unchanged up to wire typing; publication C14/C07, fan-out C05 "
        "and the client step C15 bring the update back, so the client's own view shows the new values; the bounded native end-to-end stand-in exercises the whole chain",
    ]
    chk.standin_on_out_of_reach("native end-to-end writes", "write.e2e", {"seed": seed},
                                bound_text="client -> serializer -> framing (chunks 1024 and 7) -> router -> driver -> update -> client view; every kind incl. all 256 byte values and the empty BLOB", always=True)
    chk.min_obligations = 300
    return chk.finish()
