"""C15 -- the client mirrors any server's property stream faithfully and survives it."""
from pyvc.runner import Check, TaskSpec, run_tasks, PY_FULL
from contracts import client as C
from checks import common


def specs(tier):
    out = []
    ks = (0, 2) if tier == "quick" else (0, 1, 2, 3)
    for k in C.KINDS:
        for n in ks:
            out.append(TaskSpec("def[%s,%d]" % (k, n), "contracts.client", "task_c15", ("def", k, n), replay_kind="client.step"))
            out.append(TaskSpec("set[%s,%d]" % (k, n), "contracts.client", "task_c15", ("set", k, n), replay_kind="client.step"))
    out.append(TaskSpec("set-kind-mismatch", "contracts.client", "task_c15", ("set", "Number", 1, "Text"), replay_kind="client.step"))
    out.append(TaskSpec("delProperty", "contracts.client", "task_c15", ("del", "Text", 0), replay_kind="client.step"))
    out.append(TaskSpec("delProperty-whole-device", "contracts.client", "task_c15", ("del-device", "Text", 0), replay_kind="client.step"))
    for c in ("Message", "PingRequest", "GetProperties"):
        out.append(TaskSpec("other:" + c, "contracts.client", "task_c15", ("other:" + c, "Text", 0), replay_kind="client.step"))
    out.append(TaskSpec("client.tcp receive", "contracts.transport", "task_client_receive", (), replay_kind="transport.prompt", python=PY_FULL, scenario=True))
    return out


def client_functions(chk):
    for fn in ("BaseClient.process_message", "BaseClient.get_device", "BaseClient.set_device", "BaseClient.blob_handshake", "BaseClient.trigger_event"):
        chk.function(C.CLIENT, fn)
    for fn in ("Device.__init__", "Device.process_message", "Device.get_vector", "Device.set_vector"):
        chk.function(C.DEVICE, fn)
    for fn in ("Vector.__init__", "Vector.from_message", "Vector.process_message"):
        chk.function(C.VECTORS, fn)
    for fn in ("Element.__init__", "Element.from_message", "Element.process_message", "Element.set_value_from_message", "BLOB.set_value_from_message"):
        chk.function(C.ELEMENTS, fn)
    chk.function("indi/device/snoop.py", "SnoopingClient.message_from_device")
    chk.function("indi/transport/client/tcp.py", "ConnectionHandler.wait_for_messages")
    chk.function("indi/transport/client/tcp.py", "ConnectionHandler.message_from_server")


def run(tier, seed):
    chk = Check("C15", tier, seed)
    chk.add_results(run_tasks(specs(tier)))
    client_functions(chk)
    chk.trusted_base += common.ENCODING + [
        "universe shape: the view under test is built by the real code from three definitions (device d1 with two properties, device d2 with one; up to two elements each); "
        "every name, kind-independent attribute, state and value is symbolic, and the message under test has 0 or 2 (thorough 0..3) children with symbolic names/values. "
        "The step function is compared with the reference for an ARBITRARY query (device, property, element); larger universes are not covered -- the statement's own quantifier is a small universe",
        "messages are as the parser delivers them (C13 conformance assumed); BLOB payloads are base64 (possibly empty or absent) with a matching declared size (well-formed stream)",
        "base64.b64decode is an unknown function of the text with b64decode('') == b''; int() of the size attribute unknown function",
        "Buffer.process through its C11 contract in the client receive loop",
    ]
    chk.standin_on_out_of_reach("native reference interpreter", "client.step", {"seed": seed, "n": 300 if tier == "quick" else 3000}, always=True,
                                bound_text="random streams (1..8 messages) over devices {A,B} x properties {P,Q} x elements {x,y,z} x 5 kinds incl. redefinition, kind mismatch, "
                                           "unknown targets, empty/absent BLOB payloads, whole-device deletion; real client vs independent reference interpreter")
    chk.min_obligations = 1500
    return chk.finish()
