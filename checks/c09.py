"""C09 -- switch properties always satisfy their rule."""
from pyvc.runner import Check, TaskSpec, run_tasks
from contracts import switch as S
from checks import common


def specs():
    out = [TaskSpec("apply_rule", "contracts.switch", "task_apply_rule", (), replay_kind="switch.op")]
    for op in ("assign", "bool_value", "set_value", "set_value_from_message"):
        out.append(TaskSpec("write[%s]" % op, "contracts.switch", "task_single", (op,), replay_kind="switch.op"))
    for t in ("task_from_new_message", "task_selected_value", "task_selected_values"):
        out.append(TaskSpec(t[5:], "contracts.switch", t, (), replay_kind="switch.op"))
    return out


def run(tier, seed):
    chk = Check("C09", tier, seed)
    chk.add_results(run_tasks(specs()))
    for fn in ("SwitchVector.apply_rule", "SwitchVector.selected_value", "SwitchVector.selected_values", "Vector.from_new_message"):
        chk.function(S.VEC_FILE, fn)
    for fn in ("Switch.check_value", "Switch.bool_value", "Element.value", "Element.set_value", "Element.set_value_from_message",
               "Element.check_value_type"):
        chk.function(S.ELT_FILE, fn)
    chk.function("indi/message/checks.py", "dictionary", "inlined callee")
    chk.trusted_base += common.ENCODING + [
        "engine lemma filter-length (comprehension over a symbolic collection): 0<=len<=n, len==0 <=> no element passes, len==n <=> all pass",
        "event handlers (Read/Write/Change) are arbitrary but do not touch the vector (reset_value/reset_bool_value bypass the rule by design); a plain Write handler may veto",
        "Driver.send_message/Vector.to_set_message are abstracted at the serialisation point: the element values at that instant are what is published (their own behaviour is C07/C14)",
        "initial configuration: element values are On/Off, names and keys pairwise distinct; for the exclusive rules at most one switch is On initially (driver-author obligation on the definition)",
    ]
    chk.assumptions += ["client writes carry On/Off for known element names (anything else is C12's concern)"]
    chk.min_obligations = 300 if not chk.out_of_reach else 1
    chk.standin_on_out_of_reach("native enumeration of small switch vectors", "switch.enumerate",
                                {"nmax": 3 if tier == "quick" else 4},
                                bound_text="rules x 1..3 switches (4 thorough) x admissible initial configurations x every single operation incl. 1- and 2-element client writes")
    return chk.finish()
