"""C18 -- every way a connection can end leaves the router clean and the others served."""
from pyvc.runner import Check, TaskSpec, run_tasks, PY_FULL
from contracts import transport as T
from checks import common, c04


def run(tier, seed):
    chk = Check("C18", tier, seed)
    specs = [TaskSpec("teardown[%s]" % w, "contracts.transport", "task_c18", (w,), replay_kind="transport.teardown", python=PY_FULL, scenario=True) for w in ("tcp", "tty")]
    # router side: the mutators (unregister forgets the client and its policy row, register gives defaults) and process_message itself:
    # "no further delivery is attempted to it" is its postcondition "delivered exactly to the REGISTERED clients the policy lets through", for any registry
    specs += c04.router_specs()
    chk.add_results(run_tasks(specs))
    for fn in ("ConnectionHandler.__init__", "ConnectionHandler.handler", "ConnectionHandler.wait_for_messages", "ConnectionHandler.message_from_client",
               "ConnectionHandler.close"):
        chk.function(T.TCP_S, fn)
    for fn in ("ConnectionHandler.__init__", "ConnectionHandler.handle", "ConnectionHandler.wait_for_messages", "ConnectionHandler.close"):
        chk.function(T.TTY_S, fn)
    c04.router_functions(chk)
    chk.trusted_base += common.ENCODING + [
        "asyncio is cooperative; what an await returns is havocked: reader.read()/readline() returns any data (EOF included) or raises, and ANY await may be the point of "
        "cancellation (CancelledError); the receive loop is analysed by the invariant rule, so the fault may occur at any iteration, inside a message or after junk",
        "message handling may raise anything (router_may_raise): covers 'an error while one of its messages is being handled'",
        "StreamWriter.close() and logger.exception() do not raise",
        "router side (obligations shared with C04/C05, discharged here as well): unregister_client forgets the client and its BLOB policy row and leaves every other client registered with its policy; "
        "register_client gives a (re)connecting peer the default policy; process_message delivers exactly to the registered clients the policy lets through, for any registry -- "
        "router state kept in fields OTHER than clients / blob_routing is outside these contracts and is covered by the bounded router-history stand-in only",
        "NOT covered: a write error on the peer surfaces in a separate send task, not in the per-connection coroutine; nothing unregisters the connection on that path until its read side fails "
        "(limitation of the statement's reach, see DESIGN); tasks already queued when the connection closes may still attempt a write to the closed writer",
    ]
    chk.standin_on_out_of_reach("native teardown scenarios", "transport.teardown", {}, python=PY_FULL, always=True,
                                bound_text="real tcp and tty handlers on fake streams: fault kinds {EOF, read error, EOF inside a message, junk then EOF, handler exception, cancellation, OSError} x 5 session "
                                           "prefixes; a second connection must keep receiving device traffic")
    chk.standin_on_out_of_reach("native router histories", "router.history", {"seed": seed, "n": 300 if tier == "quick" else 3000}, always=True,
                                bound_text="random histories (register / unregister / re-register / enableBLOB / device messages incl. BLOBs / client messages) of 3 clients x 2 devices on the real "
                                           "router against a reference model: nothing is delivered to an unregistered client, a re-registered one starts from default settings")
    chk.min_obligations = 60
    return chk.finish()
