"""C18 -- every way a connection can end leaves the router clean and the others served."""
from pyvc.runner import Check, TaskSpec, run_tasks, PY_FULL
from contracts import transport as T
from checks import common, c04


def run(tier, seed):
    chk = Check("C18", tier, seed)
    specs = [TaskSpec("teardown[%s]" % w, "contracts.transport", "task_c18", (w,), replay_kind="transport.teardown", python=PY_FULL, scenario=True) for w in ("tcp", "tty")]
    specs += [s for s in c04.router_specs() if s.name.startswith("mutator")]
    chk.add_results(run_tasks(specs))
    for fn in ("ConnectionHandler.__init__", "ConnectionHandler.handler", "ConnectionHandler.wait_for_messages", "ConnectionHandler.message_from_client",
               "ConnectionHandler.close"):
        chk.function(T.TCP_S, fn)
    for fn in ("ConnectionHandler.__init__", "ConnectionHandler.handle", "ConnectionHandler.wait_for_messages", "ConnectionHandler.close"):
        chk.function(T.TTY_S, fn)
    c04.router_functions(chk)
    chk.trusted_base += common.ENCODING + [
        "asyncio is cooperative; what an await returns is havocked: reader.read()/readline() returns any data (EOF included) or raises, and ANY await may be the point of "
        "cancellation (CancelledError); the receive loop is analysed by the invariant rule, so the fault may occur at any iteration, inside a message or after junk",
        "message handling may raise anything (router_may_raise): covers 'an error while one of its messages is being handled'",
        "StreamWriter.close() and logger.exception() do not raise",
        "router side (shared with C04/C05): unregister_client forgets the client and its BLOB policy row and leaves every other client registered with its policy; "
        "register_client gives a (re)connecting peer the default policy; after unregistration process_message delivers only to registered clients",
        "NOT covered: a write error on the peer surfaces in a separate send task, not in the per-connection coroutine; nothing unregisters the connection on that path until its read side fails "
        "(limitation of the statement's reach, see DESIGN); tasks already queued when the connection closes may still attempt a write to the closed writer",
    ]
    chk.standin_on_out_of_reach("native teardown scenarios", "transport.teardown", {}, python=PY_FULL, always=True,
                                bound_text="real tcp and tty handlers on fake streams: fault kinds {EOF, read error, EOF inside a message, junk then EOF, handler exception, cancellation, OSError} x 5 session "
                                           "prefixes; a second connection must keep receiving device traffic")
    chk.min_obligations = 60
    return chk.finish()
