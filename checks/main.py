import argparse
import importlib
import json
import os
import sys

VERIF = os.path.dirname(os.path.dirname(os.path.abspath(__file__)))
sys.path.insert(0, VERIF)


def main():
    ap = argparse.ArgumentParser()
    ap.add_argument("prop", nargs="?")
    ap.add_argument("--tier", default=os.environ.get("VERIF_TIER", "quick"))
    ap.add_argument("--replay")
    a = ap.parse_args()
    seed = int(os.environ.get("VERIF_SEED", "0") or 0)
    if a.replay:
        from pyvc.runner import native_replay, PY_NATIVE, PY_FULL
        d = json.load(open(a.replay))
        kind = d.get("replay_kind") or (d.get("witness") or {}).get("replay_kind")
        if not kind or not d.get("witness"):
            print("no concrete input in this replay file; failed obligation:", d.get("failed_obligation"))
            print(json.dumps(d.get("verifier_output"), indent=1)[:4000])
            return 1
        r = native_replay(kind, d["witness"], d.get("python", PY_NATIVE))
        print("obligation:", d.get("failed_obligation"))
        print("native replay:", json.dumps(r, indent=1))
        return 1 if r.get("reproduced") else 0
    tier = a.tier if a.tier in ("quick", "thorough") else "quick"
    mod = importlib.import_module("checks." + a.prop.lower())
    return mod.run(tier, seed)


if __name__ == "__main__":
    try:
        sys.exit(main())
    except SystemExit:
        raise
    except BaseException:
        import traceback
        traceback.print_exc()
        sys.exit(3)
