"""int()/float() of symbolic strings.

Assumed contract of CPython's converters (trusted base): float(s)/int(s) either raise
ValueError or return a number that is a function of the text: unknown predicates
float_ok / int_ok and unknown functions float_val / int_val.  (C10 refines these with
the decimal grammar.)
"""
import z3
from .interp import OutOfReach
from .smt import VReal, VInt, get_s, get_i, S
from .values import Sym

StrS = z3.StringSort()
from .numfmt import value_of

float_ok = z3.Function("float_ok", StrS, z3.BoolSort())
int_ok = z3.Function("int_ok", StrS, z3.BoolSort())


def float_val(t):
    """the number a text denotes: one function shared by the formatting model, float() and int()"""
    return value_of(t)


def int_val(t):
    return z3.ToInt(value_of(t))


def int_of_str(I, v):
    h = getattr(I, "int_of_str_hook", None)
    if h is not None:
        return h(I, v)
    t = get_s(v.term)
    if not I.prover.fork(int_ok(t)):
        I.raise_builtin("ValueError", "invalid literal for int()")
    return Sym(VInt(int_val(t)))


def float_of(I, v):
    h = getattr(I, "float_of_hook", None)
    if h is not None:
        return h(I, v)
    k = I.kind(v)
    if k == "real":
        return v
    if k in ("int", "bool"):
        return Sym(VReal(z3.ToReal(I.as_int(v))))
    if k == "str":
        t = get_s(v.term)
        if not I.prover.fork(float_ok(t)):
            I.raise_builtin("ValueError", "could not convert string to float")
        return Sym(VReal(float_val(t)))
    I.raise_builtin("TypeError", "float() argument must be a string or a real number, not '%s'" % k)
