"""int()/float() of symbolic strings (assumed contracts; see C10)."""
from .interp import OutOfReach


def int_of_str(I, v):
    h = getattr(I, "int_of_str_hook", None)
    if h is not None:
        return h(I, v)
    raise OutOfReach("int() of symbolic string")


def float_of(I, v):
    h = getattr(I, "float_of_hook", None)
    if h is not None:
        return h(I, v)
    raise OutOfReach("float() of symbolic value")
