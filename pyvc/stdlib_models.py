"""Models of the stdlib modules the repository imports.  Each is an *assumed
contract* (listed in the evidence trusted base); concrete arguments are
delegated to the real library."""
import z3
from . import smt
from .smt import (Val, VNone, VBool, VInt, VStr, VRef, VReal, VBytes, is_none, is_int,
                  is_str, get_i, get_s, get_y, S)
from .values import *
from .interp import IRaise, OutOfReach, MISSING
from .builtins_model import stdlib, is_prim, boolval


def module(name, **ns):
    m = IModule(name)
    m.is_model = True
    m.ns.update(ns)
    return m


class Generic(Native):
    """typing constructs: subscriptable, callable-ish placeholders."""
    typing_generic = True

    def __init__(self, name):
        Native.__init__(self, name, lambda I, a, k: a[0] if a else None)

    def pyvc_getattr(self, I, name):
        return Generic(self.name + "." + name)


@stdlib("typing")
def _typing(I):
    m = IModule("typing")

    class _NS(dict):
        def __contains__(self, k):
            return True

        def __missing__(self, k):
            g = Generic("typing." + k)
            self[k] = g
            return g
    ns = _NS()
    ns["TYPE_CHECKING"] = False
    ns["NewType"] = Native("NewType", lambda I_, a, k: Native("NewType:" + str(a[0]), lambda I2, b, kk: b[0]))
    ns["cast"] = Native("cast", lambda I_, a, k: a[1])
    m.ns = ns
    return m


@stdlib("typing_extensions")
def _typing_ext(I):
    return _typing(I)


class Logger:
    def pyvc_getattr(self, I, name):
        return Native("logger." + name, lambda I_, a, k: None)


@stdlib("logging")
def _logging(I):
    lg = Logger()
    m = module("logging", getLogger=Native("getLogger", lambda I_, a, k: lg),
               DEBUG=10, INFO=20, WARNING=30, ERROR=40)
    m.ns["basicConfig"] = Native("basicConfig", lambda I_, a, k: None)
    m.ns["Logger"] = Generic("Logger")
    return m


@stdlib("uuid")
def _uuid(I):
    B = I.world.builtins
    U = IClass("UUID", [B["object"]], {}, None, "UUID")
    return module("uuid", UUID=U, uuid4=Native("uuid4", lambda I_, a, k: IObject(U)))


@stdlib("datetime")
def _datetime(I):
    class DT:
        def pyvc_getattr(self, I_, name):
            if name in ("utcnow", "now"):
                return Native(name, lambda I2, a, k: self)
            if name == "isoformat":
                return Native(name, lambda I2, a, k: getattr(I2, "concrete_time", None) or Sym(VStr(I2.fresh("timestamp", z3.StringSort()))))
            return MISSING
    return module("datetime", datetime=DT())


@stdlib("math")
def _math(I):
    import math

    def floor(I_, a, k):
        if isinstance(a[0], (int, float)):
            return math.floor(a[0])
        v = a[0]
        if isinstance(v, Sym):
            k = I_.kind(v)
            if k == "int":
                return v
            if k == "real":
                return Sym(smt.VInt(z3.ToInt(smt.get_x(v.term))))
            I_.raise_builtin("TypeError", "must be real number, not %s" % k)
        raise OutOfReach("math.floor symbolic")
    def isfinite(I_, a, k):
        v = a[0]
        if isinstance(v, (int, float)) and not isinstance(v, Sym):
            try:
                return math.isfinite(v)
            except OverflowError as e:
                I_.raise_builtin("OverflowError", str(e))
        if isinstance(v, Sym):
            kd = I_.kind(v)
            if kd in ("int", "real", "bool"):
                return True      # symbolic numbers are mathematical (finite) integers / reals: see the trusted base
            I_.raise_builtin("TypeError", "must be real number, not %s" % kd)
        I_.raise_builtin("TypeError", "must be real number")

    def trunc(I_, a, k):
        v = a[0]
        if isinstance(v, (int, float)) and not isinstance(v, Sym):
            return math.trunc(v)
        if isinstance(v, Sym):
            kd = I_.kind(v)
            if kd == "int":
                return v
            if kd == "real":
                x = smt.get_x(v.term)
                return Sym(smt.VInt(z3.If(x >= 0, z3.ToInt(x), -z3.ToInt(-x))))
        raise OutOfReach("math.trunc symbolic")
    return module("math", floor=Native("floor", floor), isfinite=Native("isfinite", isfinite), trunc=Native("trunc", trunc))


@stdlib("hashlib")
def _hashlib(I):
    def md5(I_, a, k):
        raise OutOfReach("hashlib.md5")
    return module("hashlib", md5=Native("md5", md5))


b64enc = z3.Function("b64encode", z3.StringSort(), z3.StringSort())
b64dec = z3.Function("b64decode", z3.StringSort(), z3.StringSort())
b64valid = z3.Function("b64valid", z3.StringSort(), z3.BoolSort())


@stdlib("base64")
def _base64(I):
    import base64
    import binascii
    B = I.world.builtins
    Err = IClass("Error", [B["ValueError"]], {}, None, "binascii.Error")
    I.world.binascii_Error = Err

    def enc(I_, a, k):
        v = a[0]
        if isinstance(v, bytes):
            return base64.b64encode(v)
        if isinstance(v, Sym) and I_.kind(v) == "bytes":
            return Sym(VBytes(b64enc(get_y(v.term))))
        I_.raise_builtin("TypeError", "a bytes-like object is required")

    def dec(I_, a, k):
        v = a[0]
        if isinstance(v, (bytes, str)):
            try:
                return base64.b64decode(v)
            except (binascii.Error, ValueError) as e:
                o = IObject(Err)
                o.fields["args"] = (str(e),)
                raise IRaise(o)
        if isinstance(v, Sym):
            kd = I_.kind(v)
            if kd in ("str", "bytes"):
                t = get_s(v.term) if kd == "str" else get_y(v.term)
                if not I_.prover.fork(b64valid(t)):
                    o = IObject(Err)
                    o.fields["args"] = ("invalid base64",)
                    raise IRaise(o)
                return Sym(VBytes(b64dec(t)))
            I_.raise_builtin("TypeError", "argument should be a bytes-like object or ASCII string, not '%s'" % kd)
        I_.raise_builtin("TypeError", "argument should be a bytes-like object or ASCII string")
    return module("base64", b64encode=Native("b64encode", enc), b64decode=Native("b64decode", dec))


# ---------------------------------------------------------------- io.StringIO
class StringIOModel:
    def __init__(self):
        self.parts = []     # list of str / Sym(str)

    def value(self, I):
        if not self.parts:
            return ""
        return I.concat_strs(self.parts) if len(self.parts) > 1 else self.parts[0]

    def pyvc_getattr(self, I, name):
        if name == "write":
            def write(I_, a, k):
                v = a[0]
                if isinstance(v, Sym) and I_.kind(v) != "str":
                    I_.raise_builtin("TypeError", "string argument expected")
                if not isinstance(v, (str, Sym)):
                    I_.raise_builtin("TypeError", "string argument expected, got %r" % (v,))
                I_.log_write(("stringio", self))
                self.parts.append(v)
                return None
            return Native("write", write)
        if name == "getvalue":
            return Native("getvalue", lambda I_, a, k: self.value(I_))
        if name == "tell":
            def tell(I_, a, k):
                v = self.value(I_)
                if isinstance(v, str):
                    return len(v)
                return Sym(VInt(S(z3.Length(get_s(v.term)))))
            return Native("tell", tell)
        return MISSING


@stdlib("io")
def _io(I):
    return module("io", StringIO=Native("StringIO", lambda I_, a, k: StringIOModel()))


# ---------------------------------------------------------------- asyncio
class AsyncLock:
    def __init__(self, I):
        self.locked = False
        self.kind = "Lock"

    def pyvc_getattr(self, I, name):
        if name == "__aenter__":
            def aenter(I_, a, k):
                I_.ghost.setdefault("trace", []).append(("lock-acquire", self))
                return AwaitMarker("lock.acquire", self)
            return Native(name, aenter)
        if name == "__aexit__":
            def aexit(I_, a, k):
                I_.ghost.setdefault("trace", []).append(("lock-release", self))
                return AwaitMarker("lock.release", self)
            return Native(name, aexit)
        return MISSING


class AwaitMarker:
    def __init__(self, what, obj=None, args=()):
        self.what = what
        self.obj = obj
        self.args = args


class AsyncEvent:
    def __init__(self, I):
        self.flag = False       # bool or Sym(bool): segments are analysed from a symbolic state
        I.ghost.setdefault("async_events", []).append(self)

    def pyvc_getattr(self, I, name):
        if name == "set":
            def set_(I_, a, k):
                I_.log_write(("event", self))
                I_.ghost.setdefault("trace", []).append(("event.set", self))
                self.flag = True
            return Native(name, set_)
        if name == "is_set":
            return Native(name, lambda I_, a, k: self.flag)
        if name == "wait":
            return Native(name, lambda I_, a, k: AwaitMarker("event.wait", self))
        if name == "clear":
            def clear(I_, a, k):
                self.flag = False
            return Native(name, clear)
        return MISSING


class Loop:
    def pyvc_getattr(self, I, name):
        if name == "create_task":
            def create_task(I_, a, k):
                I_.ghost.setdefault("tasks", []).append(a[0])
                I_.ghost.setdefault("trace", []).append(("task", a[0]))
                return Opaque("task")
            return Native(name, create_task)
        return MISSING


iscoro_fn = z3.Function("iscoroutinefunction", Val, z3.BoolSort())


@stdlib("asyncio")
def _asyncio(I):
    B = I.world.builtins
    Cancelled = IClass("CancelledError", [B["BaseException"]], {}, None, "asyncio.CancelledError")
    loop = Loop()

    def iscoroutinefunction(I_, a, k):
        f = a[0]
        if isinstance(f, IBound):
            f = f.func
        if isinstance(f, IFunction):
            return f.is_async
        if isinstance(f, Sym):
            return boolval(iscoro_fn(f.term))
        return False
    m = module(
        "asyncio",
        Lock=Native("Lock", lambda I_, a, k: AsyncLock(I_)),
        Event=Native("Event", lambda I_, a, k: AsyncEvent(I_)),
        get_running_loop=Native("get_running_loop", lambda I_, a, k: loop),
        get_event_loop=Native("get_event_loop", lambda I_, a, k: loop),
        iscoroutinefunction=Native("iscoroutinefunction", iscoroutinefunction),
        sleep=Native("sleep", lambda I_, a, k: AwaitMarker("sleep", None, tuple(a))),
        CancelledError=Cancelled,
        StreamReader=Generic("StreamReader"), StreamWriter=Generic("StreamWriter"),
    )

    def unmodelled(nm):
        def f(I_, a, k):
            raise OutOfReach("asyncio.%s" % nm)
        return Native(nm, f)
    for nm in ("open_connection", "start_server", "run", "gather", "wait_for", "ensure_future", "create_task"):
        m.ns[nm] = unmodelled(nm)
    return m


@stdlib("aiofiles")
def _aiofiles(I):
    return module("aiofiles", stdin=Opaque("aiofiles.stdin"), stdout=Opaque("aiofiles.stdout"))


@stdlib("aiofiles.threadpool")
def _aiofiles_tp(I):
    return module("aiofiles.threadpool")


@stdlib("aiofiles.threadpool.text")
def _aiofiles_tpt(I):
    return module("aiofiles.threadpool.text", AsyncTextIndirectIOWrapper=Generic("AsyncTextIndirectIOWrapper"))


# ---------------------------------------------------------------- re
@stdlib("re")
def _re(I):
    import re

    class Match:
        def __init__(self, groups):
            self.groups = groups

        def pyvc_getattr(self, I_, name):
            if name == "groups":
                return Native("groups", lambda I2, a, k: tuple(self.groups))
            if name == "group":
                def group(I2, a, k):
                    n = a[0] if a else 0
                    if n == 0:
                        raise OutOfReach("match.group(0)")
                    return self.groups[n - 1]
                return Native("group", group)
            return MISSING

    class Pattern:
        def __init__(self, pat):
            self.pattern = pat

        def pyvc_getattr(self, I_, name):
            if name == "match":
                return Native("match", lambda I2, a, k: match(I2, [self.pattern] + list(a), k))
            if name == "fullmatch":
                return Native("fullmatch", lambda I2, a, k: match(I2, [self.pattern] + list(a), k, full=True))
            if name == "pattern":
                return self.pattern
            raise OutOfReach("compiled pattern attribute %s" % name)

    def compile_(I_, a, k):
        if not isinstance(a[0], str) or len(a) > 1 or k:
            raise OutOfReach("re.compile with flags / symbolic pattern")
        return Pattern(a[0])

    def match(I_, a, k, full=False):
        pat, s = a[0], a[1]
        if isinstance(pat, Pattern):
            pat = pat.pattern
        if not isinstance(pat, str):
            raise OutOfReach("re.match with symbolic pattern")
        if len(a) > 2 or k:
            raise OutOfReach("re.match with flags")
        if full:
            # fullmatch: the whole text, no trailing-newline tolerance
            pat = ("" if pat.startswith("^") else "^") + pat.rstrip("$") + "\\Z"
        if isinstance(s, str):
            mo = re.match(pat, s)
            return None if mo is None else Match(list(mo.groups()))
        if isinstance(s, Sym):
            kd = I_.kind(s)
            if kd != "str":
                I_.raise_builtin("TypeError", "expected string or bytes-like object, got '%s'" % kd)
            from .regex import match_symbolic
            gs = match_symbolic(I_, pat, get_s(s.term))
            return None if gs is None else Match(gs)
        I_.raise_builtin("TypeError", "expected string or bytes-like object")
    return module("re", match=Native("match", match), compile=Native("compile", compile_),
                  fullmatch=Native("fullmatch", lambda I_, a, k: match(I_, a, k, full=True)))


# ---------------------------------------------------------------- xml.etree
class XElem:
    """Model of xml.etree.ElementTree.Element."""
    def __init__(self, tag, attrib=None, text=None):
        self.tag = tag
        self.attrib = attrib if attrib is not None else IDict()
        self.text = text
        self.children = []      # list of XElem, or an SList/RSeq-like symbolic sequence holder
        self.sym_children = None

    def pyvc_getattr(self, I, name):
        if name in ("tag", "attrib", "text"):
            return getattr(self, name)
        if name == "append":
            def append(I_, a, k):
                self.children.append(a[0])
            return Native("append", append)
        return MISSING

    def pyvc_setattr(self, I, name, v):
        if name in ("tag", "text", "attrib"):
            I.log_write(("xelem", self))
            setattr(self, name, v)
            return
        raise OutOfReach("setattr %s on Element" % name)

    def pyvc_iterate(self, I):
        if self.sym_children is not None:
            raise OutOfReach("iteration over symbolic XML children outside a loop rule")
        return list(self.children)


def to_real_et(I, x):
    import xml.etree.ElementTree as RET
    if not isinstance(x.tag, str):
        raise OutOfReach("symbolic tag")
    attrib = {}
    for k, v in x.attrib.d.items():
        if not isinstance(k, str) or not isinstance(v, str):
            raise OutOfReach("symbolic attribute")
        attrib[k] = v
    e = RET.Element(x.tag, attrib)
    if x.text is not None:
        if not isinstance(x.text, str):
            raise OutOfReach("symbolic text")
        e.text = x.text
    for c in x.children:
        e.append(to_real_et(I, c))
    return e


def from_real_et(e):
    x = XElem(e.tag, IDict(dict(e.attrib)), e.text)
    x.children = [from_real_et(c) for c in e]
    return x


def _make_et(I, name):
    import xml.etree.ElementTree as RET
    B = I.world.builtins
    ParseError = I.world.__dict__.get("ET_ParseError")
    if ParseError is None:
        ParseError = IClass("ParseError", [B["SyntaxError"]], {}, None, "xml.etree.ElementTree.ParseError")
        I.world.ET_ParseError = ParseError

    def check_attr_types(I_, tag, kw):
        pass

    def Element(I_, a, k):
        tag = a[0]
        attrib = IDict()
        if len(a) > 1:
            for kk, vv in I_.dict_items(a[1]):
                attrib.d[kk] = vv
        for kk, vv in k.items():
            attrib.d[kk] = vv
        return XElem(tag, attrib)

    def SubElement(I_, a, k):
        parent = a[0]
        e = Element(I_, a[1:], k)
        parent.children.append(e)
        return e

    def tostring(I_, a, k):
        x = a[0]
        hook = getattr(I_, "et_tostring_hook", None)
        try:
            e = to_real_et(I_, x)
        except OutOfReach:
            if hook is not None:
                return hook(I_, x)
            raise
        try:
            return RET.tostring(e)
        except Exception as ex:   # real serializer failure on concrete data
            I_.raise_builtin("TypeError", "cannot serialize: %s" % ex)

    def fromstring(I_, a, k):
        s = a[0]
        if isinstance(s, (str, bytes)):
            try:
                return from_real_et(RET.fromstring(s))
            except RET.ParseError as ex:
                o = IObject(ParseError)
                o.fields["args"] = (str(ex),)
                raise IRaise(o)
            except UnicodeEncodeError as ex:
                I_.raise_builtin("UnicodeEncodeError", str(ex))
            except ValueError as ex:
                I_.raise_builtin("ValueError", str(ex))
        hook = getattr(I_, "et_fromstring_hook", None)
        if hook is not None:
            return hook(I_, s)
        raise OutOfReach("ET.fromstring on symbolic text")
    ElemCls = Native("Element", Element)
    ElemCls.typing_generic = True
    return module(name, Element=ElemCls, SubElement=Native("SubElement", SubElement),
                  tostring=Native("tostring", tostring), fromstring=Native("fromstring", fromstring),
                  ParseError=ParseError)


@stdlib("xml")
def _xml(I):
    return module("xml")


@stdlib("xml.etree")
def _xml_etree(I):
    return module("xml.etree")


@stdlib("xml.etree.ElementTree")
def _et(I):
    return _make_et(I, "xml.etree.ElementTree")


@stdlib("xml.etree.cElementTree")
def _cet(I):
    return _make_et(I, "xml.etree.cElementTree")


# ---------------------------------------------------------------- os / open / sys / functools
@stdlib("os")
def _os(I):
    import os
    p = module("os.path",
               join=Native("join", lambda I_, a, k: os.path.join(*a)),
               dirname=Native("dirname", lambda I_, a, k: os.path.dirname(a[0])))
    I.world.modules["os.path"] = p
    return module("os", path=p)


@stdlib("os.path")
def _os_path(I):
    return _os(I).ns["path"]


@stdlib("sys")
def _sys(I):
    return module("sys", stdin=Opaque("sys.stdin"), stdout=Opaque("sys.stdout"))


@stdlib("functools")
def _functools(I):
    def reduce(I_, a, k):
        items = I_.iterate(a[1])
        acc = a[2] if len(a) > 2 else items.pop(0)
        for x in items:
            acc = I_.call(a[0], [acc, x], {})
        return acc
    return module("functools", reduce=Native("reduce", reduce))


class FileModel:
    def __init__(self, path):
        self.path = path

    def pyvc_getattr(self, I, name):
        if name == "__enter__":
            return Native(name, lambda I_, a, k: self)
        if name == "__exit__":
            return Native(name, lambda I_, a, k: None)
        if name == "read":
            def read(I_, a, k):
                with open(self.path) as f:
                    return f.read()
            return Native(name, read)
        return MISSING


def builtin_open(I, a, k):
    if not isinstance(a[0], str):
        raise OutOfReach("open() with symbolic path")
    return FileModel(a[0])


@stdlib("weakref")
def _weakref(I):
    B = I.world.builtins
    mk = Native("WeakKeyDictionary", lambda I_, a, k: I_.call(B["dict"], a, k))
    return module("weakref", WeakKeyDictionary=mk, WeakValueDictionary=mk,
                  WeakSet=Native("WeakSet", lambda I_, a, k: I_.call(B["set"], a, k)))


@stdlib("collections")
def _collections(I):
    B = I.world.builtins

    def defaultdict(I_, a, k):
        raise OutOfReach("collections.defaultdict")
    return module("collections", OrderedDict=Native("OrderedDict", lambda I_, a, k: I_.call(B["dict"], a, k)),
                  defaultdict=Native("defaultdict", defaultdict))
