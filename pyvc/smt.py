"""SMT layer of PyVC: the universal value sort `Val`, helpers, and a solver
wrapper that records every query (name, verdict, seconds) for the evidence.

Python semantics assumed by this encoding (listed in every evidence file):
  * integers are mathematical (z3 Int);
  * str is a z3 String (sequence of code points);
  * `==` between values of different dynamic type is False (no int/bool/float
    cross-type equality is relied upon in the verified code);
  * object identity is a pair (region, index); objects of different regions
    never alias.
"""
import time
import z3

_V = z3.Datatype("Val")
_V.declare("VNone")
_V.declare("VBool", ("b", z3.BoolSort()))
_V.declare("VInt", ("i", z3.IntSort()))
_V.declare("VStr", ("s", z3.StringSort()))
_V.declare("VRef", ("rg", z3.IntSort()), ("ix", z3.IntSort()))
_V.declare("VReal", ("x", z3.RealSort()))
_V.declare("VBytes", ("y", z3.StringSort()))
Val = _V.create()

VNone = Val.VNone
VBool, VInt, VStr, VRef, VReal, VBytes = (
    Val.VBool, Val.VInt, Val.VStr, Val.VRef, Val.VReal, Val.VBytes)
is_none, is_bool, is_int, is_str, is_ref, is_real, is_bytes = (
    Val.is_VNone, Val.is_VBool, Val.is_VInt, Val.is_VStr, Val.is_VRef,
    Val.is_VReal, Val.is_VBytes)
get_b, get_i, get_s, get_rg, get_ix, get_x, get_y = (
    Val.b, Val.i, Val.s, Val.rg, Val.ix, Val.x, Val.y)

# uninterpreted: str(v) for values whose rendering is not modelled
py_str = z3.Function("py_str", Val, z3.StringSort())


def S(x):
    return z3.simplify(x)


def truthy(t):
    """Python truthiness of a Val term (objects are truthy: classes with
    __len__/__bool__ are handled by the interpreter before reaching here)."""
    return z3.If(is_none(t), False,
           z3.If(is_bool(t), get_b(t),
           z3.If(is_int(t), get_i(t) != 0,
           z3.If(is_str(t), z3.Length(get_s(t)) > 0,
           z3.If(is_bytes(t), z3.Length(get_y(t)) > 0,
           z3.If(is_real(t), get_x(t) != 0, True))))))


class Query:
    __slots__ = ("name", "verdict", "secs", "backend", "kind")

    def __init__(self, name, verdict, secs, backend="z3", kind="obligation"):
        self.name, self.verdict, self.secs = name, verdict, secs
        self.backend, self.kind = backend, kind


class Stats:
    def __init__(self):
        self.queries = []

    def add(self, q):
        self.queries.append(q)

    def summary(self):
        out = {}
        for q in self.queries:
            d = out.setdefault(q.backend, {"queries": 0, "unsat": 0, "sat": 0,
                                           "unknown": 0, "seconds": 0.0})
            d["queries"] += 1
            d[q.verdict if q.verdict in ("sat", "unsat") else "unknown"] += 1
            d["seconds"] = round(d["seconds"] + q.secs, 4)
        return out


STATS = Stats()
TIMEOUT_MS = 20000


def new_solver(timeout_ms=None):
    s = z3.Solver()
    s.set("timeout", timeout_ms or TIMEOUT_MS)
    return s


def check(solver, *extra, name="feasibility", kind="feasibility"):
    t0 = time.time()
    r = solver.check(*extra)
    STATS.add(Query(name, str(r), time.time() - t0, "z3", kind))
    return r
