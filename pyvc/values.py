"""Interpreter-level values of PyVC.

Concrete Python primitives (None, bool, int, float, str, bytes, tuple) are
used directly.  Everything else is one of the classes below.
"""
import itertools
import z3
from . import smt
from .smt import Val


class Sym:
    """A symbolic Python value: a z3 term of sort Val.  `iface` optionally
    names the abstract interface (endpoint contract) of the object it denotes."""
    __slots__ = ("term", "iface")

    def __init__(self, term, iface=None):
        self.term = term
        self.iface = iface

    def __repr__(self):
        return "Sym(%s)" % (self.term,)


class IClass:
    def __init__(self, name, bases, attrs, module=None, qualname=None, metaclass=None):
        self.name = name
        self.bases = list(bases)
        self.attrs = attrs
        self.module = module
        self.qualname = qualname or name
        self.metaclass = metaclass
        self.subclasses = []
        self.mro = self._c3()
        for b in self.bases:
            b.subclasses.append(self)
        self.cid = next(_class_ids)

    def _c3(self):
        seqs = [list(b.mro) for b in self.bases] + [list(self.bases)]
        res = [self]
        while True:
            seqs = [s for s in seqs if s]
            if not seqs:
                return res
            for s in seqs:
                cand = s[0]
                if not any(cand in t[1:] for t in seqs):
                    break
            else:
                raise TypeError("inconsistent MRO")
            res.append(cand)
            for s in seqs:
                if s[0] is cand:
                    del s[0]

    def lookup(self, name, after=None):
        mro = self.mro
        if after is not None:
            mro = mro[mro.index(after) + 1:]
        for c in mro:
            if name in c.attrs:
                return c.attrs[name], c
        return None, None

    def issubclass(self, other):
        return other in self.mro

    def __repr__(self):
        return "<IClass %s>" % self.qualname


_class_ids = itertools.count(1)
_obj_ids = itertools.count(1)
_serial = itertools.count(1)


def next_serial():
    return next(_serial)


OBJECTS = {}


def reset_ids():
    OBJECTS.clear()
    global _class_ids, _obj_ids, _serial
    _class_ids = itertools.count(1)
    _obj_ids = itertools.count(1)
    _serial = itertools.count(1)


class IObject:
    def __init__(self, cls):
        self.cls = cls
        self.fields = {}
        self.oid = next(_obj_ids)
        self.serial = next(_serial)
        OBJECTS[self.oid] = self

    def __repr__(self):
        return "<%s #%d>" % (self.cls.name, self.oid)


class IFunction:
    def __init__(self, node, env, module, qualname, defaults, kwdefaults, owner=None):
        self.node = node
        self.env = env
        self.module = module
        self.qualname = qualname
        self.name = getattr(node, "name", "<lambda>")
        self.defaults = defaults
        self.kwdefaults = kwdefaults
        self.owner = owner          # IClass in whose body it was defined
        self.is_async = node.__class__.__name__ == "AsyncFunctionDef"
        self.fattrs = {}            # function attributes (setattr on functions)

    def __repr__(self):
        return "<IFunction %s>" % self.qualname


class IBound:
    def __init__(self, func, self_):
        self.func = func
        self.self_ = self_

    def __repr__(self):
        return "<bound %r of %r>" % (self.func, self.self_)


class IProperty:
    def __init__(self, fget=None, fset=None):
        self.fget = fget
        self.fset = fset

    def pyvc_getattr(self, I, name):
        if name == "setter":
            return Native("property.setter", lambda I_, a, k: IProperty(self.fget, a[0]))
        if name == "getter":
            return Native("property.getter", lambda I_, a, k: IProperty(a[0], self.fset))
        if name == "fget":
            return self.fget
        if name == "fset":
            return self.fset
        from .interp import MISSING
        return MISSING


class IClassMethod:
    def __init__(self, func):
        self.func = func


class IStaticMethod:
    def __init__(self, func):
        self.func = func


class ISuper:
    def __init__(self, after, obj):
        self.after = after
        self.obj = obj


class IModule:
    def __init__(self, name):
        self.name = name
        self.ns = {}

    def __repr__(self):
        return "<IModule %s>" % self.name


class Native:
    """Host-implemented callable: fn(interp, args, kwargs) -> value."""
    def __init__(self, name, fn):
        self.name = name
        self.fn = fn

    def __repr__(self):
        return "<native %s>" % self.name


class IList:
    def __init__(self, items=None):
        self.items = list(items) if items is not None else []
        self.serial = next(_serial)

    def __repr__(self):
        return "IList(%r)" % (self.items,)


class IDict:
    """dict with concrete key structure (keys: hashable concrete values or
    interpreter objects compared by identity)."""
    def __init__(self, d=None):
        self.d = dict(d) if d is not None else {}
        self.serial = next(_serial)

    def __repr__(self):
        return "IDict(%r)" % (self.d,)


class ISet:
    def __init__(self, items=None):
        self.items = []
        for x in items or []:
            if not any(x is y or (type(x) is type(y) and not isinstance(x, (IObject, IClass)) and x == y) for y in self.items):
                self.items.append(x)


class ICoroutine:
    def __init__(self, func, args, kwargs):
        self.func, self.args, self.kwargs = func, args, kwargs


class Opaque:
    """A host object with no modelled behaviour (descriptor placeholders...)."""
    def __init__(self, label):
        self.label = label

    def __repr__(self):
        return "<opaque %s>" % self.label


# ---------------------------------------------------------------- symbolic containers

class SList:
    """list of symbolic length; contents z3 Array Int -> Val.  Python-side
    identity, symbolic content (mutable in place)."""
    def __init__(self, length, elt, iface=None, label="list"):
        self.length = length
        self.elt = elt
        self.iface = iface
        self.label = label


class SDict:
    """dict with symbolic key set: has: Array(Val,Bool), get: Array(Val,Val).
    `row_region`: if set, values are VRef(row_region.rid, k) denoting the
    symbolic dicts of that DictRegion."""
    def __init__(self, has, get, row_region=None, label="dict"):
        self.has = has
        self.get = get
        self.row_region = row_region
        self.label = label


class DictRegion:
    """A family of symbolic dicts addressed by an integer row id:
    has: Array(Int, Array(Val,Bool)), get: Array(Int, Array(Val,Val)),
    `next`: first unallocated row id."""
    def __init__(self, rid, has, get, nxt):
        self.rid = rid
        self.has = has
        self.get = get
        self.next = nxt


class RDict:
    """One row of a DictRegion."""
    def __init__(self, region, row):
        self.region = region
        self.row = row


class Region:
    """A symbolic-size family of objects of one class, fields held in z3
    arrays indexed by position: fields[name] is either a z3 Array(Int,Val)
    (mutable per object), or ('const', value), or ('region', Region) meaning
    object i's field is object i of the other region."""
    def __init__(self, rid, cls, length, fields, label="region"):
        self.rid = rid
        self.cls = cls
        self.length = length
        self.fields = fields
        self.label = label


class RObj:
    def __init__(self, region, idx):
        self.region = region
        self.idx = idx

    @property
    def cls(self):
        return self.region.cls


class RSeq:
    """Ordered view over a Region: used for dict.items()/values() of a
    symbolic-size dict of objects and for symbolic lists of objects.
    keys: optional z3 Array(Int,Val) of dict keys."""
    def __init__(self, region, keys=None, kind="list", label="rseq"):
        self.region = region
        self.keys = keys
        self.kind = kind
        self.label = label


class Maybe:
    """A dict entry that is present iff `cond` (z3 Bool) holds."""
    __slots__ = ("cond", "value")

    def __init__(self, cond, value):
        self.cond = cond
        self.value = value

    def __repr__(self):
        return "Maybe(%s, %r)" % (self.cond, self.value)


class MapSeq:
    """[f(x) for x in <symbolic sequence>]: element j is `value` (an interpreter
    value built at the generic bound index `j`)."""
    def __init__(self, seq, j, value, kind="list"):
        self.seq = seq
        self.j = j
        self.value = value
        self.kind = kind

    @property
    def length(self):
        return self.seq.length if isinstance(self.seq, SList) else self.seq.region.length
