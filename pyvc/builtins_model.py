"""Builtins, operators, attribute protocol and stdlib models for PyVC."""
import ast
import z3

from . import smt
from .smt import (Val, VNone, VBool, VInt, VStr, VRef, VReal, VBytes, is_none,
                  is_bool, is_int, is_str, is_ref, is_real, is_bytes, get_b,
                  get_i, get_s, get_rg, get_ix, get_x, get_y, S)
from .values import *
from .interp import IRaise, OutOfReach, MISSING, Infeasible

PRIMS = (type(None), bool, int, float, str, bytes)


def is_prim(v):
    return isinstance(v, PRIMS)


def is_concrete_data(v):
    if is_prim(v):
        return True
    if isinstance(v, tuple):
        return all(is_concrete_data(x) for x in v)
    return False


# ------------------------------------------------------------------ equality
def py_eq(I, a, b):
    """Python `a == b` -> bool or z3 BoolRef."""
    if a is b:
        return True
    if is_prim(a) and is_prim(b):
        return a == b
    if isinstance(a, tuple) or isinstance(b, tuple):
        if not (isinstance(a, tuple) and isinstance(b, tuple)):
            if isinstance(a, Sym) or isinstance(b, Sym):
                return False  # Val has no tuples
            return False
        if len(a) != len(b):
            return False
        cs = [py_eq(I, x, y) for x, y in zip(a, b)]
        return conj(cs)
    user_eq = False
    for x, y in ((a, b), (b, a)):
        if isinstance(x, (IObject, RObj)):
            f, owner = x.cls.lookup("__eq__")
            if isinstance(f, IFunction):
                user_eq = True
                r = I.call(IBound(f, x), [y], {})
                if r is I.world.builtins.get("NotImplemented"):
                    continue            # try the reflected operand, then fall back to identity (as CPython does)
                if isinstance(r, Sym):
                    return S(smt.truthy(r.term))
                return I.truth(r)
    if user_eq:
        return a is b
    if isinstance(a, (IList, IDict)) and isinstance(b, (IList, IDict)):
        if type(a) is not type(b):
            return False
        if isinstance(a, IList):
            if len(a.items) != len(b.items):
                return False
            return conj([py_eq(I, x, y) for x, y in zip(a.items, b.items)])
        ak = {keyid(k): v for k, v in a.d.items()}
        bk = {keyid(k): v for k, v in b.d.items()}
        cs = []
        for kk in list(ak) + [x for x in bk if x not in ak]:
            va, vb = ak.get(kk, MISSING), bk.get(kk, MISSING)
            pa = z3.BoolVal(False) if va is MISSING else (va.cond if isinstance(va, Maybe) else z3.BoolVal(True))
            pb = z3.BoolVal(False) if vb is MISSING else (vb.cond if isinstance(vb, Maybe) else z3.BoolVal(True))
            cs.append(S(pa == pb))
            if va is MISSING or vb is MISSING:
                continue
            xa = va.value if isinstance(va, Maybe) else va
            xb = vb.value if isinstance(vb, Maybe) else vb
            e = py_eq(I, xa, xb)
            if e is True:
                continue
            cs.append(S(z3.Implies(z3.And(pa, pb), e if not isinstance(e, bool) else z3.BoolVal(e))))
        cs = [True if z3.is_true(c) else (False if z3.is_false(c) else c) for c in cs]
        return conj(cs)
    if isinstance(a, MapSeq) and isinstance(b, MapSeq):
        # extensional list equality: same length and equal elements at every index
        j = I.fresh("eqj", z3.IntSort())
        va = subst_value(a.value, a.j, j)
        vb = subst_value(b.value, b.j, j)
        e = py_eq(I, va, vb)
        e = z3.BoolVal(e) if isinstance(e, bool) else e
        return S(z3.And(a.length == b.length, z3.ForAll([j], z3.Implies(z3.And(j >= 0, j < a.length), e))))
    if isinstance(a, MapSeq) or isinstance(b, MapSeq):
        o = b if isinstance(a, MapSeq) else a
        m = a if isinstance(a, MapSeq) else b
        if isinstance(o, (IList, tuple)):
            items = o.items if isinstance(o, IList) else list(o)
            cs = [S(m.length == len(items))]
            for n_, x in enumerate(items):
                cs.append(py_eq(I, subst_value(m.value, m.j, z3.IntVal(n_)), x))
            return conj(cs)
        return False
    if isinstance(a, (IList, IDict, ISet, SList, SDict, RSeq)) or isinstance(b, (IList, IDict, ISet, SList, SDict, RSeq)):
        return a is b if not (isinstance(a, Sym) or isinstance(b, Sym)) else False
    ta, tb = I.to_term(a), I.to_term(b)
    r = S(ta == tb)
    if z3.is_true(r):
        return True
    if z3.is_false(r):
        return False
    return r


def subst_value(v, old, new):
    """Substitute the generic index `old` by `new` inside an interpreter value."""
    if isinstance(v, Sym):
        return Sym(z3.substitute(v.term, (old, new)), v.iface)
    if isinstance(v, Maybe):
        return Maybe(z3.substitute(v.cond, (old, new)), subst_value(v.value, old, new))
    if isinstance(v, IDict):
        return IDict({k: subst_value(x, old, new) for k, x in v.d.items()})
    if isinstance(v, IList):
        return IList([subst_value(x, old, new) for x in v.items])
    if isinstance(v, tuple):
        return tuple(subst_value(x, old, new) for x in v)
    if isinstance(v, RObj):
        return RObj(v.region, z3.substitute(v.idx, (old, new)))
    if isinstance(v, MapSeq):
        return MapSeq(v.seq, v.j, subst_value(v.value, old, new), v.kind)
    if isinstance(v, z3.ExprRef):
        return z3.substitute(v, (old, new))
    return v


def keyid(k):
    if is_concrete_data(k):
        return ("c", type(k).__name__ if not isinstance(k, bool) else "bool", k)
    return ("o", id(k))


def conj(cs):
    out = []
    for c in cs:
        if c is False:
            return False
        if c is True:
            continue
        out.append(c)
    if not out:
        return True
    return S(z3.And(*out))


def boolval(r):
    """bool-or-BoolRef -> interpreter value."""
    if isinstance(r, bool):
        return r
    r = S(r)
    if z3.is_true(r):
        return True
    if z3.is_false(r):
        return False
    return Sym(VBool(r))


def contains(I, item, coll):
    """`item in coll` -> bool or BoolRef."""
    if isinstance(coll, (tuple, IList, ISet)):
        items = coll if isinstance(coll, tuple) else coll.items
        cs = []
        for x in items:
            e = py_eq(I, item, x)
            if e is True:
                return True
            if e is not False:
                cs.append(e)
        return S(z3.Or(*cs)) if cs else False
    if isinstance(coll, IDict):
        if isinstance(item, Sym):
            cs = []
            for k in coll.d:
                e = py_eq(I, item, k)
                if e is True:
                    return True
                if e is not False:
                    cs.append(e)
            return S(z3.Or(*cs)) if cs else False
        return any(keyid(item) == keyid(k) for k in coll.d)
    if isinstance(coll, str):
        if isinstance(item, str):
            return item in coll
        return S(z3.Contains(z3.StringVal(coll), I.as_str(item)))
    if isinstance(coll, Sym):
        k = I.kind(coll)
        if k == "str":
            if isinstance(item, str) and item:
                # decided at the regular-language level when the languages of the text's pieces are recorded
                from .regex import subject_language, regex_empty, ANYCHAR
                lang = subject_language(I, get_s(coll.term))
                if lang is not None:
                    has = z3.Concat(z3.Star(ANYCHAR), z3.Re(z3.StringVal(item)), z3.Star(ANYCHAR))
                    if regex_empty(z3.Intersect(lang, has)):
                        return False
                    if regex_empty(z3.Intersect(lang, z3.Complement(has))):
                        return True
            return S(z3.Contains(get_s(coll.term), I.as_str(item)))
        raise OutOfReach("`in` on symbolic %s" % k)
    if isinstance(coll, SDict):
        return S(z3.Select(coll.has, I.to_term(item)))
    if isinstance(coll, RDict):
        return S(z3.Select(z3.Select(coll.region.has, coll.row), I.to_term(item)))
    if isinstance(coll, RSeq) and coll.kind in ("dict", "keys"):
        j = I.fresh("j_key", z3.IntSort())
        t = I.to_term(item)
        return z3.Exists([j], z3.And(j >= 0, j < coll.region.length, z3.Select(coll.keys, j) == t),
                         patterns=[z3.Select(coll.keys, j)])
    if isinstance(coll, SList):
        j = I.fresh("j_in", z3.IntSort())
        t = I.to_term(item)
        ex = z3.Exists([j], z3.And(j >= 0, j < coll.length, z3.Select(coll.elt, j) == t),
                       patterns=[z3.Select(coll.elt, j)])
        return ex
    if isinstance(coll, (IObject, RObj)):
        f, _ = coll.cls.lookup("__contains__")
        if f is not None:
            r = I.call(IBound(f, coll), [item], {})
            return S(smt.truthy(r.term)) if isinstance(r, Sym) else bool(r)
    if isinstance(coll, Native) and hasattr(coll, "contains"):
        return coll.contains(I, item)
    raise OutOfReach("`in` on %r" % (coll,))


def compare(I, op, a, b):
    if isinstance(op, ast.Eq):
        return boolval(py_eq(I, a, b))
    if isinstance(op, ast.NotEq):
        # Python: __ne__ defaults to not __eq__
        for x, y in ((a, b), (b, a)):
            if isinstance(x, (IObject, RObj)):
                f, _ = x.cls.lookup("__ne__")
                if isinstance(f, IFunction):
                    return I.call(IBound(f, x), [y], {})
                break
        r = py_eq(I, a, b)
        return (not r) if isinstance(r, bool) else boolval(z3.Not(r))
    if isinstance(op, ast.Is):
        return boolval(identical(I, a, b))
    if isinstance(op, ast.IsNot):
        r = identical(I, a, b)
        return (not r) if isinstance(r, bool) else boolval(z3.Not(r))
    if isinstance(op, ast.In):
        return boolval(contains(I, a, b))
    if isinstance(op, ast.NotIn):
        r = contains(I, a, b)
        return (not r) if isinstance(r, bool) else boolval(z3.Not(r))
    # ordering
    if is_prim(a) and is_prim(b):
        try:
            return {ast.Lt: a.__lt__, ast.LtE: a.__le__, ast.Gt: a.__gt__, ast.GtE: a.__ge__}[type(op)](b) \
                if not isinstance(a, (int, float)) or not isinstance(b, (int, float)) else \
                {ast.Lt: a < b, ast.LtE: a <= b, ast.Gt: a > b, ast.GtE: a >= b}[type(op)]
        except TypeError:
            I.raise_builtin("TypeError", "unorderable")
    if (a is None or b is None) and not (isinstance(a, Sym) or isinstance(b, Sym)):
        I.raise_builtin("TypeError", "'<' not supported with NoneType")
    ka = num_kind(I, a)
    kb = num_kind(I, b)
    if ka is None or kb is None:
        I.raise_builtin("TypeError", "ordering comparison on non-numbers (%s, %s)" % (ka, kb))
    x, y = num_term(I, a, ka), num_term(I, b, kb)
    if ka == "real" and kb == "int":
        y = z3.ToReal(y)
    if kb == "real" and ka == "int":
        x = z3.ToReal(x)
    r = {ast.Lt: x < y, ast.LtE: x <= y, ast.Gt: x > y, ast.GtE: x >= y}[type(op)]
    return boolval(r)


def num_kind(I, v):
    if isinstance(v, bool):
        return "int"
    if isinstance(v, int):
        return "int"
    if isinstance(v, float):
        return "real"
    if isinstance(v, Sym):
        k = I.kind(v)
        if k in ("int", "real"):
            return k
        if k == "bool":
            return "int"
        return None
    return None


def num_term(I, v, k):
    if isinstance(v, Sym):
        kk = I.kind(v)
        if kk == "bool":
            return z3.If(get_b(v.term), 1, 0)
        return S(get_i(v.term)) if k == "int" else S(get_x(v.term))
    if k == "int":
        return z3.IntVal(int(v))
    import fractions
    return z3.RealVal(fractions.Fraction(v))


def identical(I, a, b):
    if isinstance(a, Sym) or isinstance(b, Sym):
        if isinstance(a, (tuple, IList, IDict, SList, SDict, ISet)) or isinstance(b, (tuple, IList, IDict, SList, SDict, ISet)):
            return False
        ta, tb = I.to_term(a), I.to_term(b)
        if ta.eq(tb):
            return True
        if a is None or b is None or isinstance(a, bool) or isinstance(b, bool):
            return S(ta == tb)
        # two equal str/int/float/bytes values need not be the same object: identity of equal
        # non-singleton values is an unknown (None, bools and object references are exact)
        same_obj = z3.Or(is_none(ta), is_bool(ta), is_ref(ta), I.fresh("same_object", z3.BoolSort()))
        return S(z3.And(ta == tb, same_obj))
    if a is None or b is None or isinstance(a, bool) or isinstance(b, bool):
        return a is b
    if is_prim(a) and is_prim(b):
        return type(a) is type(b) and a == b   # interning assumed for small constants
    if isinstance(a, RObj) and isinstance(b, RObj):
        if a.region is not b.region:
            return False
        return S(a.idx == b.idx)
    return a is b


# ------------------------------------------------------------------ arithmetic
def binop(I, op, a, b):
    if isinstance(op, ast.Mod) and (isinstance(a, str) or (isinstance(a, Sym) and I.kind(a) == "str")):
        return percent_format(I, a, b)
    if is_concrete_data(a) and is_concrete_data(b):
        try:
            if isinstance(op, ast.Add):
                return a + b
            if isinstance(op, ast.Sub):
                return a - b
            if isinstance(op, ast.Mult):
                return a * b
            if isinstance(op, ast.Div):
                return a / b
            if isinstance(op, ast.FloorDiv):
                return a // b
            if isinstance(op, ast.Mod):
                return a % b
            if isinstance(op, ast.LShift):
                return a << b
            if isinstance(op, ast.BitOr):
                return a | b
            if isinstance(op, ast.BitAnd):
                return a & b
            if isinstance(op, ast.Pow):
                return a ** b
        except ZeroDivisionError:
            I.raise_builtin("ZeroDivisionError", "division by zero")
        except TypeError as e:
            I.raise_builtin("TypeError", str(e))
    if isinstance(op, ast.Add):
        if isinstance(a, tuple) and isinstance(b, tuple):
            return a + b
        if isinstance(a, IList) and isinstance(b, IList):
            return IList(a.items + b.items)
        sa = isinstance(a, str) or (isinstance(a, Sym) and I.kind(a) == "str")
        sb = isinstance(b, str) or (isinstance(b, Sym) and I.kind(b) == "str")
        if sa and sb:
            return I.concat_strs([a, b])
        ya = isinstance(a, bytes) or (isinstance(a, Sym) and I.kind(a) == "bytes")
        yb = isinstance(b, bytes) or (isinstance(b, Sym) and I.kind(b) == "bytes")
        if ya and yb:
            ta = z3.StringVal(a.decode("latin1")) if isinstance(a, bytes) else get_y(a.term)
            tb = z3.StringVal(b.decode("latin1")) if isinstance(b, bytes) else get_y(b.term)
            return Sym(VBytes(z3.Concat(ta, tb)))
    ka, kb = num_kind(I, a), num_kind(I, b)
    if ka is None or kb is None:
        I.raise_builtin("TypeError", "unsupported operand types for %s: %s, %s" % (op.__class__.__name__, ka, kb))
    x, y = num_term(I, a, ka), num_term(I, b, kb)
    if ka == "int" and kb == "int" and isinstance(op, ast.Div):
        ka = kb = "real"
        x, y = z3.ToReal(x), z3.ToReal(y)
    if ka == "int" and kb == "int" and not isinstance(op, ast.Div):
        if isinstance(op, ast.Add):
            return Sym(VInt(S(x + y)))
        if isinstance(op, ast.Sub):
            return Sym(VInt(S(x - y)))
        if isinstance(op, ast.Mult):
            return Sym(VInt(S(x * y)))
        if isinstance(op, (ast.FloorDiv, ast.Mod)):
            if I.prover.fork(y == 0):
                I.raise_builtin("ZeroDivisionError", "integer division or modulo by zero")
            # z3 div/mod are Euclidean; Python floors.  Equal for y > 0.
            q = z3.If(y > 0, x / y, -((-x) / (-y)) if False else (x / y))
            if not z3.is_true(S(y > 0)) and I.prover.fork(y < 0):
                raise OutOfReach("floor division by a possibly negative symbolic divisor")
            return Sym(VInt(S(x / y))) if isinstance(op, ast.FloorDiv) else Sym(VInt(S(x % y)))
        raise OutOfReach("int op %s" % op.__class__.__name__)
    # floats: exact real arithmetic (machine rounding is NOT modelled: listed as an assumption)
    if ka == "int":
        x = z3.ToReal(x)
    if kb == "int":
        y = z3.ToReal(y)
    if isinstance(op, ast.Add):
        return Sym(VReal(S(x + y)))
    if isinstance(op, ast.Sub):
        return Sym(VReal(S(x - y)))
    if isinstance(op, ast.Mult):
        return Sym(VReal(S(x * y)))
    if isinstance(op, ast.Div):
        if I.prover.fork(y == 0):
            I.raise_builtin("ZeroDivisionError", "float division by zero")
        return Sym(VReal(S(x / y)))
    raise OutOfReach("float operation %s" % op.__class__.__name__)


def percent_format(I, fmt, arg):
    if isinstance(fmt, str) and is_concrete_data(arg):
        try:
            return fmt % arg
        except (TypeError, ValueError) as e:
            I.raise_builtin(type(e).__name__, str(e))
    if isinstance(fmt, str) and isinstance(arg, Sym):
        from .numfmt import percent_format as pf
        return pf(I, fmt, arg)
    raise OutOfReach("%-formatting of symbolic values")


def format_value(I, val, spec, conv):
    if is_prim(val) and isinstance(spec, str):
        try:
            if conv == 114:
                val = repr(val)
            return format(val, spec)
        except (TypeError, ValueError) as e:
            I.raise_builtin(type(e).__name__, str(e))
    if spec == "":
        return py_str_of(I, val)
    if isinstance(spec, str) and isinstance(val, Sym):
        from .numfmt import format_spec
        return format_spec(I, val, spec)
    raise OutOfReach("format spec %r on symbolic value" % (spec,))


def py_str_of(I, v):
    """str(v)"""
    if isinstance(v, str):
        return v
    if is_prim(v):
        return str(v)
    if isinstance(v, Sym):
        t = S(v.term)
        k = None
        if z3.is_app(t) and t.decl().name() in ("VStr", "VNone", "VInt", "VBool"):
            k = t.decl().name()
        if k == "VStr":
            return Sym(VStr(S(get_s(t))))
        if k == "VNone":
            return "None"
        if k == "VInt":
            from .numfmt import int_to_str
            return int_to_str(I, S(get_i(t)))
        return Sym(VStr(z3.If(is_str(t), get_s(t), smt.py_str(t))))
    if isinstance(v, (IObject, RObj)):
        f, _ = v.cls.lookup("__str__")
        if isinstance(f, IFunction):
            return I.call(IBound(f, v), [], {})
        return Sym(VStr(smt.py_str(I.to_term(v))))
    if isinstance(v, IClass):
        return "<class '%s.%s'>" % (v.module.name if v.module else "builtins", v.qualname)
    if isinstance(v, tuple):
        if is_concrete_data(v):
            return str(v)
    return Sym(VStr(smt.py_str(I.to_term(v))))


# ------------------------------------------------------------------ iteration
def iterate(I, v, for_unpack=False):
    if isinstance(v, tuple):
        return list(v)
    if isinstance(v, IList):
        return list(v.items)
    if isinstance(v, ISet):
        return list(v.items)
    if isinstance(v, IDict):
        return list(v.d.keys())
    if isinstance(v, str):
        return list(v)
    if isinstance(v, range):
        return list(v)
    if isinstance(v, Native) and hasattr(v, "iterate"):
        return v.iterate(I)
    if hasattr(v, "pyvc_iterate"):
        return v.pyvc_iterate(I)
    if isinstance(v, (IObject,)):
        f, _ = v.cls.lookup("__iter__")
        if f is not None:
            return iterate(I, I.call(IBound(f, v), [], {}))
    if isinstance(v, Sym):
        if for_unpack and I.kind(v) == "str":
            # unpacking a string of unknown length into `for_unpack` targets
            n = for_unpack
            t = get_s(v.term)
            if not I.prover.fork(z3.Length(t) == n):
                I.raise_builtin("ValueError", "not enough/too many values to unpack (expected %d)" % n)
            return [Sym(VStr(z3.SubString(t, k, 1))) for k in range(n)]
        if for_unpack and I.kind(v) != "str":
            I.raise_builtin("TypeError", "cannot unpack non-iterable object")
        raise OutOfReach("iteration over a symbolic value")
    if isinstance(v, (SList, RSeq)):
        raise OutOfReach("iteration over symbolic collection outside a loop rule")
    I.raise_builtin("TypeError", "object is not iterable: %r" % (v,))


def dict_items(I, v):
    if isinstance(v, IDict):
        return list(v.d.items())
    raise OutOfReach("** on %r" % (v,))


# ------------------------------------------------------------------ attribute protocol
def class_dict(I, cls):
    d = dict(cls.attrs)
    d.setdefault("__module__", cls.module.name if cls.module else "builtins")
    d.setdefault("__dict__", cls.__dict__.setdefault("_desc_dict", Opaque("attribute '__dict__' of %s" % cls.name)))
    d.setdefault("__weakref__", cls.__dict__.setdefault("_desc_weak", Opaque("attribute '__weakref__' of %s" % cls.name)))
    d.setdefault("__doc__", None)
    d.pop("__qualname__", None)
    return IDict(d)


def getattr_(I, obj, name, default=MISSING):
    def missing():
        if default is not MISSING:
            return default
        I.raise_builtin("AttributeError", "%r has no attribute %r" % (obj, name))

    if isinstance(obj, (IObject, RObj)):
        cls = obj.cls
        if name == "__class__":
            return cls
        if name == "__dict__":
            if isinstance(obj, IObject):
                return IDict(obj.fields)
            return IDict({k: region_get(I, obj, k) for k in obj.region.fields})
        ca, owner = cls.lookup(name)
        if isinstance(ca, IProperty):
            if ca.fget is None:
                I.raise_builtin("AttributeError", "unreadable attribute")
            return I.call(ca.fget, [obj], {})
        if isinstance(ca, IObject) and ca.cls.lookup("__get__")[0] is not None and ca.cls.lookup("__set__")[0] is not None:
            return I.call(IBound(ca.cls.lookup("__get__")[0], ca), [obj, cls], {})
        if isinstance(obj, IObject):
            if name in obj.fields:
                return obj.fields[name]
        else:
            r = region_get(I, obj, name)
            if r is not MISSING:
                return r
        if ca is not None or owner is not None:
            return bind_class_attr(I, ca, obj, cls)
        if name == "__getattribute__":
            # object.__getattribute__: the normal lookup, without the __getattr__ fallback
            def plain(I_, a, k):
                nm = a[0]
                if not isinstance(nm, str):
                    raise OutOfReach("__getattribute__ with symbolic name")
                ca2, owner2 = cls.lookup(nm)
                if isinstance(obj, IObject) and nm in obj.fields:
                    return obj.fields[nm]
                if owner2 is not None:
                    return getattr_(I_, obj, nm)
                I_.raise_builtin("AttributeError", "%r object has no attribute %r" % (cls.name, nm))
            return Native("__getattribute__", plain)
        ga, _ = cls.lookup("__getattr__")
        if isinstance(ga, IFunction):
            if default is MISSING:
                return I.call(IBound(ga, obj), [name], {})
            try:
                return I.call(IBound(ga, obj), [name], {})
            except IRaise as e:      # getattr(o, name, default) swallows AttributeError from __getattr__
                if isinstance(e.value, IObject) and e.value.cls.issubclass(I.world.builtins["AttributeError"]):
                    return default
                raise
        nat = getattr(cls, "native_getattr", None)
        if nat is not None:
            r = nat(I, obj, name)
            if r is not MISSING:
                return r
        return missing()
    if isinstance(obj, IClass):
        if name == "__name__":
            return obj.name
        if name == "__qualname__":
            return obj.qualname
        if name == "__bases__":
            return tuple(obj.bases)
        if name == "__mro__":
            return tuple(obj.mro)
        if name == "__dict__":
            return class_dict(I, obj)
        if name == "__class__":
            return obj.metaclass or I.world.builtins["type"]
        if name == "__subclasses__":
            return Native("__subclasses__", lambda I_, a, k: IList(list(obj.subclasses)))
        if name == "__module__":
            return obj.module.name if obj.module else "builtins"
        ca, owner = obj.lookup(name)
        if owner is not None:
            if isinstance(ca, IClassMethod):
                return IBound(ca.func, obj)
            if isinstance(ca, IStaticMethod):
                return ca.func
            if isinstance(ca, IObject) and ca.cls.lookup("__get__")[0] is not None:
                return I.call(IBound(ca.cls.lookup("__get__")[0], ca), [None, obj], {})
            return ca
        if obj.metaclass is not None:
            ma, mo = obj.metaclass.lookup(name)
            if mo is not None:
                return bind_class_attr(I, ma, obj, obj.metaclass)
        nat = getattr(obj, "native_class_attrs", None)
        if nat and name in nat:
            return nat[name]
        return missing()
    if isinstance(obj, ISuper):
        o = obj.obj
        cls = o if isinstance(o, IClass) else o.cls
        ca, owner = cls.lookup(name, after=obj.after)
        if owner is None:
            return missing()
        if isinstance(ca, IProperty):
            return I.call(ca.fget, [o], {})
        if isinstance(o, IClass):
            if isinstance(ca, IClassMethod):
                return IBound(ca.func, o)
            if isinstance(ca, IStaticMethod):
                return ca.func
            if isinstance(ca, (IFunction, Native)):
                return ca if name != "__new__" else ca
            return ca
        return bind_class_attr(I, ca, o, cls)
    if isinstance(obj, IModule):
        if name in obj.ns:
            return obj.ns[name]
        # lazily loaded submodule
        try:
            if I.world.module_path(obj.name + "." + name)[0]:
                return I.import_module(obj.name + "." + name)
        except OutOfReach:
            pass
        if getattr(obj, "is_model", False) and default is MISSING:
            # a standard-library module modelled only in part: the real module may well have this attribute
            raise OutOfReach("%s.%s is not modelled" % (obj.name, name))
        return missing()
    if isinstance(obj, IFunction):
        if name in obj.fattrs:
            return obj.fattrs[name]
        if name == "__name__":
            return obj.name
        return missing()
    if isinstance(obj, IBound):
        if name == "__self__":
            return obj.self_
        if name == "__func__":
            return obj.func
        return getattr_(I, obj.func, name, default)
    if isinstance(obj, Sym):
        if obj.iface is not None:
            return obj.iface.getattr(I, obj, name, default)
        k = I.kind(obj)
        if name == "__class__":
            m = {"str": "str", "int": "int", "bool": "bool", "none": "NoneType", "bytes": "bytes", "real": "float"}
            if k in m:
                return I.world.builtins[m[k]]
            return UnknownClass(obj)
        if k == "str":
            return str_method(I, obj, name)
        if k == "bytes":
            return bytes_method(I, obj, name)
        if k == "none":
            if name == "__ne__":
                return Native("None.__ne__", lambda I_, a, kw: boolval(z3.Not(is_none(I_.to_term(a[0])))) if isinstance(a[0], Sym) else (a[0] is not None))
            return missing()
        if k == "ref":
            h = I.__dict__.get("ref_resolver")
            if h is not None:
                o = h(I, obj)
                if o is not None:
                    return getattr_(I, o, name, default)
        raise OutOfReach("attribute %s of symbolic %s" % (name, k))
    if isinstance(obj, str):
        return str_method(I, obj, name)
    if isinstance(obj, bytes):
        return bytes_method(I, obj, name)
    if obj is None:
        if name == "__class__":
            return I.world.builtins["NoneType"]
        if name == "__ne__":
            return Native("None.__ne__", lambda I_, a, kw: boolval(z3.Not(is_none(I_.to_term(a[0])))) if isinstance(a[0], Sym) else (a[0] is not None))
        return missing()
    if isinstance(obj, (IList, IDict, ISet, SList, SDict, RDict, RSeq, tuple)):
        from .containers import container_method
        r = container_method(I, obj, name)
        if r is MISSING:
            py = tuple if isinstance(obj, tuple) else (dict if isinstance(obj, (IDict, SDict, RDict)) or (isinstance(obj, RSeq) and obj.kind == "dict")
                                                       else (set if isinstance(obj, ISet) else list))
            if hasattr(py, name) and default is MISSING:
                raise OutOfReach("%s.%s is not modelled" % (py.__name__, name))      # CPython has it: not an error of the code under analysis
            return missing()
        return r
    if hasattr(obj, "pyvc_getattr"):
        r = obj.pyvc_getattr(I, name)
        if r is MISSING:
            return missing()
        return r
    if isinstance(obj, Native):
        a = getattr(obj, "attrs", None)
        if a and name in a:
            return a[name]
        return missing()
    if isinstance(obj, (int, float)):
        if name == "__class__":
            return I.world.builtins[type(obj).__name__]
        if hasattr(type(obj), name) and default is MISSING:
            raise OutOfReach("%s.%s is not modelled" % (type(obj).__name__, name))
        return missing()
    return missing()


class UnknownClass:
    """type(x) of a symbolic object reference whose class is not known."""
    def __init__(self, sym):
        self.sym = sym

    def pyvc_getattr(self, I, name):
        if name in ("__name__", "__qualname__"):
            return Sym(VStr(z3.Const("classname!%d" % self.sym.term.get_id(), z3.StringSort())))
        return MISSING


def bind_class_attr(I, ca, obj, cls):
    if isinstance(ca, IFunction):
        return IBound(ca, obj)
    if isinstance(ca, Native) and getattr(ca, "is_method", False):
        return IBound(ca, obj)
    if isinstance(ca, IClassMethod):
        return IBound(ca.func, cls)
    if isinstance(ca, IStaticMethod):
        return ca.func
    if isinstance(ca, IObject):
        g, _ = ca.cls.lookup("__get__")
        if g is not None:
            return I.call(IBound(g, ca), [obj, cls], {})
    return ca


def region_get(I, obj, name):
    f = obj.region.fields.get(name, MISSING)
    if f is MISSING:
        return MISSING
    if isinstance(f, tuple):
        if f[0] == "const":
            return f[1]
        if f[0] == "region":
            return RObj(f[1], obj.idx)
        if f[0] == "fn":
            return f[1](I, obj)
    return Sym(S(z3.Select(f, obj.idx)))


def setattr_(I, obj, name, v):
    if isinstance(obj, (IObject, RObj)):
        ca, owner = obj.cls.lookup(name)
        if isinstance(ca, IProperty):
            if ca.fset is None:
                I.raise_builtin("AttributeError", "can't set attribute %s" % name)
            I.call(ca.fset, [obj, v], {})
            return
        if isinstance(obj, IObject):
            I.log_write(("field", obj, name))
            obj.fields[name] = v
            return
        f = obj.region.fields.get(name, MISSING)
        if f is MISSING or isinstance(f, tuple):
            raise OutOfReach("write to non-array field %s of region %s" % (name, obj.region.label))
        I.log_write(("region", obj.region, name, obj.idx))
        obj.region.fields[name] = z3.Store(f, obj.idx, I.to_term(v))
        return
    if isinstance(obj, IClass):
        I.log_write(("classattr", obj, name))
        obj.attrs[name] = v
        return
    if isinstance(obj, IFunction):
        obj.fattrs[name] = v
        return
    if isinstance(obj, IModule):
        obj.ns[name] = v
        return
    if isinstance(obj, Sym) and obj.iface is not None:
        return obj.iface.setattr(I, obj, name, v)
    if hasattr(obj, "pyvc_setattr"):
        return obj.pyvc_setattr(I, name, v)
    raise OutOfReach("setattr on %r" % (obj,))


def getitem(I, obj, idx):
    from .containers import getitem as gi
    return gi(I, obj, idx)


def setitem(I, obj, idx, v):
    from .containers import setitem as si
    return si(I, obj, idx, v)


def delitem(I, obj, idx):
    from .containers import delitem as di
    return di(I, obj, idx)


def str_method(I, s, name):
    from .strings import str_method as sm
    return sm(I, s, name)


def bytes_method(I, s, name):
    from .strings import bytes_method as bm
    return bm(I, s, name)


# ------------------------------------------------------------------ builtins
def make_builtins(world):
    from .builtins_lib import build
    return build(world)


class _StdlibRegistry(dict):
    pass


STDLIB = _StdlibRegistry()


def stdlib(name):
    def deco(fn):
        STDLIB[name] = fn
        return fn
    return deco


from . import stdlib_models  # noqa: E402,F401  (registers models)
