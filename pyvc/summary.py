"""Function summaries by path enumeration: run a call on generic symbolic
arguments in a nested exploration and collect, per path, the path condition and
the outcome.  Used to derive the field map of a symbolic-size family of objects
from the real constructor."""
import z3
from .prover import Explorer
from .interp import IRaise, PathEnd
from .smt import S


class PathSummary:
    def __init__(self, pc, outcome, value):
        self.pc = pc            # list of z3 formulas (path condition)
        self.outcome = outcome  # "ok" | "raise"
        self.value = value      # returned interpreter value | exception class name


def summarize(parent_I, build_and_call, repo_root, source_cache=None, pre=()):
    """build_and_call(I) -> value; returns list[PathSummary].  `pre`: formulas
    assumed at the start of every path (not part of the reported pc)."""
    out = []

    def task(I, run):
        I.call_hooks.update(parent_I.call_hooks)
        I.contracts.update(parent_I.contracts)
        for f in pre:
            run.assume(f)
        n0 = len(run.assumed)
        try:
            v = build_and_call(I)
            out.append(PathSummary(list(run.assumed[n0:]), "ok", v))
        except IRaise as e:
            out.append(PathSummary(list(run.assumed[n0:]), "raise", e.value.cls.name))
    e = Explorer("summary", task, repo_root, source_cache=source_cache)
    e.run()
    if e.out_of_reach or e.errors:
        from .interp import OutOfReach
        raise OutOfReach("summary failed: %r %r" % (e.out_of_reach[:1], [x["error"] for x in e.errors[:1]]))
    return out
