"""Container operations (concrete-structure and symbolic) for PyVC."""
import z3
from . import smt
from .smt import (Val, VNone, VBool, VInt, VStr, VRef, is_none, is_int, is_str,
                  get_i, get_s, get_rg, get_ix, S)
from .values import *
from .interp import OutOfReach, MISSING, Infeasible
from .builtins_model import keyid, py_eq, contains, boolval, is_concrete_data


def nat(name, fn):
    return Native(name, fn)


def dict_find(I, d, key):
    """Find `key` in IDict with possibly symbolic key/values: returns the
    matching existing key or MISSING; forks on symbolic equalities."""
    kid = None
    if not isinstance(key, Sym):
        kid = keyid(key)
    for k in list(d.d.keys()):
        if kid is not None and not isinstance(k, Sym):
            if keyid(k) == kid:
                return k
            continue
        e = py_eq(I, key, k)
        if e is True:
            return k
        if e is False:
            continue
        if I.prover.fork(e):
            return k
    return MISSING


def from_val(I, t, row_region=None, iface=None):
    return Sym(t, iface)


def getitem(I, obj, idx):
    if isinstance(obj, IDict):
        k = dict_find(I, obj, idx)
        if k is MISSING:
            I.raise_builtin("KeyError", idx)
        v = obj.d[k]
        if isinstance(v, Maybe):
            if not I.prover.fork(v.cond):
                I.raise_builtin("KeyError", idx)
            return v.value
        return v
    if isinstance(obj, (tuple, IList)):
        items = obj if isinstance(obj, tuple) else obj.items
        if isinstance(idx, slice):
            if any(isinstance(x, Sym) for x in (idx.start, idx.stop, idx.step)):
                raise OutOfReach("symbolic slice of concrete sequence")
            r = items[idx]
            return r if isinstance(obj, tuple) else IList(r)
        if isinstance(idx, Sym):
            raise OutOfReach("symbolic index into concrete sequence")
        try:
            return items[idx]
        except IndexError:
            I.raise_builtin("IndexError", "index out of range")
        except TypeError:
            I.raise_builtin("TypeError", "indices must be integers")
    if isinstance(obj, str) or isinstance(obj, bytes) or isinstance(obj, Sym):
        from .strings import str_getitem
        return str_getitem(I, obj, idx)
    if isinstance(obj, SDict):
        t = I.to_term(idx)
        if not I.prover.fork(S(z3.Select(obj.has, t))):
            I.raise_builtin("KeyError", idx)
        v = S(z3.Select(obj.get, t))
        if obj.row_region is not None:
            return RDict(obj.row_region, S(get_ix(v)))
        return Sym(v)
    if isinstance(obj, RDict):
        t = I.to_term(idx)
        if not I.prover.fork(S(z3.Select(z3.Select(obj.region.has, obj.row), t))):
            I.raise_builtin("KeyError", idx)
        return Sym(S(z3.Select(z3.Select(obj.region.get, obj.row), t)))
    if isinstance(obj, SList):
        i = I.as_int(idx)
        if not I.prover.fork(S(z3.And(i >= 0, i < obj.length))):
            if I.prover.fork(S(z3.And(i < 0, i >= -obj.length))):
                return Sym(z3.Select(obj.elt, obj.length + i), obj.iface)
            I.raise_builtin("IndexError", "list index out of range")
        return Sym(z3.Select(obj.elt, i), obj.iface)
    if isinstance(obj, RSeq) and obj.kind == "dict":
        return rseq_lookup(I, obj, idx, raise_missing=True)
    if isinstance(obj, (IObject, RObj)):
        f, _ = obj.cls.lookup("__getitem__")
        if f is not None:
            return I.call(IBound(f, obj), [idx], {})
    if isinstance(obj, IClass) or isinstance(obj, Native):
        # typing generics: List[int] etc.
        if getattr(obj, "typing_generic", False):
            return obj
    if isinstance(obj, Opaque):
        return obj
    I.raise_builtin("TypeError", "object is not subscriptable: %r" % (obj,))


def rseq_lookup(I, rs, key, raise_missing=False, default=None):
    """Lookup by key in a dict whose values are the objects of a region:
    keys are pairwise distinct (dict invariant)."""
    t = I.to_term(key)
    j = I.fresh("k_" + rs.label, z3.IntSort())
    n = rs.region.length
    # distinctness of keys is an axiom of the dict model (asserted by the harness)
    ex = z3.Exists([j], z3.And(j >= 0, j < n, z3.Select(rs.keys, j) == t), patterns=[z3.Select(rs.keys, j)])
    if I.prover.fork(ex):
        jj = I.fresh("at_" + rs.label, z3.IntSort())
        I.prover.assume(z3.And(jj >= 0, jj < n, z3.Select(rs.keys, jj) == t))
        return RObj(rs.region, jj)
    if raise_missing:
        I.raise_builtin("KeyError", key)
    return default


def setitem(I, obj, idx, v):
    if isinstance(obj, IDict):
        k = dict_find(I, obj, idx)
        I.log_write(("dict", obj))
        if getattr(I, "guards", None):
            g = S(z3.And(*I.guards))
            if k is not MISSING:
                old = obj.d[k]
                if isinstance(old, Maybe) or isinstance(v, Maybe) or not (
                        isinstance(old, (Sym, str, int, bool, type(None))) and isinstance(v, (Sym, str, int, bool, type(None)))):
                    raise OutOfReach("guarded overwrite of a structured dict entry")
                obj.d[k] = Sym(z3.If(g, I.to_term(v), I.to_term(old)))
            else:
                obj.d[idx] = Maybe(g, v)
            return
        if k is MISSING:
            obj.d[idx] = v
        else:
            obj.d[k] = v
        return
    if isinstance(obj, IList):
        if isinstance(idx, Sym) or isinstance(idx, slice):
            raise OutOfReach("symbolic/slice store into concrete list")
        try:
            obj.items[idx] = v
        except IndexError:
            I.raise_builtin("IndexError", "list assignment index out of range")
        return
    if isinstance(obj, SDict):
        t = I.to_term(idx)
        I.log_write(("sdict", obj))
        if obj.row_region is not None:
            if isinstance(v, IDict) and not v.d:
                rg = obj.row_region
                row = rg.next
                rg.next = S(rg.next + 1)
                EMPTY = z3.K(Val, False)
                rg.has = z3.Store(rg.has, row, EMPTY)
                vt = VRef(z3.IntVal(rg.rid), row)
            elif isinstance(v, RDict):
                vt = I.to_term(v)
            else:
                raise OutOfReach("storing a non-empty concrete dict into a symbolic dict-of-dicts")
        else:
            vt = I.to_term(v)
        obj.has = z3.Store(obj.has, t, True)
        obj.get = z3.Store(obj.get, t, vt)
        return
    if isinstance(obj, RDict):
        t = I.to_term(idx)
        rg = obj.region
        I.log_write(("rdict", rg))
        rg.has = z3.Store(rg.has, obj.row, z3.Store(z3.Select(rg.has, obj.row), t, True))
        rg.get = z3.Store(rg.get, obj.row, z3.Store(z3.Select(rg.get, obj.row), t, I.to_term(v)))
        return
    if isinstance(obj, SList):
        i = I.as_int(idx)
        if not I.prover.fork(S(z3.And(i >= 0, i < obj.length))):
            I.raise_builtin("IndexError", "list assignment index out of range")
        I.log_write(("slist", obj))
        obj.elt = z3.Store(obj.elt, i, I.to_term(v))
        return
    if isinstance(obj, (IObject, RObj)):
        f, _ = obj.cls.lookup("__setitem__")
        if f is not None:
            return I.call(IBound(f, obj), [idx, v], {})
    I.raise_builtin("TypeError", "object does not support item assignment: %r" % (obj,))


def delitem(I, obj, idx):
    if isinstance(obj, IDict):
        k = dict_find(I, obj, idx)
        if k is MISSING:
            I.raise_builtin("KeyError", idx)
        I.log_write(("dict", obj))
        del obj.d[k]
        return
    if isinstance(obj, SDict):
        t = I.to_term(idx)
        if not I.prover.fork(S(z3.Select(obj.has, t))):
            I.raise_builtin("KeyError", idx)
        I.log_write(("sdict", obj))
        obj.has = z3.Store(obj.has, t, False)
        return
    if isinstance(obj, RDict):
        t = I.to_term(idx)
        rg = obj.region
        if not I.prover.fork(S(z3.Select(z3.Select(rg.has, obj.row), t))):
            I.raise_builtin("KeyError", idx)
        rg.has = z3.Store(rg.has, obj.row, z3.Store(z3.Select(rg.has, obj.row), t, False))
        return
    if isinstance(obj, IList):
        del obj.items[idx]
        return
    raise OutOfReach("del item on %r" % (obj,))


class _View(Native):
    """dict view (keys/values/items) over an IDict: iterable, `in`-testable."""
    def __init__(self, d, kind):
        Native.__init__(self, "dict_" + kind, None)
        self.d = d
        self.kind = kind

    def iterate(self, I):
        if self.kind == "keys":
            return list(self.d.d.keys())
        if self.kind == "values":
            return list(self.d.d.values())
        return [(k, v) for k, v in self.d.d.items()]

    def contains(self, I, item):
        return contains(I, item, tuple(self.iterate(I)))


def container_method(I, obj, name):
    if isinstance(obj, IDict):
        return idict_method(I, obj, name)
    if isinstance(obj, IList):
        return ilist_method(I, obj, name)
    if isinstance(obj, tuple):
        if name == "index":
            def index(I_, a, k):
                for n, x in enumerate(obj):
                    if I_.truth(boolval(py_eq(I_, x, a[0]))):
                        return n
                I_.raise_builtin("ValueError", "not in tuple")
            return nat("index", index)
        if name == "count":
            return nat("count", lambda I_, a, k: sum(1 for x in obj if I_.truth(boolval(py_eq(I_, x, a[0])))))
        return MISSING
    if isinstance(obj, ISet):
        if name == "add":
            def add(I_, a, k):
                if not I_.truth(boolval(contains(I_, a[0], obj))):
                    obj.items.append(a[0])
            return nat("add", add)
        return MISSING
    if isinstance(obj, SList):
        return slist_method(I, obj, name)
    if isinstance(obj, (SDict, RDict)):
        return sdict_method(I, obj, name)
    if isinstance(obj, RSeq):
        return rseq_method(I, obj, name)
    return MISSING


def idict_method(I, d, name):
    if name == "items":
        return nat("items", lambda I_, a, k: _View(d, "items"))
    if name == "keys":
        return nat("keys", lambda I_, a, k: _View(d, "keys"))
    if name == "values":
        return nat("values", lambda I_, a, k: _View(d, "values"))
    if name == "get":
        def get(I_, a, k):
            kk = dict_find(I_, d, a[0])
            if kk is MISSING:
                return a[1] if len(a) > 1 else k.get("default")
            return d.d[kk]
        return nat("get", get)
    if name == "setdefault":
        def setdefault(I_, a, k):
            kk = dict_find(I_, d, a[0])
            if kk is MISSING:
                d.d[a[0]] = a[1] if len(a) > 1 else None
                return d.d[a[0]]
            return d.d[kk]
        return nat("setdefault", setdefault)
    if name == "pop":
        def pop(I_, a, k):
            kk = dict_find(I_, d, a[0])
            if kk is MISSING:
                if len(a) > 1:
                    return a[1]
                I_.raise_builtin("KeyError", a[0])
            return d.d.pop(kk)
        return nat("pop", pop)
    if name == "update":
        def update(I_, a, k):
            for src in a:
                for kk, vv in I_.dict_items(src):
                    setitem(I_, d, kk, vv)
            for kk, vv in k.items():
                setitem(I_, d, kk, vv)
        return nat("update", update)
    if name == "copy":
        return nat("copy", lambda I_, a, k: IDict(d.d))
    return MISSING


def ilist_method(I, l, name):
    if name == "append":
        def append(I_, a, k):
            I_.log_write(("list", l))
            l.items.append(a[0])
        return nat("append", append)
    if name == "extend":
        def extend(I_, a, k):
            I_.log_write(("list", l))
            l.items.extend(I_.iterate(a[0]))
        return nat("extend", extend)
    if name == "remove":
        def remove(I_, a, k):
            for n, x in enumerate(l.items):
                if I_.truth(boolval(py_eq(I_, x, a[0]))):
                    I_.log_write(("list", l))
                    del l.items[n]
                    return None
            I_.raise_builtin("ValueError", "list.remove(x): x not in list")
        return nat("remove", remove)
    if name == "pop":
        def pop(I_, a, k):
            if not l.items:
                I_.raise_builtin("IndexError", "pop from empty list")
            return l.items.pop(*a)
        return nat("pop", pop)
    if name == "index":
        def index(I_, a, k):
            for n, x in enumerate(l.items):
                if I_.truth(boolval(py_eq(I_, x, a[0]))):
                    return n
            I_.raise_builtin("ValueError", "not in list")
        return nat("index", index)
    if name == "copy":
        return nat("copy", lambda I_, a, k: IList(l.items))
    if name == "clear":
        def clear(I_, a, k):
            I_.log_write(("list", l))
            del l.items[:]
        return nat("clear", clear)
    if name == "insert":
        def insert(I_, a, k):
            l.items.insert(a[0], a[1])
        return nat("insert", insert)
    return MISSING


def slist_method(I, l, name):
    if name == "append":
        def append(I_, a, k):
            I_.log_write(("slist", l))
            l.elt = z3.Store(l.elt, l.length, I_.to_term(a[0]))
            l.length = S(l.length + 1)
        return nat("append", append)
    if name == "remove":
        def remove(I_, a, k):
            t = I_.to_term(a[0])
            j = z3.Int("j")
            ex = z3.Exists([j], z3.And(j >= 0, j < l.length, z3.Select(l.elt, j) == t), patterns=[z3.Select(l.elt, j)])
            if not I_.prover.fork(ex):
                I_.raise_builtin("ValueError", "list.remove(x): x not in list")
            p = I_.fresh("rm_pos", z3.IntSort())
            P = I_.prover
            P.assume(z3.And(p >= 0, p < l.length, z3.Select(l.elt, p) == t))
            P.assume(z3.ForAll([j], z3.Implies(z3.And(j >= 0, j < p), z3.Select(l.elt, j) != t)))
            old = l.elt
            # defining form (a lambda, not a quantified axiom: no matching loop on j+1)
            ne = z3.Lambda([j], z3.If(j < p, z3.Select(old, j), z3.Select(old, j + 1)))
            I_.log_write(("slist", l))
            l.removed_at = p
            l.elt = ne
            l.length = S(l.length - 1)
        return nat("remove", remove)
    return MISSING


def sdict_method(I, d, name):
    if name == "setdefault":
        def setdefault(I_, a, k):
            if not I_.truth(boolval(contains(I_, a[0], d))):
                setitem(I_, d, a[0], a[1] if len(a) > 1 else None)
            return getitem(I_, d, a[0])
        return nat("setdefault", setdefault)
    if name == "pop":
        def pop(I_, a, k):
            if not I_.truth(boolval(contains(I_, a[0], d))):
                if len(a) > 1:
                    return a[1]
                I_.raise_builtin("KeyError", a[0])
            v = getitem(I_, d, a[0])
            delitem(I_, d, a[0])
            return v
        return nat("pop", pop)
    if name == "get":
        def get(I_, a, k):
            t = I_.to_term(a[0])
            default = a[1] if len(a) > 1 else None
            if isinstance(d, SDict):
                if I_.prover.fork(S(z3.Select(d.has, t))):
                    v = S(z3.Select(d.get, t))
                    if d.row_region is not None:
                        return RDict(d.row_region, S(get_ix(v)))
                    return Sym(v)
                return default
            rg = d.region
            hs = S(z3.Select(z3.Select(rg.has, d.row), t))
            g = S(z3.Select(z3.Select(rg.get, d.row), t))
            if isinstance(default, (Sym,)) or is_concrete_data(default):
                return Sym(S(z3.If(hs, g, I_.to_term(default))))
            if I_.prover.fork(hs):
                return Sym(g)
            return default
        return nat("get", get)
    return MISSING


def rseq_method(I, rs, name):
    if name in ("items", "values", "keys"):
        return nat(name, lambda I_, a, k: RSeq(rs.region, rs.keys, name, rs.label))
    if name == "get":
        def get(I_, a, k):
            return rseq_lookup(I_, rs, a[0], default=a[1] if len(a) > 1 else None)
        return nat("get", get)
    return MISSING
