"""Contract objects for PyVC.

A contract is attached to a real function by (relative file, qualified name).
Clauses are host-Python callables producing z3 formulas over the symbolic
state; the executable text they are checked against is always the function's
real AST.
"""
import z3
from .smt import Val, S


class LoopContract:
    """Invariant rule for one loop (ordinal = position among the function's
    for/while loops in source order).

    inv(ctx)   -> list[(name, BoolRef)]   evaluated with ctx.i = iteration index
    havoc(ctx) -> replaces every piece of state the body may modify (besides
                  assigned locals, which the engine havocs itself) by fresh
                  symbols
    allowed(write) -> bool: frame check for the writes the body performed
    variant(ctx) -> IntRef (while loops; proves termination)
    """
    def __init__(self, inv, havoc=None, allowed=None, variant=None, props="", label=None):
        self.props = props
        self.label = label
        self._inv = inv
        self._havoc = havoc
        self._allowed = allowed
        self.variant = variant

    def inv(self, ctx):
        return self._inv(ctx)

    def havoc(self, ctx):
        if self._havoc is not None:
            self._havoc(ctx)

    def check_frame(self, ctx, writes):
        P = ctx.interp.prover
        for w in writes:
            ok = self._allowed(w) if self._allowed is not None else False
            if not ok:
                P.fail("%s%s/loop[%s]/frame" % (self.props and self.props + "|", ctx.interp.frames[-1][0].qualname, self.label),
                       "loop body writes outside the loop's modifies clause: %r" % (w[:3],))


class Contract:
    """Function contract.  `modular=True`: callers use `apply` instead of the
    body (the body is verified separately against the same contract)."""
    def __init__(self, file, func, loops=None, modular=False, apply=None, doc="", loop_selector=None):
        self.loop_selector = loop_selector
        self.file = file
        self.func = func
        self.loops = loops or {}
        self.modular = modular
        self._apply = apply
        self.doc = doc

    @property
    def key(self):
        return (self.file, self.func)

    def apply(self, I, f, args, kwargs):
        return self._apply(I, f, args, kwargs)


def _has_lambda(t):
    stack, seen = [t], set()
    while stack:
        x = stack.pop()
        if x.get_id() in seen:
            continue
        seen.add(x.get_id())
        if z3.is_quantifier(x):
            return True
        stack.extend(x.children())
    return False


def _pats_ok(patterns):
    for p in patterns or []:
        if _has_lambda(p):
            return False
    return True


def forall(vars_, body, patterns=None):
    if not isinstance(vars_, (list, tuple)):
        vars_ = [vars_]
    if patterns and not _pats_ok(patterns):
        patterns = None
    if patterns:
        try:
            return z3.ForAll(list(vars_), body, patterns=patterns)
        except z3.Z3Exception:      # e.g. a pattern over a lambda-defined array: let z3 infer
            pass
    return z3.ForAll(list(vars_), body)


def exists(vars_, body, patterns=None):
    if not isinstance(vars_, (list, tuple)):
        vars_ = [vars_]
    if patterns and not _pats_ok(patterns):
        patterns = None
    if patterns:
        try:
            return z3.Exists(list(vars_), body, patterns=patterns)
        except z3.Z3Exception:
            pass
    return z3.Exists(list(vars_), body)


def implies(a, b):
    return z3.Implies(a, b)


def fresh_array(I, base, dom, rng):
    return I.fresh(base, z3.ArraySort(dom, rng))


def ite(c, a, b):
    return z3.If(c, a, b)
