"""str / bytes operations, concrete and symbolic (z3 String)."""
import z3
from . import smt
from .smt import (Val, VNone, VBool, VInt, VStr, VBytes, is_none, is_int, is_str,
                  get_i, get_s, get_y, S)
from .values import *
from .interp import OutOfReach, MISSING


def sterm(I, s):
    if isinstance(s, str):
        return z3.StringVal(s)
    return I.as_str(s)


def iterm(I, v):
    return I.as_int(v)


def norm_index(I, i, n):
    """Python index normalisation for slicing: negative indices count from
    the end; clamp to [0, n]."""
    i = z3.If(i < 0, i + n, i)
    return z3.If(i < 0, 0, z3.If(i > n, n, i))


def str_getitem(I, obj, idx):
    is_bytes = isinstance(obj, bytes) or (isinstance(obj, Sym) and I.kind(obj) == "bytes")
    if isinstance(obj, (str, bytes)) and not isinstance(idx, slice) and not isinstance(idx, Sym):
        try:
            return obj[idx]
        except IndexError:
            I.raise_builtin("IndexError", "string index out of range")
    if isinstance(obj, (str, bytes)) and isinstance(idx, slice) and not any(isinstance(x, Sym) for x in (idx.start, idx.stop, idx.step)):
        return obj[idx]
    if isinstance(obj, Sym) and I.kind(obj) not in ("str", "bytes"):
        I.raise_builtin("TypeError", "'%s' object is not subscriptable" % I.kind(obj))
    if is_bytes:
        t = z3.StringVal(obj.decode("latin1")) if isinstance(obj, bytes) else S(get_y(obj.term))
        wrap = VBytes
    else:
        t = sterm(I, obj)
        wrap = VStr
    n = z3.Length(t)
    if isinstance(idx, slice):
        if idx.step is not None:
            raise OutOfReach("slice step on symbolic string")
        idx = slice(*[None if (isinstance(b, Sym) and I.kind(b) == "none") else b
                      for b in (idx.start, idx.stop)])
        lo = z3.IntVal(0) if idx.start is None else norm_index(I, slice_bound(I, idx.start), n)
        hi = n if idx.stop is None else norm_index(I, slice_bound(I, idx.stop), n)
        ln = z3.If(hi > lo, hi - lo, 0)
        return Sym(wrap(S(z3.SubString(t, lo, ln))))
    i = iterm(I, idx)
    if not I.prover.fork(S(z3.And(i >= -n, i < n))):
        I.raise_builtin("IndexError", "string index out of range")
    ii = z3.If(i < 0, i + n, i)
    if is_bytes:
        raise OutOfReach("indexing symbolic bytes")
    return Sym(VStr(S(z3.SubString(t, ii, 1))))


def slice_bound(I, v):
    """slice bound: int, or None (handled by caller) -- a symbolic bound that
    may be None is a Python feature (`data[None:]`): fork on it."""
    return I.as_int(v)


def find_term(t, sub, start=None):
    return z3.IndexOf(t, sub, start if start is not None else z3.IntVal(0))


def str_method(I, s, name):
    conc = isinstance(s, str)

    def all_conc(a):
        return conc and all(isinstance(x, (str, int, type(None), tuple)) for x in a)

    def host(a, k):
        try:
            return getattr(s, name)(*a, **k)
        except (ValueError, TypeError, UnicodeError, LookupError) as e:
            I.raise_builtin(type(e).__name__, str(e))

    if name in ("find", "index"):
        def find(I_, a, k):
            if all_conc(a):
                return host(a, k)
            t = sterm(I_, s)
            sub = sterm(I_, a[0])
            if len(a) > 1:
                st = norm_index(I_, iterm(I_, a[1]), z3.Length(t))
                if len(a) > 2:
                    raise OutOfReach("str.find with end")
                return Sym(VInt(S(z3.IndexOf(t, sub, st))))
            return Sym(VInt(S(z3.IndexOf(t, sub, z3.IntVal(0)))))
        return Native(name, find)
    if name == "rfind":
        def rfind(I_, a, k):
            if all_conc(a):
                return host(a, k)
            t = sterm(I_, s)
            sub = sterm(I_, a[0])
            off = z3.IntVal(0)
            if len(a) > 1:
                # s.rfind(sub, start[, end]) == position in the slice s[start:end], shifted (non-negative bounds)
                lo = I_.as_int(a[1])
                hi = I_.as_int(a[2]) if len(a) > 2 else z3.Length(t)
                if not I_.prover.fork(z3.And(lo >= 0, hi >= 0)):
                    raise OutOfReach("str.rfind with negative bounds")
                lo2 = z3.If(lo > z3.Length(t), z3.Length(t), lo)
                hi2 = z3.If(hi > z3.Length(t), z3.Length(t), hi)
                t = z3.SubString(t, lo2, z3.If(hi2 >= lo2, hi2 - lo2, 0))
                off = lo2
                if not I_.prover.fork(lo <= z3.Length(sterm(I_, s))):
                    return -1
            r = I_.fresh("rfind", z3.IntSort())
            # last occurrence: specified by its defining property
            n, m = z3.Length(t), z3.Length(sub)
            j = z3.Int("j")
            P = I_.prover
            P.assume(z3.Or(
                z3.And(r == -1, z3.Not(z3.Contains(t, sub))),
                z3.And(r >= 0, r + m <= n, z3.SubString(t, r, m) == sub,
                       z3.Not(z3.Contains(z3.SubString(t, r + 1, n), sub)) if True else True)))
            return Sym(VInt(S(z3.If(r < 0, r, r + off))))
        return Native(name, rfind)
    if name in ("strip", "lstrip", "rstrip", "lower", "upper", "split", "join", "format",
                "startswith", "endswith", "replace", "encode", "isdigit", "rsplit", "title",
                "splitlines", "zfill", "ljust", "rjust", "count", "partition", "rpartition"):
        def generic(I_, a, k):
            if conc and all(not isinstance(x, Sym) for x in a):
                if name == "join":
                    items = I_.iterate(a[0])
                    if all(isinstance(x, str) for x in items):
                        return s.join(items)
                    return I_.concat_strs([p for i, x in enumerate(items) for p in (([s] if i else []) + [x])])
                if name == "split" or name == "rsplit" or name == "splitlines":
                    return IList(host(a, k))
                r = host(a, k)
                return r
            if name == "strip" and not a:
                t = sterm(I_, s)
                from .regex import strip_by_language
                known = strip_by_language(I_, t, _WS) if not a else None
                if known is not None:
                    return Sym(VStr(known))
                r = py_strip(t)
                # assumed contract of str.strip(): the result has no leading/trailing whitespace
                # (stated as a regular-language membership: word equations make the string solver give up)
                I_.prover.assume(z3.InRe(r, STRIPPED))
                return Sym(VStr(r))
            if name == "startswith":
                return bool_sym(z3.PrefixOf(sterm(I_, a[0]), sterm(I_, s)))
            if name == "endswith":
                return bool_sym(z3.SuffixOf(sterm(I_, a[0]), sterm(I_, s)))
            if name == "encode":
                t = sterm(I_, s)
                return Sym(VBytes(t))
            raise OutOfReach("str.%s on symbolic string" % name)
        return Native(name, generic)
    if name == "__class__":
        return I.world.builtins["str"]
    if name == "__ne__" or name == "__eq__":
        neg = name == "__ne__"

        def cmp(I_, a, k):
            from .builtins_model import py_eq, boolval
            r = py_eq(I_, s, a[0])
            return (not r if isinstance(r, bool) else boolval(z3.Not(r))) if neg else boolval(r)
        return Native(name, cmp)
    if hasattr(str, name):
        raise OutOfReach("str.%s is not modelled" % name)       # CPython has it: not an AttributeError of the code under analysis
    I.raise_builtin("AttributeError", "'str' object has no attribute %r" % name)


py_strip = z3.Function("py_strip", z3.StringSort(), z3.StringSort())
_ANY = z3.Range(z3.StringVal("\x00"), z3.StringVal("\xff"))
_WS = z3.Union(*[z3.Re(z3.StringVal(c)) for c in (" ", "\t", "\n", "\r", "\x0b", "\x0c", "\x1c", "\x1d", "\x1e", "\x1f", "\x85", "\xa0")])
_NONWS = z3.Intersect(_ANY, z3.Complement(_WS))
STRIPPED = z3.Union(z3.Re(z3.StringVal("")), _NONWS, z3.Concat(_NONWS, z3.Star(_ANY), _NONWS))


def bool_sym(t):
    t = S(t)
    if z3.is_true(t):
        return True
    if z3.is_false(t):
        return False
    return Sym(VBool(t))


def bytes_method(I, s, name):
    if name == "decode":
        def decode(I_, a, k):
            enc = a[0] if a else k.get("encoding", "utf-8")
            if isinstance(s, bytes):
                try:
                    return s.decode(enc)
                except UnicodeError as e:
                    I_.raise_builtin("UnicodeDecodeError", str(e))
            if enc in ("latin1", "latin-1", "iso-8859-1"):
                return Sym(VStr(S(get_y(s.term))))
            errors = a[1] if len(a) > 1 else k.get("errors", "strict")
            if isinstance(enc, str) and enc.lower().replace("_", "-") in ("utf-8", "utf8", "ascii", "us-ascii") and isinstance(errors, str):
                # a PARTIAL codec on unknown bytes (external function): with errors='strict' it either raises UnicodeDecodeError or
                # returns some text; which bytes it refuses is not modelled (unknown predicate per call)
                if errors == "strict" and I_.prover.fork(I_.fresh("undecodable_%s" % enc.lower().replace("-", ""), z3.BoolSort())):
                    I_.raise_builtin("UnicodeDecodeError", "'%s' codec can't decode bytes" % enc)
                r = I_.fresh_sym("decoded_text")
                I_.prover.assume(is_str(r.term))
                return r
            raise OutOfReach("bytes.decode(%r) symbolic" % (enc,))
        return Native("decode", decode)
    if name == "__class__":
        return I.world.builtins["bytes"]
    if name == "join":
        def join(I_, a, k):
            items = I_.iterate(a[0])
            if isinstance(s, bytes) and all(isinstance(x, bytes) for x in items):
                return s.join(items)
            parts = []
            for n_, x in enumerate(items):
                if n_:
                    parts.append(s)
                parts.append(x)
            ts = []
            for x in parts:
                if isinstance(x, bytes):
                    if x:
                        ts.append(z3.StringVal(x.decode("latin1")))
                elif isinstance(x, Sym) and I_.kind(x) == "bytes":
                    ts.append(get_y(x.term))
                else:
                    I_.raise_builtin("TypeError", "sequence item: expected a bytes-like object")
            if not ts:
                return b""
            return Sym(VBytes(S(z3.Concat(*ts)) if len(ts) > 1 else S(ts[0])))
        return Native("join", join)
    if hasattr(bytes, name):
        raise OutOfReach("bytes.%s is not modelled" % name)
    I.raise_builtin("AttributeError", "'bytes' object has no attribute %r" % name)
