"""Runs proof tasks (in a process pool), confirms counter-models by native
replay, and produces the per-property verdict, evidence and replay files."""
import hashlib
import importlib
import json
import os
import re
import subprocess
import sys
import time
import traceback

VERIF = os.path.dirname(os.path.dirname(os.path.abspath(__file__)))
REPO = os.environ.get("INDIPY_REPO", "/repo")
PY_NATIVE = "python3-vt"
PY_FULL = "/venv/bin/python"


class TaskSpec:
    """A proof task re-creatable in a worker process: module:factory(*args)."""
    def __init__(self, name, module, factory, args=(), replay_kind=None, timeout_ms=12000,
                 minimize=(), python=PY_NATIVE, scenario=False):
        # scenario=True: the replay kind is a native scenario oracle that needs no counter-model (asyncio handlers on fake streams)
        self.scenario = scenario
        self.name, self.module, self.factory, self.args = name, module, factory, tuple(args)
        self.replay_kind, self.timeout_ms, self.minimize, self.python = replay_kind, timeout_ms, minimize, python


def native_replay(kind, witness, python=PY_NATIVE, timeout=60):
    env = dict(os.environ)
    env["INDIPY_REPO"] = REPO
    env["PYTHONPATH"] = REPO
    env["PYTHONDONTWRITEBYTECODE"] = "1"
    try:
        p = subprocess.run([python, os.path.join(VERIF, "replay", "native.py"), kind],
                           input=json.dumps(witness), capture_output=True, text=True, timeout=timeout, env=env)
    except subprocess.TimeoutExpired:
        return {"reproduced": True, "detail": "native replay did not terminate within %ds (hang)" % timeout, "hang": True}
    try:
        return json.loads(p.stdout)
    except Exception:
        return {"reproduced": False, "detail": "replay harness produced no result", "stderr": p.stderr[-2000:]}


_SCENARIO_CACHE = {}


def confirm(ob, spec):
    """Decide a non-discharged obligation: native replay of the candidate
    counter-model first; otherwise a complete (MBQI) solver run."""
    import z3
    out = {"replay": None, "full_solver": None}
    w = ob.witness
    if w is None and getattr(spec, "scenario", False):
        w = {"small": True}
    if w is not None and spec.replay_kind and not w.get("too_large") and "witness_error" not in w:
        kind = w.get("replay_kind", spec.replay_kind)
        key = (kind, json.dumps(w, sort_keys=True, default=str), spec.python)
        if getattr(spec, "scenario", False) and key in _SCENARIO_CACHE:
            r = _SCENARIO_CACHE[key]
        else:
            r = native_replay(kind, w, spec.python)
            _SCENARIO_CACHE[key] = r
        out["replay"] = r
        if r.get("reproduced"):
            ob.verdict = "refuted"
            return out
    if ob.formulas is not None:
        res = forked(lambda: _full_solve(ob, spec), 45)
        if res is None:
            out["full_solver"] = {"result": "killed after 45s (z3 ignored its timeout)"}
            ob.verdict = "undecided"
            ob.note = "candidate counter-model not reproduced natively; complete solver run killed after 45s"
        else:
            out.update(res["out"])
            ob.verdict = res["verdict"]
            if res.get("note"):
                ob.note = res["note"]
            if res.get("witness") is not None:
                ob.witness = res["witness"]
    return out


def forked(fn, seconds):
    """Run fn() in a forked child with a hard wall-clock limit; returns its
    JSON-able result or None when it had to be killed."""
    import pickle
    import signal
    r, w = os.pipe()
    pid = os.fork()
    if pid == 0:
        code = 0
        try:
            os.close(r)
            data = pickle.dumps(fn())
            with os.fdopen(w, "wb") as fh:
                fh.write(data)
        except BaseException:
            code = 1
        os._exit(code)
    os.close(w)
    import select
    buf = b""
    deadline = time.time() + seconds
    with os.fdopen(r, "rb") as fh:
        while True:
            left = deadline - time.time()
            if left <= 0:
                break
            rl, _, _ = select.select([fh], [], [], left)
            if not rl:
                break
            chunk = os.read(fh.fileno(), 1 << 16)
            if not chunk:
                break
            buf += chunk
    try:
        os.kill(pid, signal.SIGKILL)
    except ProcessLookupError:
        pass
    os.waitpid(pid, 0)
    if not buf:
        return None
    try:
        return pickle.loads(buf)
    except Exception:
        return None


def _full_solve(ob, spec):
    import z3
    out = {}
    res = {"out": out, "verdict": ob.verdict, "note": ob.note, "witness": None}
    assumed, goal = ob.formulas
    s = z3.Solver()
    s.set("timeout", 30000)
    s.add(assumed)
    s.add(z3.Not(goal))
    t0 = time.time()
    r = s.check()
    out["full_solver"] = {"result": str(r), "seconds": round(time.time() - t0, 2)}
    if r == z3.sat and ob.witness_fn is not None and spec.replay_kind:
        m = s.model()
        for bound in (2, 4):
            if not ob.minimize:
                break
            s.push()
            for t in ob.minimize:
                s.add(t <= bound)
            s.set("timeout", 5000)
            if s.check() == z3.sat:
                m = s.model()
                s.pop()
                break
            s.pop()
        try:
            w2 = ob.witness_fn(m)
        except Exception as e:
            w2 = {"witness_error": repr(e)}
        if w2 and "witness_error" not in w2 and not w2.get("too_large"):
            r2 = native_replay(w2.get("replay_kind", spec.replay_kind), w2, spec.python)
            out["replay_full_model"] = r2
            if r2.get("reproduced"):
                res["witness"] = w2
                out["replay"] = r2
    if r == z3.unsat:
        res["verdict"] = "discharged"
        res["note"] = (ob.note or "") + " [discharged by z3 with MBQI after an E-matching candidate]"
    elif r == z3.sat:
        res["verdict"] = "refuted"
    else:
        res["verdict"] = "undecided"
        res["note"] = "candidate counter-model not reproduced natively and complete solver run: %s" % s.reason_unknown()
    return res


def run_task(spec, partial_path=None):
    """Worker entry point.  Results are written incrementally (after every path) to
    `partial_path`, so that a task killed at its hard limit keeps what it found."""
    sys.path.insert(0, VERIF)
    from pyvc.prover import Explorer
    from pyvc import smt
    import pickle
    t0 = time.time()
    res = {"task": spec.name, "obligations": [], "covers": [], "out_of_reach": [], "errors": [],
           "paths": 0, "functions": {}, "queries": {}, "canaries": []}
    state = {"done": 0, "full_runs": {}}

    def flush(e):
        full_runs = state["full_runs"]
        for ob in e.obligations[state["done"]:]:
            d = ob.to_json()
            if ob.verdict != "discharged":
                d["witness"] = ob.witness
                # the complete-solver confirmation is expensive: once per obligation name, at most 6 per task
                key = re.sub(r"\[[^\]]*\]", "[]", ob.name)
                if key in full_runs or len(full_runs) >= 6:
                    ob.formulas = None
                    prev = full_runs.get(key)
                else:
                    prev = None
                d["confirm"] = confirm(ob, spec)
                if ob.formulas is None and ob.verdict != "refuted":
                    ob.verdict = prev if prev else "undecided"
                    ob.note = "same obligation on another path; verdict of its first instance"
                full_runs.setdefault(key, ob.verdict)
                d["witness"] = ob.witness
                d["verdict"] = ob.verdict
                d["note"] = ob.note
                ob.formulas = None
            res["obligations"].append(d)
        state["done"] = len(e.obligations)
        res["covers"] = e.covers
        res["canaries"] = e.canaries
        res["out_of_reach"] = e.out_of_reach
        res["errors"] = e.errors
        res["paths"] = e.paths
        res["queries"] = smt.STATS.summary()
        res["seconds"] = round(time.time() - t0, 3)
        if partial_path:
            with open(partial_path + ".tmp", "wb") as fh:
                pickle.dump(res, fh)
            os.replace(partial_path + ".tmp", partial_path)
    try:
        mod = importlib.import_module(spec.module)
        task = getattr(mod, spec.factory)(*spec.args)
        e = Explorer(spec.name, task, REPO, timeout_ms=spec.timeout_ms)
        e.spec = spec
        e.on_path = flush
        e.run()
        flush(e)
        res["path_outcomes"] = e.path_outcomes
    except Exception as ex:
        res["errors"].append({"task": spec.name, "error": repr(ex), "trace": traceback.format_exc()})
    res["seconds"] = round(time.time() - t0, 3)
    res["complete"] = True
    return res


def _task_child(spec, path):
    import pickle
    res = run_task(spec, path)
    with open(path + ".tmp", "wb") as fh:
        pickle.dump(res, fh)
    os.replace(path + ".tmp", path)


def run_tasks(specs, workers=None, hard_limit=int(os.environ.get('PYVC_TASK_LIMIT', '420'))):
    """Run tasks in child processes (at most `workers` at a time) with a hard
    wall-clock limit each: a solver that ignores its timeout cannot hang the check."""
    import multiprocessing as mp
    import pickle
    import tempfile
    workers = workers or 16
    if os.environ.get("PYVC_SERIAL"):
        return [run_task(s) for s in specs]
    tmp = tempfile.mkdtemp(prefix="pyvc-")
    ctx = mp.get_context("fork")
    pending = list(enumerate(specs))
    running = {}
    results = [None] * len(specs)
    try:
        while pending or running:
            while pending and len(running) < workers:
                k, sp = pending.pop(0)
                path = os.path.join(tmp, "r%d.pkl" % k)
                p = ctx.Process(target=_task_child, args=(sp, path))
                p.start()
                running[k] = (p, path, time.time(), sp)
            time.sleep(0.05)
            for k in list(running):
                p, path, t0, sp = running[k]
                if not p.is_alive():
                    p.join()
                    try:
                        with open(path, "rb") as fh:
                            results[k] = pickle.load(fh)
                    except Exception as ex:
                        results[k] = {"task": sp.name, "obligations": [], "covers": [], "out_of_reach": [], "paths": 0,
                                      "errors": [{"task": sp.name, "error": "worker died without a result (exit %s): %r" % (p.exitcode, ex)}]}
                    del running[k]
                elif time.time() - t0 > hard_limit:
                    p.kill()
                    p.join()
                    try:
                        with open(path, "rb") as fh:
                            results[k] = pickle.load(fh)       # what it had found so far
                    except Exception:
                        results[k] = {"task": sp.name, "obligations": [], "covers": [], "paths": 0, "errors": [], "out_of_reach": []}
                    results[k]["out_of_reach"] = list(results[k].get("out_of_reach", [])) + [
                        {"task": sp.name, "what": "task stopped at the hard limit of %ds (partial results kept)" % hard_limit}]
                    del running[k]
    finally:
        import shutil
        shutil.rmtree(tmp, ignore_errors=True)
    return results


def props_of(name):
    head = name.split("|", 1)[0] if "|" in name else ""
    return [p for p in head.split(",") if p]


def sha_of_function(relpath, qualname):
    """sha256 of the extracted source text of a function (for the evidence)."""
    import ast
    p = os.path.join(REPO, relpath)
    try:
        src = open(p).read()
        tree = ast.parse(src)
    except Exception:
        return None
    parts = qualname.split(".")

    def find(body, parts):
        for n in body:
            if isinstance(n, (ast.FunctionDef, ast.AsyncFunctionDef, ast.ClassDef)) and n.name == parts[0]:
                if len(parts) == 1:
                    return n
                return find(n.body, parts[1:])
        return None
    n = find(tree.body, parts)
    if n is None:
        return None
    seg = ast.get_source_segment(src, n) or ""
    return hashlib.sha256(seg.encode()).hexdigest()[:16]


def load_known_findings():
    p = os.path.join(VERIF, "known_findings.json")
    if not os.path.exists(p):
        return []
    return json.load(open(p)).get("findings", [])


def finding_matches(f, prop, ob):
    if f.get("status") != "known" or f.get("property") != prop:
        return False
    if not re.search(f["obligation"], ob["name"]):
        return False
    wc = f.get("witness_class")
    if wc:
        w = ob.get("witness") or {}
        for k, v in wc.items():
            if isinstance(v, list):
                if w.get(k) not in v:
                    return False
            elif w.get(k) != v:
                return False
    return True


class Check:
    """One property check: collects task results, lemma results and bounded
    stand-ins; decides the exit code; writes evidence."""

    def __init__(self, prop, tier="quick", seed=0, level="proof"):
        self.prop = prop
        self.tier = tier
        self.seed = seed
        self.level = level
        self.t0 = time.time()
        self.obligations = []
        self.covers = []
        self.out_of_reach = []
        self.errors = []
        self.functions = []          # (relpath, qualname, role)
        self.trusted_base = []
        self.assumptions = []
        self.standins = []
        self.assumption_samples = []
        self.canaries = []
        self.task_summaries = []
        self.queries = {}
        self.min_obligations = 1
        self.require_canary = True
        self.notes = []
        self.extraction_drops = ["type annotations", "docstrings"]

    def add_results(self, results, only_prop=True):
        for r in results:
            self.task_summaries.append({"task": r["task"], "paths": r["paths"], "seconds": r.get("seconds"),
                                        "obligations": len(r["obligations"])})
            for ob in r["obligations"]:
                ps = props_of(ob["name"])
                if only_prop and ps and self.prop not in ps:
                    continue
                ob["task"] = r["task"]
                self.obligations.append(ob)
            for c in r["covers"]:
                self.covers.append(c)
            for c in r.get("canaries", []):
                ps = props_of(c["name"])
                if not ps or self.prop in ps:
                    self.canaries.append(c)
            self.out_of_reach.extend(r["out_of_reach"])
            self.errors.extend(r["errors"])
            for be, d in r.get("queries", {}).items():
                q = self.queries.setdefault(be, {"queries": 0, "unsat": 0, "sat": 0, "unknown": 0, "seconds": 0.0})
                for k in q:
                    q[k] = round(q[k] + d.get(k, 0), 4)

    def add_obligation(self, name, verdict, seconds=0.0, backend="z3", note=None, witness=None, confirm=None, task="lemma"):
        self.obligations.append({"name": name, "verdict": verdict, "seconds": round(seconds, 4), "backend": backend,
                                 "note": note, "witness": witness, "confirm": confirm, "task": task, "path": ""})

    def function(self, relpath, qualname, role="under contract"):
        self.functions.append({"file": relpath, "function": qualname, "role": role,
                               "sha256_16": sha_of_function(relpath, qualname)})

    def standin_on_out_of_reach(self, name, kind, params, python=PY_NATIVE, bound_text="", always=False, timeout=300):
        """Bounded stand-in (labelled bounded, never counted as proved) for functions the
        deductive engine could not reach on this tree: run the native enumeration `kind`."""
        if not (self.out_of_reach or always or self.tier == "thorough"):
            return
        t0 = time.time()
        r = native_replay(kind, params, python, timeout=timeout)
        if "failures" not in r and "reproduced" in r and "replay harness" not in str(r.get("detail")):
            # a scenario oracle without a failure list: one failure when it reproduced a violation
            r["failures"] = [{"detail": r.get("detail"), "reproduced": True, "witness": dict(params, replay_kind=kind)}] if r["reproduced"] else []
        fails = r.get("failures", [])
        if r.get("hang"):
            fails = [{"witness": params, "detail": r["detail"], "reproduced": True}]
        self.standins.append({"name": name, "bound": bound_text, "cases": r.get("cases"), "seconds": round(time.time() - t0, 1),
                              "why": ("a task is out of the deductive engine's reach on this tree: %s" % self.out_of_reach[0]["what"]) if self.out_of_reach
                              else ("runs on every check (bounded, never counted as proved)" if always else "thorough tier"),
                              "failures": fails, "error": r.get("detail") if "failures" not in r and not r.get("hang") else None})
        if "failures" in r:
            # the oracle ran to completion; failures it reported become VIOLATIONs (or KNOWN-FINDINGs) in finish()
            self.standin_ran = True
        if "failures" in r and not fails:
            self.standin_passed = True

    def finish(self):
        prop = self.prop
        known = load_known_findings()
        violations, undecided, known_hits = [], [], []
        discharged = 0
        for ob in self.obligations:
            if ob["verdict"] == "discharged":
                discharged += 1
            elif ob["verdict"] == "refuted":
                hit = [f for f in known if finding_matches(f, prop, ob)]
                if hit:
                    known_hits.append((hit[0], ob))
                else:
                    violations.append(ob)
            else:
                undecided.append(ob)
        for s in self.standins:
            for fail in s.get("failures", []):
                ob = {"name": "%s|standin/%s" % (prop, s["name"]), "verdict": "refuted", "witness": fail.get("witness"),
                      "confirm": {"replay": fail}, "note": "bounded stand-in failure", "task": "standin"}
                hit = [f for f in known if finding_matches(f, prop, ob)]
                if hit:
                    known_hits.append((hit[0], ob))
                else:
                    violations.append(ob)
        groups = {}
        for c in self.canaries:
            groups.setdefault(c["name"], []).append(c)
        # a canary (deliberately false claim) must be unprovable on at least one path
        canary_bad = [{"name": k, "ok": False} for k, v in groups.items() if not any(c["ok"] for c in v)]
        if self.require_canary and not self.canaries:
            canary_bad = [{"name": "no canary obligation was generated", "ok": False}]
        n_obl = len(self.obligations)
        code = 0
        lines = []
        os.makedirs(os.path.join(VERIF, "replays"), exist_ok=True)
        for old in os.listdir(os.path.join(VERIF, "replays")):
            if old.startswith(prop + "-"):
                os.remove(os.path.join(VERIF, "replays", old))
        seen_known = set()
        for f, ob in known_hits:
            if f["id"] in seen_known:
                continue
            seen_known.add(f["id"])
            lines.append("KNOWN-FINDING: property=%s %s" % (prop, f["what"]))
        # stale known findings (entry no longer fails) are reported, not fatal
        for f in known:
            if f.get("status") == "known" and f.get("property") == prop and f["id"] not in seen_known:
                self.notes.append("known finding %s did not occur on this run (stale or masked)" % f["id"])
        seen_v = set()
        for n, ob in enumerate(violations):
            key = re.sub(r"\[[^\]]*\]", "[]", ob["name"])
            rp = os.path.join(VERIF, "replays", "%s-%d.json" % (prop, n))
            rep = (ob.get("confirm") or {}).get("replay")
            reproduced = bool(rep and rep.get("reproduced"))
            with open(rp, "w") as fh:
                json.dump({"property": prop, "failed_obligation": ob["name"], "task": ob.get("task"),
                           "verifier_output": {"verdict": ob["verdict"], "model": ob.get("model"), "note": ob.get("note"),
                                               "backend": ob.get("backend"), "confirm": ob.get("confirm")},
                           "witness": ob.get("witness"), "native_replay": rep,
                           "replay_kind": (ob.get("witness") or {}).get("replay_kind") or ob.get("replay_kind"),
                           "reproduced_natively": reproduced}, fh, indent=1, default=str)
            if key in seen_v and len(seen_v) >= 8:
                continue
            seen_v.add(key)
            lines.append("VIOLATION property=%s replay=%s%s" % (prop, rp, "" if reproduced else " no-failing-input-found"))
            code = 1
        dead_covers = [c for c in self.covers if c[1] == "unsat"]
        if code == 0:
            if self.errors or canary_bad or dead_covers or (n_obl < self.min_obligations and not self.out_of_reach):
                code = 3
            elif undecided:
                code = 2
            elif self.out_of_reach:
                # functions out of the engine's reach on this tree: decided by the bounded stand-in if one ran
                # (reaching this point means every failure a stand-in reported is a listed known finding)
                code = 0 if getattr(self, "standin_ran", False) else 2
                if code == 0:
                    print("NOTE: %d task(s) out of the deductive engine's reach on this tree; property decided by the bounded stand-in only (not a proof)" % len(self.out_of_reach))
        wall = time.time() - self.t0
        ev = {
            "property_id": prop, "tier": self.tier, "seed": self.seed, "level": self.level,
            "coverage": {
                "obligations": n_obl, "discharged": discharged,
                "checker_cmd": "./check %s --tier %s" % (prop, self.tier),
                "trusted_base": self.trusted_base,
                "functions_under_contract": self.functions,
                "extraction_drops": self.extraction_drops,
                "back_ends": self.queries,
                "samples": [{"obligation": o["name"], "verdict": o["verdict"], "seconds": o.get("seconds"), "path": o.get("path")}
                            for o in self.obligations[:12]],
                "refuted": [o["name"] for o in violations][:50],
                "undecided": [{"name": o["name"], "note": o.get("note")} for o in undecided][:50],
                "known_findings_hit": [f["id"] for f, _ in known_hits],
                "covers": {"total": len(self.covers), "reachable_or_not_refuted": sum(1 for c in self.covers if c[1] != "unsat"),
                           "unreachable": [c for c in self.covers if c[1] == "unsat"][:20]},
                "canaries": {"total": len(groups), "refuted_as_expected": len(groups) - len(canary_bad),
                             "samples": self.canaries[:3]},
                "out_of_reach": self.out_of_reach[:30],
                "bounded_standins": [{k: v for k, v in s.items() if k != "failures"} | {"failures": len(s.get("failures", []))} for s in self.standins],
                "assumption_samples": self.assumption_samples,
                "tasks": self.task_summaries,
                "errors": self.errors[:10],
                "notes": self.notes,
                "exit_code": code,
            },
            "assumptions": list(self.assumptions) + [t for t in self.trusted_base if t not in self.assumptions],
            "wall_s": round(wall, 2),
            "violations": len(violations),
        }
        if self.level != "proof":
            ev["coverage"]["explanation"] = getattr(self, "explanation", "see DESIGN.md")
        # self-test runs against deliberately broken trees keep their evidence out of the committed directory
        evdir = os.environ.get("PYVC_EVIDENCE_DIR") or os.path.join(VERIF, "evidence")
        os.makedirs(evdir, exist_ok=True)
        with open(os.path.join(evdir, "%s.json" % prop), "w") as fh:
            json.dump(ev, fh, indent=1, default=str)
        for ln in lines:
            print(ln)
        print("%s tier=%s obligations=%d discharged=%d refuted=%d known=%d undecided=%d out_of_reach=%d errors=%d wall=%.1fs exit=%d"
              % (prop, self.tier, n_obl, discharged, len(violations), len(known_hits), len(undecided), len(self.out_of_reach),
                 len(self.errors), wall, code))
        if code in (2, 3):
            for o in undecided[:10]:
                print("  undecided:", o["name"], "--", o.get("note"))
            for o in self.out_of_reach[:10]:
                print("  out of reach:", o)
            for o in self.errors[:5]:
                print("  error:", o.get("error"), (o.get("trace") or "")[-1500:])
            for c in canary_bad:
                print("  canary not refuted:", c)
        return code
