"""Python builtins for the PyVC interpreter."""
import z3
from . import smt
from .smt import (Val, VNone, VBool, VInt, VStr, VRef, VReal, VBytes, is_none, is_bool,
                  is_int, is_str, is_ref, is_real, is_bytes, get_i, get_s, get_rg, get_ix, S)
from .values import *
from .interp import IRaise, OutOfReach, MISSING
from . import builtins_model as bm

cls_of = z3.Function("cls_of", Val, z3.IntSort())

EXC_TREE = {
    "BaseException": None,
    "Exception": "BaseException",
    "KeyboardInterrupt": "BaseException",
    "GeneratorExit": "BaseException",
    "SystemExit": "BaseException",
    "ArithmeticError": "Exception",
    "ZeroDivisionError": "ArithmeticError",
    "LookupError": "Exception",
    "KeyError": "LookupError",
    "IndexError": "LookupError",
    "ValueError": "Exception",
    "UnicodeError": "ValueError",
    "UnicodeDecodeError": "UnicodeError",
    "UnicodeEncodeError": "UnicodeError",
    "TypeError": "Exception",
    "AttributeError": "Exception",
    "AssertionError": "Exception",
    "NameError": "Exception",
    "RuntimeError": "Exception",
    "NotImplementedError": "RuntimeError",
    "StopIteration": "Exception",
    "OSError": "Exception",
    "ConnectionError": "OSError",
    "ConnectionResetError": "ConnectionError",
    "BrokenPipeError": "ConnectionError",
    "EOFError": "Exception",
    "SyntaxError": "Exception",
    "TimeoutError": "OSError",
}


def build(world):
    B = {}
    obj = IClass("object", [], {}, None, "object")
    obj.mro = [obj]
    B["object"] = obj
    obj.attrs["__init__"] = Native("object.__init__", lambda I, a, k: None)

    def mk(name, base=None, **kw):
        c = IClass(name, [base or obj], {}, None, name)
        for k, v in kw.items():
            setattr(c, k, v)
        B[name] = c
        return c

    # exceptions
    def exc_init(I, a, k):
        a[0].fields["args"] = tuple(a[1:])
    exc_init_n = Native("BaseException.__init__", exc_init)
    for name, base in EXC_TREE.items():
        c = mk(name, B[base] if base else None)
        if base is None:
            c.attrs["__init__"] = exc_init_n

    # builtin types as classes
    def prim(name, new):
        c = mk(name)
        c.native_new = new
        return c

    def str_new(I, cls, a, k):
        if not a:
            return ""
        return bm.py_str_of(I, a[0])
    prim("str", str_new)

    def int_new(I, cls, a, k):
        if not a:
            return 0
        v = a[0]
        if isinstance(v, (int, float, str, bool)) and all(not isinstance(x, Sym) for x in a):
            try:
                return int(*a)
            except (ValueError, TypeError) as e:
                I.raise_builtin(type(e).__name__, str(e))
        if isinstance(v, Sym):
            kd = I.kind(v)
            if kd == "int":
                return v
            if kd == "bool":
                return Sym(VInt(z3.If(smt.get_b(v.term), 1, 0)))
            if kd == "str":
                from .numparse import int_of_str
                return int_of_str(I, v)
            if kd == "none":
                I.raise_builtin("TypeError", "int() argument must be a string or a number, not 'NoneType'")
            if kd == "real":
                x = smt.get_x(v.term)       # int(float) truncates toward zero (reals stand for floats: no inf / nan)
                return Sym(VInt(z3.If(x >= 0, z3.ToInt(x), -z3.ToInt(-x))))
            raise OutOfReach("int() of symbolic %s" % kd)
        I.raise_builtin("TypeError", "int() argument")
    prim("int", int_new)

    def float_new(I, cls, a, k):
        v = a[0] if a else 0.0
        if isinstance(v, (int, float, str, bool)):
            try:
                return float(v)
            except (ValueError, TypeError) as e:
                I.raise_builtin(type(e).__name__, str(e))
        if isinstance(v, Sym):
            from .numparse import float_of
            return float_of(I, v)
        I.raise_builtin("TypeError", "float() argument")
    prim("float", float_new)

    def bool_new(I, cls, a, k):
        if not a:
            return False
        v = a[0]
        if isinstance(v, Sym):
            return bm.boolval(smt.truthy(v.term))
        return I.truth(v)
    prim("bool", bool_new)

    def bytes_new(I, cls, a, k):
        if not a:
            return b""
        if isinstance(a[0], (bytes, int)):
            return bytes(a[0])
        raise OutOfReach("bytes()")
    prim("bytes", bytes_new)

    def tuple_new(I, cls, a, k):
        if not a:
            return ()
        if isinstance(a[0], (SList, RSeq, MapSeq)) or getattr(a[0], "pyvc_sequence_spec", False):
            return a[0]   # immutable view: reuse (read-only uses)
        return tuple(I.iterate(a[0]))
    prim("tuple", tuple_new)

    def list_new(I, cls, a, k):
        if not a:
            return IList()
        if isinstance(a[0], SList):
            return SList(a[0].length, a[0].elt, a[0].iface, a[0].label + "(copy)")      # z3 terms are values: a true snapshot
        if isinstance(a[0], RSeq) and a[0].kind == "list":
            # a copy of a list of region objects: same objects, in the same order (the region's length is the copy's length as long as
            # nothing is appended to / removed from the original while the copy is in use -- the callers' stated assumption)
            return RSeq(a[0].region, a[0].keys, "list", a[0].label + "(copy)")
        if isinstance(a[0], (SList, RSeq)):
            raise OutOfReach("list() of symbolic collection")
        return IList(I.iterate(a[0]))
    prim("list", list_new)

    def dict_new(I, cls, a, k):
        d = IDict()
        if a:
            src = a[0]
            if isinstance(src, IDict):
                for kk, vv in src.d.items():
                    d.d[kk] = vv
            else:
                for pair in I.iterate(src):
                    kk, vv = I.iterate(pair)
                    I.setitem(d, kk, vv)
        for kk, vv in k.items():
            I.setitem(d, kk, vv)
        return d
    prim("dict", dict_new)

    def set_new(I, cls, a, k):
        return ISet(I.iterate(a[0]) if a else [])
    prim("set", set_new)
    mk("NoneType")
    mk("function")

    def type_new(I, cls, a, k):
        if len(a) == 1:
            return type_of(I, a[0])
        name, bases, dct = a
        return I.build_class(name, list(bases), dict(dct.d), None, name, None)
    t = prim("type", type_new)
    t.native_subclassable = True

    def type___new__(I, a, k):
        meta, name, bases, dct = a
        module = I.cur_module()
        c = I.build_class(name, list(bases), dict(dct.d), module,
                          dct.d.get("__qualname__", name), meta if meta is not t else None)
        return c
    t.attrs["__new__"] = IStaticMethod(Native("type.__new__", type___new__))

    def type_of(I, v):
        if isinstance(v, (IObject, RObj)):
            return v.cls
        if isinstance(v, IClass):
            return v.metaclass or t
        if v is None:
            return B["NoneType"]
        for py, nm in ((bool, "bool"), (int, "int"), (float, "float"), (str, "str"), (bytes, "bytes"), (tuple, "tuple")):
            if isinstance(v, py):
                return B[nm]
        if isinstance(v, IList):
            return B["list"]
        if isinstance(v, IDict):
            return B["dict"]
        if isinstance(v, (IFunction, IBound, Native)):
            return B["function"]
        if isinstance(v, Sym):
            kd = I.kind(v)
            m = {"none": "NoneType", "bool": "bool", "int": "int", "str": "str", "bytes": "bytes", "real": "float"}
            if kd in m:
                return B[m[kd]]
        raise OutOfReach("type() of %r" % (v,))
    world.type_of = type_of

    def fn(name):
        def deco(f):
            B[name] = Native(name, f)
            return f
        return deco

    def isinstance_one(I, v, c):
        """-> bool or BoolRef"""
        if isinstance(c, tuple):
            rs = [isinstance_one(I, v, x) for x in c]
            if any(r is True for r in rs):
                return True
            rs = [r for r in rs if r is not False]
            return S(z3.Or(*rs)) if rs else False
        if not isinstance(c, IClass):
            if getattr(c, "typing_generic", False):
                raise OutOfReach("isinstance against typing construct")
            I.raise_builtin("TypeError", "isinstance() arg 2 must be a type")
        if isinstance(v, Sym):
            tt = v.term
            rec = {"str": is_str, "int": lambda x: z3.Or(is_int(x), is_bool(x)), "bool": is_bool, "float": is_real,
                   "bytes": is_bytes, "NoneType": is_none}.get(c.name) if c.module is None else None
            if rec is not None:
                return S(rec(tt))
            if c is B["object"]:
                return True
            if c.module is None and c.name in ("list", "tuple", "dict", "set"):
                return False
            if v.iface is not None and hasattr(v.iface, "isinstance"):
                r = v.iface.isinstance(I, v, c)
                if r is not None:
                    return r
            subs = all_subclasses(c)
            return S(z3.And(is_ref(tt), z3.Or(*[cls_of(tt) == x.cid for x in subs])))
        if isinstance(v, (IObject, RObj)):
            return v.cls.issubclass(c)
        if isinstance(v, IClass):
            return (v.metaclass or t).issubclass(c)
        if c is B["object"]:
            return True
        try:
            return type_of(I, v).issubclass(c)
        except OutOfReach:
            return False

    def all_subclasses(c):
        out = [c]
        for s in c.subclasses:
            for x in all_subclasses(s):
                if x not in out:
                    out.append(x)
        return out
    world.all_subclasses = all_subclasses

    @fn("isinstance")
    def _isinstance(I, a, k):
        return bm.boolval(isinstance_one(I, a[0], a[1]))

    @fn("issubclass")
    def _issubclass(I, a, k):
        c, d = a
        ds = d if isinstance(d, tuple) else (d,)
        if not isinstance(c, IClass):
            I.raise_builtin("TypeError", "issubclass() arg 1 must be a class")
        return any(c.issubclass(x) for x in ds)

    @fn("len")
    def _len(I, a, k):
        v = a[0]
        if isinstance(v, (str, bytes, tuple)):
            return len(v)
        if isinstance(v, IList):
            return len(v.items)
        if isinstance(v, IDict):
            return len(v.d)
        if isinstance(v, ISet):
            return len(v.items)
        if isinstance(v, SList):
            return Sym(VInt(v.length))
        if isinstance(v, RSeq):
            return Sym(VInt(v.region.length))
        if isinstance(v, Sym):
            kd = I.kind(v)
            if kd == "str":
                return Sym(VInt(S(z3.Length(get_s(v.term)))))
            if kd == "bytes":
                return Sym(VInt(S(z3.Length(smt.get_y(v.term)))))
            I.raise_builtin("TypeError", "object of type '%s' has no len()" % kd)
        if isinstance(v, (IObject, RObj)):
            f, _ = v.cls.lookup("__len__")
            if f is not None:
                return I.call(IBound(f, v), [], {})
        if hasattr(v, "pyvc_len"):
            return v.pyvc_len(I)
        I.raise_builtin("TypeError", "object has no len()")

    @fn("getattr")
    def _getattr(I, a, k):
        if not isinstance(a[1], str):
            raise OutOfReach("getattr with symbolic name")
        return I.getattr(a[0], a[1], a[2] if len(a) > 2 else MISSING)

    @fn("setattr")
    def _setattr(I, a, k):
        I.setattr(a[0], a[1], a[2])

    @fn("hasattr")
    def _hasattr(I, a, k):
        try:
            r = I.getattr(a[0], a[1], MISSING_SENTINEL)
        except IRaise as e:
            if e.value.cls.issubclass(B["AttributeError"]):
                return False
            raise
        return r is not MISSING_SENTINEL

    MISSING_SENTINEL = Opaque("missing")

    @fn("callable")
    def _callable(I, a, k):
        v = a[0]
        if isinstance(v, (IFunction, IBound, Native, IClass)):
            return True
        if isinstance(v, (IObject, RObj)):
            return v.cls.lookup("__call__")[0] is not None
        if isinstance(v, Sym) and v.iface is not None:
            return getattr(v.iface, "callable", False)
        return False

    @fn("dir")
    def _dir(I, a, k):
        v = a[0]
        names = set()
        if isinstance(v, IObject):
            names |= set(v.fields)
            for c in v.cls.mro:
                names |= set(c.attrs)
        elif isinstance(v, IClass):
            for c in v.mro:
                names |= set(c.attrs)
        else:
            raise OutOfReach("dir()")
        return IList(sorted(names))

    @fn("sorted")
    def _sorted(I, a, k):
        items = I.iterate(a[0])
        if k:
            raise OutOfReach("sorted with key")

        def sk(x):
            if isinstance(x, tuple):
                if not isinstance(x[0], (str, int)):
                    raise OutOfReach("sorted on symbolic keys")
                return x[0]
            if isinstance(x, (str, int, float)):
                return x
            raise OutOfReach("sorted on symbolic items")
        keys = [sk(x) for x in items]
        if len(set(keys)) != len(keys):
            raise OutOfReach("sorted with ties on first component")
        return IList([x for _, x in sorted(zip(keys, items), key=lambda p: p[0])])

    @fn("min")
    def _min(I, a, k):
        return minmax(I, a, True)

    @fn("max")
    def _max(I, a, k):
        return minmax(I, a, False)

    def minmax(I, a, is_min):
        items = list(a) if len(a) > 1 else I.iterate(a[0])
        if all(isinstance(x, (int, float)) for x in items):
            return min(items) if is_min else max(items)
        cur = items[0]
        for x in items[1:]:
            ka, kb = bm.num_kind(I, cur), bm.num_kind(I, x)
            if ka is None or kb is None:
                I.raise_builtin("TypeError", "'<' not supported between instances")
            if ka != "int" or kb != "int":
                raise OutOfReach("min/max on reals")
            ta, tb = bm.num_term(I, cur, ka), bm.num_term(I, x, kb)
            cur = Sym(VInt(S(z3.If((tb < ta) if is_min else (tb > ta), tb, ta))))
        return cur

    @fn("sum")
    def _sum(I, a, k):
        items = I.iterate(a[0])
        tot = a[1] if len(a) > 1 else 0
        import ast as _ast
        for x in items:
            tot = I.binop(_ast.Add(), tot, x)
        return tot

    @fn("any")
    def _any(I, a, k):
        for x in I.iterate(a[0]):
            if I.truth(x):
                return True
        return False

    @fn("all")
    def _all(I, a, k):
        for x in I.iterate(a[0]):
            if not I.truth(x):
                return False
        return True

    @fn("filter")
    def _filter(I, a, k):
        f, it = a
        out = []
        for x in I.iterate(it):
            r = x if f is None else I.call(f, [x], {})
            if I.truth(r):
                out.append(x)
        return IList(out)

    @fn("map")
    def _map(I, a, k):
        return IList([I.call(a[0], [x], {}) for x in I.iterate(a[1])])

    @fn("range")
    def _range(I, a, k):
        if any(isinstance(x, Sym) for x in a):
            raise OutOfReach("symbolic range")
        return IList(list(range(*a)))

    @fn("enumerate")
    def _enumerate(I, a, k):
        return IList([(i, x) for i, x in enumerate(I.iterate(a[0]))])

    @fn("zip")
    def _zip(I, a, k):
        return IList(list(zip(*[I.iterate(x) for x in a])))

    @fn("reversed")
    def _reversed(I, a, k):
        return IList(list(reversed(I.iterate(a[0]))))

    @fn("id")
    def _id(I, a, k):
        return Sym(VInt(smt.get_ix(I.to_term(a[0]))))

    @fn("repr")
    def _repr(I, a, k):
        if bm.is_prim(a[0]):
            return repr(a[0])
        return Sym(VStr(smt.py_str(I.to_term(a[0]))))

    @fn("print")
    def _print(I, a, k):
        return None

    @fn("abs")
    def _abs(I, a, k):
        if isinstance(a[0], (int, float)):
            return abs(a[0])
        if isinstance(a[0], Sym) and I.kind(a[0]) == "real":
            xr = smt.get_x(a[0].term)
            return Sym(smt.VReal(z3.If(xr < 0, -xr, xr)))
        x = I.as_int(a[0])
        return Sym(VInt(z3.If(x < 0, -x, x)))

    @fn("round")
    def _round(I, a, k):
        if all(isinstance(x, (int, float)) for x in a):
            return round(*a)
        raise OutOfReach("round symbolic")

    @fn("hash")
    def _hash(I, a, k):
        raise OutOfReach("hash()")

    @fn("iter")
    def _iter(I, a, k):
        return IList(I.iterate(a[0]))

    def property_new(I, cls, a, k):
        return IProperty(a[0] if a else k.get("fget"), a[1] if len(a) > 1 else k.get("fset"))
    prim("property", property_new)

    def classmethod_new(I, cls, a, k):
        return IClassMethod(a[0])
    prim("classmethod", classmethod_new)

    def staticmethod_new(I, cls, a, k):
        return IStaticMethod(a[0])
    prim("staticmethod", staticmethod_new)

    def super_new(I, cls, a, k):
        if len(a) == 2:
            return ISuper(a[0], a[1])
        raise OutOfReach("super() form")
    prim("super", super_new)

    from .stdlib_models import builtin_open
    B["open"] = Native("open", builtin_open)
    B["True"] = True
    B["False"] = False
    B["None"] = None
    B["NotImplemented"] = Opaque("NotImplemented")
    B["__debug__"] = True
    B["Ellipsis"] = None
    world.isinstance_one = isinstance_one
    world.cls_of = cls_of
    return B
