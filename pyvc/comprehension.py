"""Comprehensions over symbolic sequences.

Supported form: [elt for target in seq if cond...] with a side-effect-free
condition.  The result is a list of symbolic length `cnt` constrained by the
*filter-length lemma* (engine lemma, listed in the trusted base):
    0 <= cnt <= len(seq),   cnt == 0  <=>  forall j in range. not cond(j),
    cnt == len(seq)  <=>  forall j in range. cond(j)
The condition is evaluated once at a generic bound index j in term-building
mode (no forking).  Element values are left unconstrained unless the element
expression is itself needed (map_fn is kept for contracts that want it).
"""
import z3
from .interp import OutOfReach, MISSING
from .smt import Val, S, VBool
from . import smt
from .values import *


def symbolic_comprehension(I, node, gen, seq, env):
    h = getattr(I, "comprehension_hook", None)
    if h is not None:
        r = h(I, node, gen, seq, env)
        if r is not MISSING:
            return r
    if gen.is_async:
        raise OutOfReach("async comprehension", node)
    from .interp import Env
    n = seq.length if isinstance(seq, SList) else seq.region.length
    if not gen.ifs:
        return map_comprehension(I, node, gen, seq, env)
    j = I.fresh("cj", z3.IntSort())
    cenv = Env(parent=env)
    I.assign(gen.target, I.seq_at(seq, j), cenv)
    I.spec_mode += 1
    I.write_log_push()
    try:
        conds = []
        for c in gen.ifs:
            v = I.ev(c, cenv)
            conds.append(smt.truthy(I.to_term(v)) if isinstance(v, Sym) else z3.BoolVal(bool(I.truth(v))))
    finally:
        I.spec_mode -= 1
        wl = I.write_log_pop()
    if wl:
        raise OutOfReach("comprehension condition with side effects", node)
    p = S(z3.And(*conds)) if conds else z3.BoolVal(True)
    cnt = I.fresh("filter_len", z3.IntSort())
    P = I.prover
    rng = z3.And(j >= 0, j < n)
    P.assume(z3.And(cnt >= 0, cnt <= n))
    w = I.fresh("filter_wit", z3.IntSort())     # skolem: an element passing the filter, if any
    w2 = I.fresh("filter_cowit", z3.IntSort())  # skolem: an element failing it, if any
    P.assume(z3.Implies(cnt == 0, z3.ForAll([j], z3.Implies(rng, z3.Not(p)))))
    P.assume(z3.Implies(cnt != 0, z3.substitute(z3.And(rng, p), (j, w))))
    P.assume(z3.Implies(cnt == n, z3.ForAll([j], z3.Implies(rng, p))))
    P.assume(z3.Implies(cnt != n, z3.substitute(z3.And(rng, z3.Not(p)), (j, w2))))
    out = SList(cnt, I.fresh("filtered", z3.ArraySort(z3.IntSort(), Val)), getattr(seq, "iface", None), "filtered")
    out.filter_of = (seq, j, p)
    I.used_engine_lemmas = getattr(I, "used_engine_lemmas", set()) | {"filter-length"}
    return out


def map_comprehension(I, node, gen, seq, env):
    """[elt for target in seq] without filter: the element expression is
    evaluated once at a generic index (term-building mode, no forking, no
    side effects) -- list equality on such values is extensional."""
    from .interp import Env
    j = I.fresh("mj", z3.IntSort())
    cenv = Env(parent=env)
    I.assign(gen.target, I.seq_at(seq, j), cenv)
    I.spec_mode += 1
    I.write_log_push()
    n = seq.length if isinstance(seq, SList) else seq.region.length
    try:
        v = I.ev(node.elt, cenv)
    finally:
        I.spec_mode -= 1
        wl = I.write_log_pop()
    if wl:
        raise OutOfReach("comprehension element with side effects", node)
    return MapSeq(seq, j, v)
