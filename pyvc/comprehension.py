"""Comprehensions over symbolic sequences (filled in per use)."""
from .interp import OutOfReach, MISSING


def symbolic_comprehension(I, node, gen, seq, env):
    h = getattr(I, "comprehension_hook", None)
    if h is not None:
        r = h(I, node, gen, seq, env)
        if r is not MISSING:
            return r
    raise OutOfReach("comprehension over symbolic collection", node)
