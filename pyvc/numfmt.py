"""Formatting of symbolic numbers: `fmt % n`, f-string format specs and str(int).

ASSUMED contract of CPython's number formatting (trusted base): the text produced for
conversion d / f with given flags, width and precision lies in the printf output language
below, and denotes the correctly rounded decimal of the argument:
    |value_of(text) - x| <= 0.5 * 10**-precision,  value_of(text) * 10**precision is an integer,
    the sign of the text is the sign of the rounded value (a '-' iff x < 0 before rounding),
    zero padding (`0` flag / f-string `0W`) pads with digits, otherwise with blanks.
`value_of` is an uninterpreted function Str -> Real shared with float()/int() of such
texts (pyvc/numparse.py).
"""
import re
import z3
from .interp import OutOfReach
from .values import Sym
from .smt import VStr, VInt, VReal, get_s, get_i, get_x, S

StrS = z3.StringSort()
value_of = z3.Function("value_of", StrS, z3.RealSort())
fmt_real = z3.Function("fmt_real", z3.IntSort(), z3.RealSort(), StrS)    # (format id, x) -> text
fmt_int = z3.Function("fmt_int", z3.IntSort(), z3.IntSort(), StrS)
_FMT_IDS = {}

D = z3.Range("0", "9")


def fid(key):
    if key not in _FMT_IDS:
        _FMT_IDS[key] = len(_FMT_IDS) + 1
    return _FMT_IDS[key]


def parse_printf(fmt):
    m = re.fullmatch(r"%([-+ 0#]*)(\d*)(?:\.(\d+))?([dif])", fmt)
    if not m:
        return None
    flags, width, prec, conv = m.groups()
    return flags, int(width) if width else 0, (int(prec) if prec is not None else (6 if conv == "f" else 0)), conv


def parse_spec(spec):
    """f-string format spec: [0][width][.prec][d|f]"""
    m = re.fullmatch(r"(0?)(\d*)(?:\.(\d+))?([df]?)", spec)      # (alignment / sign options are not used by the repository)
    if not m:
        return None
    zero, width, prec, conv = m.groups()
    conv = conv or "d"
    return ("0" if zero else ""), int(width) if width else 0, (int(prec) if prec is not None else (6 if conv == "f" else 0)), conv


def core_language(flags, prec, conv):
    """printf output language of one conversion without blank padding (and without the blank of the ' ' flag)"""
    if "+" in flags:
        sign = z3.Union(z3.Re("+"), z3.Re("-"))
    else:
        sign = z3.Option(z3.Re("-"))
    body = z3.Plus(D)
    if conv == "f" and prec > 0:
        body = z3.Concat(body, z3.Re("."), z3.Concat(*([D] * prec)) if prec > 1 else D)
    elif conv == "f" and "#" in flags:
        body = z3.Concat(body, z3.Re("."))
    return z3.Concat(sign, body)


BLANKS = z3.Star(z3.Re(" "))
fmt_pad = z3.Function("fmt_pad", z3.IntSort(), z3.IntSort(), StrS)      # (format id, length) -> that many blanks


def blanks(I, key, n):
    """a string of n >= 0 blanks"""
    p = fmt_pad(z3.IntVal(fid(key)), n)
    I.prover.assume(z3.And(z3.InRe(p, BLANKS), z3.Length(p) == n))
    note(I, p, BLANKS)
    return p


def note(I, piece, lang):
    piece = S(piece)
    I.__dict__.setdefault("str_lang", {})[piece.get_id()] = (piece, lang)


def render(I, x_term, is_int, flags, width, prec, conv, key):
    """text for a symbolic number: [blanks] core [blanks]; returns Sym(str) and records the assumed facts.
    The core (sign and digits) is one piece whose regular language is recorded; padding blanks are separate pieces."""
    P = I.prover
    zero = "0" in flags and "-" not in flags
    if conv in ("d", "i"):
        if not is_int:
            xi = z3.ToInt(x_term)          # %d truncates a float toward zero; ToInt floors: equal for x >= 0
            xi = z3.If(x_term >= 0, xi, -z3.ToInt(-x_term))
        else:
            xi = x_term
        core = S(fmt_int(z3.IntVal(fid(key)), xi))
        P.assume(z3.InRe(core, core_language(flags, 0, "d")))
        P.assume(z3.And(value_of(core) == z3.ToReal(xi), z3.ToInt(value_of(core)) == xi))
        P.assume(z3.PrefixOf(z3.StringVal("-"), core) == (xi < 0))
        neg = xi < 0
        xr = z3.ToReal(xi)
    else:
        xr = z3.ToReal(x_term) if is_int else x_term
        core = S(fmt_real(z3.IntVal(fid(key)), xr))
        P.assume(z3.InRe(core, core_language(flags, prec, "f")))
        scale = 10 ** prec
        v = value_of(core)
        k = I.fresh("fmt_scaled", z3.IntSort())
        P.assume(z3.And(v * scale == z3.ToReal(k), v - xr <= z3.RealVal(1) / (2 * scale), xr - v <= z3.RealVal(1) / (2 * scale)))
        if prec == 0:
            P.assume(z3.ToInt(v) == k)
        P.assume(z3.PrefixOf(z3.StringVal("-"), core) == (xr < 0))      # (CPython prints "-0" for a negative value rounding to zero)
        neg = xr < 0
    annotate(I, core, xr, flags, width if zero else 0, prec, conv)
    from .numparse import float_ok, int_ok
    P.assume(float_ok(core))
    whole = conv in ("d", "i") or (prec == 0 and "#" not in flags)
    if whole:
        P.assume(int_ok(core))          # a digit string (no point): int() accepts it too
    pieces = [core]
    lead = None
    if " " in flags and "+" not in flags:
        if not P.fork(neg):       # the blank flag puts a blank where the sign of a non-negative number would be
            lead = z3.StringVal(" ")
            pieces = [lead, core]
    inner = z3.Length(core) + (1 if lead is not None else 0)
    if width:
        if zero:
            # zero padding goes between sign and digits: part of the core; its length is max(width, natural length)
            P.assume(inner >= width)
            ndig = width - (prec + 1 if (conv == "f" and (prec > 0 or "#" in flags)) else 0) - (1 if ("+" in flags or " " in flags) else 0)
            if ndig >= 1:
                P.assume(z3.Implies(z3.And(value_of(core) >= 0, value_of(core) < 10 ** ndig), inner == width))
        else:
            n = I.fresh("fmt_npad", z3.IntSort())
            P.assume(n == z3.If(inner >= width, 0, width - inner))
            pad = blanks(I, key, n)
            pieces = pieces + [pad] if "-" in flags else [pad] + pieces
    text = z3.Concat(*pieces) if len(pieces) > 1 else pieces[0]
    if len(pieces) > 1:
        # float()/int() ignore surrounding blanks
        P.assume(z3.And(value_of(text) == value_of(core), float_ok(text)))
        if whole:
            P.assume(int_ok(text))
    return Sym(VStr(text))


def entails(I, f):
    s, r = I.prover.solve([z3.Not(f)], 3000)
    return r == z3.unsat


def annotate(I, s, xr, flags, width, prec, conv):
    """Tightest regular language of the core text that the path condition determines (sign known? number of
    integer digits known for zero-padded fields?): recorded python-side so that re.match on a concatenation of
    such pieces is decided at the language level (pure regex queries).  `width` is non-zero only for zero padding."""
    plus = "+" in flags
    if entails(I, xr >= 0):
        sign = z3.Re("+") if plus else z3.Re("")
    elif entails(I, xr < 0):
        sign = z3.Re("-")
    else:
        sign = z3.Union(z3.Re("+"), z3.Re("-")) if plus else z3.Option(z3.Re("-"))
    if conv == "f" and prec > 0:
        frac = z3.Concat(z3.Re("."), z3.Concat(*([D] * prec)) if prec > 1 else D)
    elif conv == "f" and "#" in flags:
        frac = z3.Re(".")
    else:
        frac = None
    digits = z3.Plus(D)
    if width:
        ndig = width - (prec + 1 if (conv == "f" and prec > 0) else (1 if frac is not None else 0)) - (1 if (plus or " " in flags) else 0)
        half = z3.RealVal(1) / (2 * 10 ** prec)
        if not plus and " " not in flags and ndig >= 1 and entails(I, z3.And(xr >= 0, xr < 10 ** ndig - half)):
            digits = z3.Concat(*([D] * ndig)) if ndig > 1 else D
            I.prover.assume(z3.Length(s) == width)
    body = z3.Concat(digits, frac) if frac is not None else digits
    lang = z3.Concat(sign, body)
    I.prover.assume(z3.InRe(s, lang))
    note(I, s, lang)


def percent_format(I, fmt, arg):
    p = parse_printf(fmt)
    if p is None:
        raise OutOfReach("%%-format %r on a symbolic value" % (fmt,))
    flags, width, prec, conv = p
    k = I.kind(arg)
    if k not in ("int", "real"):
        I.raise_builtin("TypeError", "%%%s format: a real number is required, not %s" % (conv, k))
    x = get_i(arg.term) if k == "int" else get_x(arg.term)
    return render(I, S(x), k == "int", flags, width, prec, conv, ("%", fmt))


def format_spec(I, val, spec):
    p = parse_spec(spec)
    if p is None:
        raise OutOfReach("format spec %r on a symbolic value" % (spec,))
    flags, width, prec, conv = p
    k = I.kind(val)
    if k not in ("int", "real"):
        I.raise_builtin("TypeError", "unsupported format string for %s" % k)
    if conv == "d" and k == "real":
        I.raise_builtin("ValueError", "Unknown format code 'd' for object of type 'float'")
    x = get_i(val.term) if k == "int" else get_x(val.term)
    return render(I, S(x), k == "int", flags, width, prec, conv, ("f", spec))


def int_to_str(I, t):
    """str(i) for a symbolic int"""
    s = fmt_int(z3.IntVal(fid(("str", "int"))), t)
    I.prover.assume(z3.InRe(s, z3.Concat(z3.Option(z3.Re("-")), z3.Plus(D))))
    I.prover.assume(value_of(s) == z3.ToReal(t))
    I.prover.assume(z3.PrefixOf(z3.StringVal("-"), s) == (t < 0))
    annotate(I, s, z3.ToReal(t), "", 0, 0, "d")
    from .numparse import int_ok, float_ok
    I.prover.assume(z3.And(int_ok(s), float_ok(s)))      # int(str(i)) and float(str(i)) succeed
    return Sym(VStr(s))
