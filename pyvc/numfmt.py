"""Formatting of symbolic numbers: `fmt % n`, f-string format specs and str(int).

ASSUMED contract of CPython's number formatting (trusted base): the text produced for
conversion d / f with given flags, width and precision lies in the printf output language
below, and denotes the correctly rounded decimal of the argument:
    |value_of(text) - x| <= 0.5 * 10**-precision,  value_of(text) * 10**precision is an integer,
    the sign of the text is the sign of the rounded value (a '-' iff x < 0 before rounding),
    zero padding (`0` flag / f-string `0W`) pads with digits, otherwise with blanks.
`value_of` is an uninterpreted function Str -> Real shared with float()/int() of such
texts (pyvc/numparse.py).
"""
import re
import z3
from .interp import OutOfReach
from .values import Sym
from .smt import VStr, VInt, VReal, get_s, get_i, get_x, S

StrS = z3.StringSort()
value_of = z3.Function("value_of", StrS, z3.RealSort())
fmt_real = z3.Function("fmt_real", z3.IntSort(), z3.RealSort(), StrS)    # (format id, x) -> text
fmt_int = z3.Function("fmt_int", z3.IntSort(), z3.IntSort(), StrS)
_FMT_IDS = {}

D = z3.Range("0", "9")


def fid(key):
    if key not in _FMT_IDS:
        _FMT_IDS[key] = len(_FMT_IDS) + 1
    return _FMT_IDS[key]


def parse_printf(fmt):
    m = re.fullmatch(r"%([-+ 0#]*)(\d*)(?:\.(\d+))?([dif])", fmt)
    if not m:
        return None
    flags, width, prec, conv = m.groups()
    return flags, int(width) if width else 0, (int(prec) if prec is not None else (6 if conv == "f" else 0)), conv


def parse_spec(spec):
    """f-string format spec: [0][width][.prec][d|f]"""
    m = re.fullmatch(r"(0?)(\d*)(?:\.(\d+))?([df]?)", spec)
    if not m:
        return None
    zero, width, prec, conv = m.groups()
    conv = conv or "d"
    return ("0" if zero else ""), int(width) if width else 0, (int(prec) if prec is not None else (6 if conv == "f" else 0)), conv


def language(flags, width, prec, conv):
    """printf output language of one conversion"""
    if "+" in flags:
        sign = z3.Union(z3.Re("+"), z3.Re("-"))
    elif " " in flags:
        sign = z3.Union(z3.Re(" "), z3.Re("-"))
    else:
        sign = z3.Option(z3.Re("-"))
    body = z3.Plus(D)
    if conv == "f" and prec > 0:
        body = z3.Concat(body, z3.Re("."), z3.Concat(*([D] * prec)) if prec > 1 else D)
    core = z3.Concat(sign, body)
    if width and "0" not in flags:
        pad = z3.Star(z3.Re(" "))
        return z3.Concat(core, pad) if "-" in flags else z3.Concat(pad, core)
    return core


def min_len(width):
    return width


def render(I, x_term, is_int, flags, width, prec, conv, key):
    """text for a symbolic number; returns Sym(str) and records the assumed facts"""
    P = I.prover
    if conv in ("d", "i"):
        if not is_int:
            xi = z3.ToInt(x_term)          # %d truncates a float toward zero; ToInt floors: equal for x >= 0
            # (negative non-integers with %d are outside the modelled domain)
            P.assume(z3.Or(x_term >= 0, z3.ToReal(xi) == x_term))
        else:
            xi = x_term
        s = fmt_int(z3.IntVal(fid(key)), xi)
        P.assume(z3.InRe(s, language(flags, width, 0, "d")))
        P.assume(value_of(s) == z3.ToReal(xi))
        P.assume(z3.PrefixOf(z3.StringVal("-"), s) == (xi < 0)) if "+" not in flags and " " not in flags and (not width or "0" in flags) else None
    else:
        xr = z3.ToReal(x_term) if is_int else x_term
        s = fmt_real(z3.IntVal(fid(key)), xr)
        P.assume(z3.InRe(s, language(flags, width, prec, "f")))
        scale = 10 ** prec
        v = value_of(s)
        k = I.fresh("fmt_scaled", z3.IntSort())
        P.assume(z3.And(v * scale == z3.ToReal(k), v - xr <= z3.RealVal(1) / (2 * scale), xr - v <= z3.RealVal(1) / (2 * scale)))
        if "+" not in flags and " " not in flags and (not width or "0" in flags):
            P.assume(z3.PrefixOf(z3.StringVal("-"), s) == (xr < 0))      # (CPython prints "-0" for a negative value rounding to zero)
    annotate(I, s, x_term if is_int else None, (z3.ToReal(x_term) if is_int else x_term), flags, width, prec, conv)
    if width:
        P.assume(z3.Length(s) >= width)
        if "0" in flags:
            # zero padded to exactly `width` characters when the number is short enough
            ndig = width - (prec + 1 if (conv == "f" and prec > 0) else 0)
            P.assume(z3.Implies(z3.And(value_of(s) >= 0, value_of(s) < 10 ** ndig), z3.Length(s) == width))
    return Sym(VStr(s))


def entails(I, f):
    s, r = I.prover.solve([z3.Not(f)], 3000)
    return r == z3.unsat


def annotate(I, s, xi, xr, flags, width, prec, conv):
    """Tightest regular language of the rendered text that the path condition determines (sign known?
    number of integer digits known for zero-padded fields?): recorded python-side so that re.match on
    a concatenation of such pieces is decided at the language level (pure regex queries)."""
    if "+" in flags or " " in flags or (width and "0" not in flags):
        lang = language(flags, width, prec, conv)
    else:
        if entails(I, xr >= 0):
            sign = z3.Re("")
        elif entails(I, xr < 0):
            sign = z3.Re("-")
        else:
            sign = z3.Option(z3.Re("-"))
        frac = z3.Concat(z3.Re("."), z3.Concat(*([D] * prec)) if prec > 1 else D) if (conv == "f" and prec > 0) else None
        digits = z3.Plus(D)
        if width and "0" in flags:
            ndig = width - (prec + 1 if frac is not None else 0)
            half = z3.RealVal(1) / (2 * 10 ** prec)
            if ndig >= 1 and entails(I, z3.And(xr >= 0, xr < 10 ** ndig - half)):
                digits = z3.Concat(*([D] * ndig)) if ndig > 1 else D
                I.prover.assume(z3.Length(s) == width)
        body = z3.Concat(digits, frac) if frac is not None else digits
        lang = z3.Concat(sign, body)
        I.prover.assume(z3.InRe(s, lang))
    I.__dict__.setdefault("str_lang", {})[s.get_id()] = (s, lang)


def percent_format(I, fmt, arg):
    p = parse_printf(fmt)
    if p is None:
        raise OutOfReach("%%-format %r on a symbolic value" % (fmt,))
    flags, width, prec, conv = p
    k = I.kind(arg)
    if k not in ("int", "real"):
        I.raise_builtin("TypeError", "%%%s format: a real number is required, not %s" % (conv, k))
    x = get_i(arg.term) if k == "int" else get_x(arg.term)
    return render(I, S(x), k == "int", flags, width, prec, conv, ("%", fmt))


def format_spec(I, val, spec):
    p = parse_spec(spec)
    if p is None:
        raise OutOfReach("format spec %r on a symbolic value" % (spec,))
    flags, width, prec, conv = p
    k = I.kind(val)
    if k not in ("int", "real"):
        I.raise_builtin("TypeError", "unsupported format string for %s" % k)
    if conv == "d" and k == "real":
        I.raise_builtin("ValueError", "Unknown format code 'd' for object of type 'float'")
    x = get_i(val.term) if k == "int" else get_x(val.term)
    return render(I, S(x), k == "int", flags, width, prec, conv, ("f", spec))


def int_to_str(I, t):
    """str(i) for a symbolic int"""
    s = fmt_int(z3.IntVal(fid(("str", "int"))), t)
    I.prover.assume(z3.InRe(s, z3.Concat(z3.Option(z3.Re("-")), z3.Plus(D))))
    I.prover.assume(value_of(s) == z3.ToReal(t))
    I.prover.assume(z3.PrefixOf(z3.StringVal("-"), s) == (t < 0))
    annotate(I, s, t, z3.ToReal(t), "", 0, 0, "d")
    from .numparse import int_ok, float_ok
    I.prover.assume(z3.And(int_ok(s), float_ok(s)))      # int(str(i)) and float(str(i)) succeed
    return Sym(VStr(s))
