"""Path exploration and obligation bookkeeping for PyVC."""
import time
import traceback
import z3

from . import smt
from .smt import S
from .interp import (Interp, World, IRaise, Infeasible, OutOfReach, PathEnd,
                     ReturnEx, BreakEx, ContinueEx)
from . import values


FEAS_RLIMIT = int(__import__("os").environ.get("PYVC_FEAS_RLIMIT", "250000"))
DEBUG_RLIMIT = bool(__import__("os").environ.get("PYVC_DEBUG_RLIMIT"))


class Obligation:
    def __init__(self, name, verdict, secs, path, model=None, goal=None, note=None, backend="z3"):
        self.name = name
        self.verdict = verdict      # discharged | refuted | undecided
        self.secs = secs
        self.path = path
        self.model = model
        self.goal = goal
        self.note = note
        self.backend = backend
        self.witness = None
        self.formulas = None
        self.witness_fn = None
        self.minimize = []

    def to_json(self):
        d = {"name": self.name, "verdict": self.verdict, "seconds": round(self.secs, 4),
             "path": self.path, "backend": self.backend}
        if self.note:
            d["note"] = self.note
        if self.model is not None:
            d["model"] = self.model
        return d


class PathRun:
    def __init__(self, explorer, decisions):
        self.explorer = explorer
        self.decisions = list(decisions)
        self.trace = []
        # E-matching only (mbqi off): `unsat` is a proof; `sat` is a *candidate*
        # counter-model that must be confirmed (native replay or a complete solver run)
        # (a fresh solver per query: z3's incremental mode handles quantifier patterns worse)
        self.obligations = []
        self._sat_cache = {}
        self.assumed = []
        self.notes = []
        self.dead = False

    # -- path condition ------------------------------------------------
    def assume(self, f):
        if isinstance(f, bool):
            if not f:
                raise Infeasible()
            return
        self.assumed.append(f)

    def solve(self, extra=(), timeout_ms=None, rlimit=None):
        s = smt.new_solver(timeout_ms or self.explorer.timeout_ms)
        s.set("mbqi", False)
        # second line of defence: z3 sometimes ignores wall-clock timeouts; rlimit is deterministic
        s.set("rlimit", rlimit or int((timeout_ms or self.explorer.timeout_ms) * 3000))
        s.add(self.assumed)
        for x in extra:
            s.add(x)
        t0 = time.time()
        r = s.check()
        dt = time.time() - t0
        if dt > 8:
            import sys
            sys.stderr.write("SLOW-QUERY %.1fs %s timeout=%s rlimit=%s path=%s n_assumed=%d\n"
                             % (dt, r, timeout_ms, rlimit, self.path_id(), len(self.assumed)))
        return s, r

    def sat(self, cond):
        """May the path condition hold together with `cond`?  unsat answers are
        proofs (pruning is sound); anything else counts as feasible."""
        key = (len(self.assumed), cond.get_id() if hasattr(cond, "get_id") else cond)
        if key in self._sat_cache:
            return self._sat_cache[key][1]
        t0 = time.time()
        s, r = self.solve([cond], 5000, rlimit=FEAS_RLIMIT)
        smt.STATS.add(smt.Query("feasibility", str(r), time.time() - t0, "z3", "feasibility"))
        if DEBUG_RLIMIT:
            try:
                print("RL", str(r), [v for k, v in s.statistics() if k == "rlimit count"], round(time.time() - t0, 3))
            except Exception:
                pass
        # (the term is stored with the verdict: z3 reuses AST ids once a term is garbage collected)
        self._sat_cache[key] = (cond, r != z3.unsat)
        return r != z3.unsat

    def fork(self, cond):
        if isinstance(cond, bool):
            return cond
        cond = S(cond)
        if z3.is_true(cond):
            return True
        if z3.is_false(cond):
            return False
        k = len(self.trace)
        if k < len(self.decisions):
            d = self.decisions[k]
            assert d[0] == "f", "decision replay mismatch (fork vs %r)" % (d,)
            self.trace.append(d)
            self.assume(cond if d[1] else z3.Not(cond))
            return d[1]
        can_t = self.sat(cond)
        can_f = self.sat(z3.Not(cond)) if can_t else True
        if can_t and can_f:
            self.trace.append(("f", True, False))
            self.explorer.pending.append(self.trace[:-1] + [("f", False, False)])
            self.assume(cond)
            return True
        if can_t:
            self.trace.append(("f", True, True))
            self.assume(cond)
            return True
        if can_f:
            self.trace.append(("f", False, True))
            self.assume(z3.Not(cond))
            return False
        raise Infeasible()

    def choice(self, n, tag=""):
        k = len(self.trace)
        if k < len(self.decisions):
            d = self.decisions[k]
            assert d[0] == "c", "decision replay mismatch (choice vs %r)" % (d,)
            self.trace.append(d)
            return d[1]
        self.trace.append(("c", 0))
        for alt in range(1, n):
            self.explorer.pending.append(self.trace[:-1] + [("c", alt)])
        return 0

    # -- obligations ---------------------------------------------------
    def path_id(self):
        return "".join(("T" if d[1] else "F") if d[0] == "f" else str(d[1]) for d in self.trace)

    def oblige(self, name, goal, witness=None, note=None):
        """Prove `goal` under the current path condition; then assume it."""
        name = self.explorer.prefix + name
        t0 = time.time()
        if isinstance(goal, bool):
            goal = z3.BoolVal(goal)
        goal = S(goal)
        if z3.is_true(goal):
            ob = Obligation(name, "discharged", 0.0, self.path_id(), note="trivial after simplification")
            self.obligations.append(ob)
            return ob
        solver, r = self.solve([z3.Not(goal)])
        secs = time.time() - t0
        model = None
        wit = None
        m = None
        if r != z3.unsat:
            try:
                m = self.minimized_model(solver, [z3.Not(goal)])
            except z3.Z3Exception:
                m = None
        if r != z3.unsat and m is not None:
            model = model_to_json(m)
            if witness is not None:
                try:
                    wit = witness(m)
                except Exception as e:      # witness extraction is best effort
                    wit = {"witness_error": repr(e)}
            elif self.explorer.witness is not None:
                try:
                    wit = self.explorer.witness(m)
                except Exception as e:
                    wit = {"witness_error": repr(e)}
        reason = None
        if r == z3.unknown:
            reason = solver.reason_unknown()
            if self.explorer.use_cvc5:
                r2, secs2 = cvc5_check(solver, self.explorer.cvc5_seconds)
                smt.STATS.add(smt.Query(name, r2, secs2, "cvc5", "obligation"))
                if r2 == "unsat":
                    r = z3.unsat
                    note = ((note or "") + " [discharged by cvc5 --strings-exp after z3: unknown]").strip()
        smt.STATS.add(smt.Query(name, str(r), secs, "z3", "obligation"))
        verdict = "discharged" if r == z3.unsat else ("refuted" if r == z3.sat else "undecided")
        ob = Obligation(name, verdict, secs, self.path_id(), model, None,
                        note if verdict != "undecided" else "solver: %s" % reason,
                        backend="cvc5" if (note and "cvc5" in note) else "z3")
        ob.witness = wit
        if verdict != "discharged":
            ob.formulas = (list(self.assumed), goal)
            ob.witness_fn = witness or self.explorer.witness
            ob.minimize = list(self.explorer.minimize)
        self.obligations.append(ob)
        # continue under the (quantifier-free) goal so that later obligations do not
        # re-report the same failure; quantified goals are not added (matching loops)
        if not has_quantifier(goal):
            self.assume(goal)
        return ob

    def minimized_model(self, solver, extra):
        """Prefer small counter-models: try the explorer's size bounds."""
        m = solver.model()
        for bound in (2, 4):
            terms = [t for t in self.explorer.minimize]
            if not terms:
                break
            s2, r = self.solve(list(extra) + [t <= bound for t in terms], 3000)
            if r != z3.unsat:
                try:
                    m = s2.model()
                    break
                except z3.Z3Exception:
                    pass
        return m

    def fail(self, name, note, witness=None):
        """An obligation that fails by reaching this point (path is feasible)."""
        name = self.explorer.prefix + name
        solver, r = self.solve()
        if r == z3.unsat:
            raise Infeasible()
        if r == z3.unknown and self.explorer.use_cvc5:
            # reaching this point may be impossible for reasons only the string solver sees
            r2, secs2 = cvc5_check(solver, self.explorer.cvc5_seconds)
            smt.STATS.add(smt.Query(name, r2, secs2, "cvc5", "reachability"))
            if r2 == "unsat":
                raise Infeasible()
        model = None
        wit = None
        m = None
        if r != z3.unsat:
            try:
                m = self.minimized_model(solver, [])
            except z3.Z3Exception:
                m = None
        if m is not None:
            model = model_to_json(m)
            w = witness or self.explorer.witness
            if w is not None:
                try:
                    wit = w(m)
                except Exception as e:
                    wit = {"witness_error": repr(e)}
        ob = Obligation(name, "refuted" if r == z3.sat else "undecided", 0.0, self.path_id(), model, None, note)
        ob.witness = wit
        ob.formulas = (list(self.assumed), z3.BoolVal(False))
        ob.witness_fn = witness or self.explorer.witness
        ob.minimize = list(self.explorer.minimize)
        self.obligations.append(ob)
        return ob

    def canary(self, name, goal):
        """A deliberately false claim pushed through the same pipeline: it must NOT be
        provable (guards against a contradictory path condition / vacuous harness)."""
        solver, r = self.solve([z3.Not(goal)], 5000, rlimit=FEAS_RLIMIT)
        self.explorer.canaries.append({"name": self.explorer.prefix + name, "solver": str(r), "ok": r != z3.unsat,
                                       "path": self.path_id()})

    def cover(self, name):
        """Reachability check (vacuity guard): the path condition is satisfiable here."""
        solver, r = self.solve((), 5000, rlimit=FEAS_RLIMIT)
        self.explorer.covers.append((self.explorer.prefix + name, str(r), self.path_id()))
        return r == z3.sat


def cvc5_check(solver, seconds):
    """Second back end for string obligations: /usr/bin/cvc5 --strings-exp on the solver's
    SMT-LIB text.  Only `unsat` is used (a proof); anything else leaves the verdict to z3."""
    import os
    import subprocess
    import tempfile
    t0 = time.time()
    txt = solver.to_smt2()
    fd, path = tempfile.mkstemp(suffix=".smt2", prefix="pyvc-")
    try:
        with os.fdopen(fd, "w") as fh:
            fh.write("(set-logic ALL)\n" + txt)
        try:
            p = subprocess.run(["/usr/bin/cvc5", "--strings-exp", "--tlimit=%d" % (seconds * 1000), path],
                               capture_output=True, text=True, timeout=seconds + 10)
            out = (p.stdout or "").strip().splitlines()
            res = out[0] if out else "error"
        except subprocess.TimeoutExpired:
            res = "timeout"
    finally:
        try:
            os.remove(path)
        except OSError:
            pass
    return (res if res in ("sat", "unsat", "unknown") else "error:" + res[:40]), time.time() - t0


_qcache = {}


def has_quantifier(f):
    if isinstance(f, bool):
        return False
    k = f.get_id()
    if k in _qcache and _qcache[k][0].eq(f):
        return _qcache[k][1]
    seen = set()
    stack = [f]
    r = False
    while stack:
        t = stack.pop()
        i = t.get_id()
        if i in seen:
            continue
        seen.add(i)
        if z3.is_quantifier(t):
            r = True
            break
        stack.extend(t.children())
    if len(_qcache) > 20000:
        _qcache.clear()
    _qcache[k] = (f, r)
    return r


def model_to_json(m, limit=60):
    out = {}
    for d in m.decls()[:limit]:
        try:
            v = m[d]
            s = str(v)
            if len(s) > 300:
                s = s[:300] + "..."
            out[d.name()] = s
        except Exception:
            pass
    return out


class Explorer:
    """Enumerates all paths of a task.  task(interp, run) builds the symbolic
    pre-state, runs the function under contract and emits obligations."""

    def __init__(self, name, task, repo_root, prefix="", timeout_ms=12000, max_paths=4000,
                 witness=None, alt_solver=None, source_cache=None):
        self.name = name
        self.task = task
        self.repo_root = repo_root
        self.prefix = prefix
        self.timeout_ms = timeout_ms
        self.max_paths = max_paths
        self.pending = []
        self.obligations = []
        self.covers = []
        self.out_of_reach = []
        self.errors = []
        self.paths = 0
        self.witness = witness
        self.alt_solver = alt_solver
        self.source_cache = source_cache if source_cache is not None else {}
        self.path_outcomes = []
        self.minimize = []
        self.canaries = []
        self.on_path = None
        self.use_cvc5 = True
        self.cvc5_seconds = 20

    def run(self):
        self.pending = [[]]
        while self.pending:
            dec = self.pending.pop()
            self.paths += 1
            if self.paths > self.max_paths:
                self.out_of_reach.append({"task": self.name, "what": "path budget exceeded"})
                break
            self.run_path(dec)
            if self.on_path is not None:
                self.on_path(self)
        return self

    def run_path(self, dec):
        values.reset_ids()
        world = World(self.repo_root, self.source_cache)
        I = Interp(world)
        run = PathRun(self, dec)
        I.prover = run
        outcome = "done"
        try:
            self.task(I, run)
        except Infeasible:
            outcome = "infeasible"
        except PathEnd:
            outcome = "end"
        except OutOfReach as e:
            outcome = "out_of_reach"
            node = e.node
            self.out_of_reach.append({"task": self.name, "what": e.what,
                                      "line": getattr(node, "lineno", None), "path": run.path_id()})
        except IRaise as e:
            outcome = "uncaught"
            self.errors.append({"task": self.name, "error": "uncaught interpreted exception %s" % e,
                                "path": run.path_id()})
        except (ReturnEx, BreakEx, ContinueEx) as e:
            outcome = "error"
            self.errors.append({"task": self.name, "error": "stray control flow %r" % e})
        except AssertionError as e:
            outcome = "error"
            self.errors.append({"task": self.name, "error": "engine assertion: %s" % e,
                                "trace": traceback.format_exc()})
        except Exception as e:
            outcome = "error"
            self.errors.append({"task": self.name, "error": repr(e), "trace": traceback.format_exc()})
        self.obligations.extend(run.obligations)
        self.path_outcomes.append((run.path_id(), outcome))
        return run
