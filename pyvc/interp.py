"""PyVC symbolic interpreter: executes the real ASTs of /repo on a mix of
concrete and symbolic (z3) values.  Paths are enumerated by re-execution with
a recorded decision prefix (no heap copying); loops over symbolic collections
use the invariant rule; calls to functions under contract use the contract.

What extraction drops (always, and listed in the evidence): type annotations,
docstrings.  `logger.*` calls are executed against a no-op logger model (their
arguments are still evaluated).
"""
import ast
import os
import z3

from . import smt
from .smt import (Val, VNone, VBool, VInt, VStr, VRef, VReal, VBytes, is_none,
                  is_bool, is_int, is_str, is_ref, is_real, is_bytes, get_b,
                  get_i, get_s, get_rg, get_ix, get_x, get_y, S)
from .values import *


class IRaise(Exception):
    """A Python exception propagating through interpreted code."""
    def __init__(self, value, where=None):
        self.value = value
        self.where = where

    def __str__(self):
        v = self.value
        return "IRaise(%s%r @%s)" % (getattr(getattr(v, "cls", None), "name", v),
                                     getattr(v, "fields", {}).get("args"), self.where)


class ReturnEx(Exception):
    def __init__(self, value):
        self.value = value


class BreakEx(Exception):
    pass


class ContinueEx(Exception):
    pass


class Infeasible(Exception):
    """Current path condition is unsatisfiable: abandon the path."""


class OutOfReach(Exception):
    """Construct outside the supported subset."""
    def __init__(self, what, node=None):
        self.what = what
        self.node = node
        Exception.__init__(self, what)


class PathEnd(Exception):
    """Stop exploring this path (e.g. after a loop-rule iteration check)."""


class Env:
    __slots__ = ("vars", "parent", "is_class", "globals_")

    def __init__(self, parent=None, is_class=False):
        self.vars = {}
        self.parent = parent
        self.is_class = is_class

    def lookup(self, name):
        e = self
        first = True
        while e is not None:
            if (first or not e.is_class) and name in e.vars:
                return e.vars[name]
            first = False
            e = e.parent
        raise KeyError(name)

    def func_env(self):
        e = self
        while e is not None and e.is_class:
            e = e.parent
        return e


class _Missing:
    pass


MISSING = _Missing()


class World:
    """The interpreted program: modules loaded from the real sources."""

    def __init__(self, repo_root, source_cache=None):
        self.repo_root = repo_root
        self.modules = {}
        self.sources = source_cache if source_cache is not None else {}
        self.loading = set()
        self.functions = {}      # (relpath, qualname) -> IFunction
        self.func_nodes = {}     # id(node) -> (relpath, qualname)
        from . import builtins_model
        self.builtins = builtins_model.make_builtins(self)
        self.stdlib = builtins_model.STDLIB

    # -- sources -------------------------------------------------------
    def module_path(self, modname):
        p = os.path.join(self.repo_root, *modname.split("."))
        if os.path.isdir(p) and os.path.isfile(os.path.join(p, "__init__.py")):
            return os.path.join(p, "__init__.py"), True
        if os.path.isfile(p + ".py"):
            return p + ".py", False
        return None, False

    def parse(self, path):
        if path not in self.sources:
            with open(path) as f:
                src = f.read()
            self.sources[path] = (src, ast.parse(src, filename=path))
        return self.sources[path]


class Interp:
    def __init__(self, world, prover=None):
        self.world = world
        self.prover = prover        # PathRun (decisions, pc, obligations)
        self.spec_mode = 0
        self.call_depth = 0
        self.frames = []            # stack of (IFunction, Env)
        self.contracts = {}         # (relpath, qualname) -> contract object
        self.root_func = None
        self.ghost = {}
        self.fresh_ctr = {}
        self.write_log = None
        self.loop_stack = []
        self.await_hook = None
        self.call_hooks = {}
        self.max_unroll = 64
        self.guards = []

    # ------------------------------------------------------------ fresh symbols
    def fresh(self, base, sort=None):
        n = self.fresh_ctr.get(base, 0)
        self.fresh_ctr[base] = n + 1
        name = "%s!%d" % (base, n)
        return z3.Const(name, sort if sort is not None else Val)

    def fresh_sym(self, base, iface=None):
        return Sym(self.fresh(base), iface)

    # ------------------------------------------------------------ module loading
    def import_module(self, modname):
        w = self.world
        if modname in w.modules:
            return w.modules[modname]
        top = modname.split(".")[0]
        path, is_pkg = w.module_path(modname)
        if path is None:
            if modname in w.stdlib:
                if "." in modname:
                    self.import_module(modname.rsplit(".", 1)[0])
                m = w.stdlib[modname](self)
                w.modules[modname] = m
                if "." in modname:
                    parent, leaf = modname.rsplit(".", 1)
                    w.modules[parent].ns.setdefault(leaf, m)
                return m
            raise OutOfReach("import of unmodelled module %s" % modname)
        # ensure parents are loaded
        if "." in modname:
            self.import_module(modname.rsplit(".", 1)[0])
            if modname in w.modules:
                return w.modules[modname]
        m = IModule(modname)
        m.ns["__name__"] = modname
        m.ns["__file__"] = path
        m.is_pkg = is_pkg
        m.path = path
        w.modules[modname] = m
        src, tree = w.parse(path)
        env = Env()
        env.vars = m.ns
        m.env = env
        relpath = os.path.relpath(path, w.repo_root)
        m.relpath = relpath
        self.exec_block(tree.body, env, m, qual="")
        if "." in modname:
            parent, leaf = modname.rsplit(".", 1)
            w.modules[parent].ns.setdefault(leaf, m)
        return m

    def resolve_relative(self, module, level, name):
        pkg = module.name if getattr(module, "is_pkg", False) else module.name.rsplit(".", 1)[0]
        for _ in range(level - 1):
            pkg = pkg.rsplit(".", 1)[0]
        return pkg + ("." + name if name else "")

    # ------------------------------------------------------------ statements
    def exec_block(self, stmts, env, module, qual):
        for st in stmts:
            self.exec_stmt(st, env, module, qual)

    def exec_stmt(self, st, env, module, qual):
        m = getattr(self, "st_" + st.__class__.__name__, None)
        if m is None:
            raise OutOfReach("statement %s" % st.__class__.__name__, st)
        try:
            return m(st, env, module, qual)
        except IRaise as e:
            if e.where is None:
                e.where = "%s:%d" % (getattr(module, "relpath", module.name), st.lineno)
            raise

    def st_Pass(self, st, env, module, qual):
        pass

    def st_Global(self, st, env, module, qual):
        raise OutOfReach("global statement", st)

    def st_Nonlocal(self, st, env, module, qual):
        raise OutOfReach("nonlocal statement", st)

    def st_Expr(self, st, env, module, qual):
        if isinstance(st.value, ast.Constant) and isinstance(st.value.value, str):
            return  # docstring (dropped)
        self.ev(st.value, env)

    def st_Import(self, st, env, module, qual):
        for a in st.names:
            m = self.import_module(a.name)
            if a.asname:
                env.vars[a.asname] = m
            else:
                top = a.name.split(".")[0]
                env.vars[top] = self.import_module(top)

    def st_ImportFrom(self, st, env, module, qual):
        modname = st.module or ""
        if st.level:
            modname = self.resolve_relative(module, st.level, st.module)
        if modname == "__future__":
            return
        m = self.import_module(modname)
        for a in st.names:
            if a.name == "*":
                for k, v in m.ns.items():
                    if not k.startswith("_"):
                        env.vars[k] = v
                continue
            if a.name in m.ns:
                v = m.ns[a.name]
            else:
                # submodule?
                try:
                    v = self.import_module(modname + "." + a.name)
                except OutOfReach:
                    raise OutOfReach("cannot import %s from %s" % (a.name, modname), st)
            env.vars[a.asname or a.name] = v

    def make_function(self, node, env, module, qual, owner=None):
        defaults = [self.ev(d, env) for d in node.args.defaults]
        kwdefaults = [None if d is None else self.ev(d, env) for d in node.args.kw_defaults]
        name = getattr(node, "name", "<lambda>")
        qn = (qual + "." if qual else "") + name
        f = IFunction(node, env.func_env(), module, qn, defaults, kwdefaults, owner)
        rel = getattr(module, "relpath", None)
        if rel is not None:
            self.world.functions[(rel, qn)] = f
        return f

    def st_FunctionDef(self, st, env, module, qual):
        f = self.make_function(st, env, module, qual)
        v = f
        for dec in reversed(st.decorator_list):
            d = self.ev(dec, env)
            v = self.call(d, [v], {})
        env.vars[st.name] = v

    st_AsyncFunctionDef = st_FunctionDef

    def st_ClassDef(self, st, env, module, qual):
        bases = [self.ev(b, env) for b in st.bases]
        kw = {k.arg: self.ev(k.value, env) for k in st.keywords}
        metaclass = kw.pop("metaclass", None)
        if metaclass is None:
            for b in bases:
                if isinstance(b, IClass) and b.metaclass is not None:
                    metaclass = b.metaclass
                    break
        cenv = Env(parent=env, is_class=True)
        qn = (qual + "." if qual else "") + st.name
        cenv.vars["__module__"] = module.name
        cenv.vars["__qualname__"] = qn
        # execute body: functions defined inside get owner patched afterwards
        self.exec_block(st.body, cenv, module, qn)
        attrs = cenv.vars
        if "__doc__" not in attrs:
            doc = ast.get_docstring(st, clean=False)
            attrs["__doc__"] = doc
        if not bases:
            bases = [self.world.builtins["object"]]
        if metaclass is not None:
            dct = IDict(attrs)
            cls = self.call(metaclass, [st.name, tuple(bases), dct], {}, as_metaclass=True)
        else:
            cls = self.build_class(st.name, bases, attrs, module, qn, None)
        v = cls
        for dec in reversed(st.decorator_list):
            d = self.ev(dec, env)
            v = self.call(d, [v], {})
        env.vars[st.name] = v

    def build_class(self, name, bases, attrs, module, qn, metaclass):
        cls = IClass(name, bases, attrs, module, qn, metaclass)
        for k, v in attrs.items():
            f = v
            if isinstance(f, (IClassMethod, IStaticMethod)):
                f = f.func
            if isinstance(f, IProperty):
                for g in (f.fget, f.fset):
                    if isinstance(g, IFunction) and g.owner is None:
                        g.owner = cls
            if isinstance(f, IFunction) and f.owner is None:
                f.owner = cls
        return cls

    def st_Return(self, st, env, module, qual):
        raise ReturnEx(self.ev(st.value, env) if st.value is not None else None)

    def st_Break(self, st, env, module, qual):
        raise BreakEx()

    def st_Continue(self, st, env, module, qual):
        raise ContinueEx()

    def st_Assign(self, st, env, module, qual):
        v = self.ev(st.value, env)
        for t in st.targets:
            self.assign(t, v, env)

    def st_AnnAssign(self, st, env, module, qual):
        if st.value is not None:
            self.assign(st.target, self.ev(st.value, env), env)

    def st_AugAssign(self, st, env, module, qual):
        t = st.target
        if isinstance(t, ast.Name):
            cur = self.ev(ast.Name(id=t.id, ctx=ast.Load()), env)
        elif isinstance(t, ast.Attribute):
            obj = self.ev(t.value, env)
            cur = self.getattr(obj, t.attr)
        elif isinstance(t, ast.Subscript):
            obj = self.ev(t.value, env)
            idx = self.ev_slice(t.slice, env)
            cur = self.getitem(obj, idx)
        else:
            raise OutOfReach("augassign target", st)
        r = self.ev(st.value, env)
        if isinstance(cur, IList) and isinstance(st.op, ast.Add):
            cur.items.extend(self.iterate(r))
            return
        nv = self.binop(st.op, cur, r)
        if isinstance(t, ast.Name):
            self.store_name(t.id, nv, env)
        elif isinstance(t, ast.Attribute):
            self.setattr(obj, t.attr, nv)
        else:
            self.setitem(obj, idx, nv)

    def st_Delete(self, st, env, module, qual):
        for t in st.targets:
            if isinstance(t, ast.Subscript):
                obj = self.ev(t.value, env)
                idx = self.ev_slice(t.slice, env)
                self.delitem(obj, idx)
            elif isinstance(t, ast.Name):
                del env.vars[t.id]
            else:
                raise OutOfReach("del target", st)

    def st_If(self, st, env, module, qual):
        c = self.ev(st.test, env)
        if self.spec_mode and isinstance(c, Sym):
            t = S(self.truthy_term(c))
            if not (z3.is_true(t) or z3.is_false(t)):
                # generic-index evaluation: no forking; the branches run under a guard and may
                # only perform guarded dict stores / local assignments
                for g, body in ((t, st.body), (S(z3.Not(t)), st.orelse)):
                    if not body:
                        continue
                    self.guards.append(g)
                    try:
                        self.exec_block(body, env, module, qual)
                    except (ReturnEx, BreakEx, ContinueEx):
                        raise OutOfReach("control flow under a symbolic guard in term-building mode", st)
                    finally:
                        self.guards.pop()
                return
        if self.truth(c):
            self.exec_block(st.body, env, module, qual)
        else:
            self.exec_block(st.orelse, env, module, qual)

    def st_Assert(self, st, env, module, qual):
        c = self.ev(st.test, env)
        if not self.truth(c):
            msg = self.ev(st.msg, env) if st.msg is not None else None
            self.raise_builtin("AssertionError", *( [msg] if msg is not None else []))

    def st_Raise(self, st, env, module, qual):
        if st.exc is None:
            raise OutOfReach("bare raise", st)
        v = self.ev(st.exc, env)
        if isinstance(v, IClass):
            v = self.call(v, [], {})
        raise IRaise(v)

    def st_Try(self, st, env, module, qual):
        try:
            try:
                self.exec_block(st.body, env, module, qual)
            except IRaise as e:
                for h in st.handlers:
                    if self.handler_matches(h, e.value, env):
                        if h.name:
                            env.vars[h.name] = e.value
                        self.exec_block(h.body, env, module, qual)
                        break
                else:
                    raise
            else:
                self.exec_block(st.orelse, env, module, qual)
        finally:
            # NB: host-level control-flow exceptions (Return/Break/...) also
            # run the interpreted finally block, as in Python.
            if st.finalbody:
                import sys
                et = sys.exc_info()[0]
                if et is None or et in (IRaise, ReturnEx, BreakEx, ContinueEx):
                    self.exec_block(st.finalbody, env, module, qual)

    def handler_matches(self, h, exc, env):
        if h.type is None:
            return True
        t = self.ev(h.type, env)
        ts = t if isinstance(t, tuple) else (t,)
        for c in ts:
            if isinstance(exc, IObject) and exc.cls.issubclass(c):
                return True
        return False

    def st_With(self, st, env, module, qual):
        mgrs = []
        for item in st.items:
            mgr = self.ev(item.context_expr, env)
            enter = self.getattr(mgr, "__aenter__" if isinstance(st, ast.AsyncWith) else "__enter__")
            v = self.call(enter, [], {})
            if isinstance(st, ast.AsyncWith):
                v = self.do_await(v)
            if item.optional_vars is not None:
                self.assign(item.optional_vars, v, env)
            mgrs.append(mgr)
        exc = None
        try:
            self.exec_block(st.body, env, module, qual)
        except IRaise as e:
            exc = e
        finally:
            import sys
            et = sys.exc_info()[0]
            if et is None or et in (IRaise, ReturnEx, BreakEx, ContinueEx):
                for mgr in reversed(mgrs):
                    ex = self.getattr(mgr, "__aexit__" if isinstance(st, ast.AsyncWith) else "__exit__")
                    r = self.call(ex, [None, None, None], {})
                    if isinstance(st, ast.AsyncWith):
                        self.do_await(r)
        if exc is not None:
            raise exc

    st_AsyncWith = st_With

    def st_While(self, st, env, module, qual):
        ordinal = self.loop_ordinal(st)
        contract = self.loop_contract(ordinal)
        if contract is not None:
            return self.loop_rule_while(st, env, module, qual, contract, ordinal)
        n = 0
        while True:
            c = self.ev(st.test, env)
            if not self.truth(c):
                self.exec_block(st.orelse, env, module, qual)
                break
            n += 1
            if n > self.max_unroll:
                raise OutOfReach("while loop without invariant exceeds unroll bound", st)
            try:
                self.exec_block(st.body, env, module, qual)
            except BreakEx:
                break
            except ContinueEx:
                continue

    @staticmethod
    def dict_building_loop(st):
        """`for T in IT: [if C: continue]* ; D[K] = V` (no else) -- the loop form of `{K: V for T in IT if not C ...}` merged into D.
        Returns (dict name, key expr, value expr, [conditions]) or None."""
        if st.orelse or not st.body:
            return None
        conds = []
        for b in st.body[:-1]:
            if isinstance(b, ast.If) and not b.orelse and len(b.body) == 1 and isinstance(b.body[0], ast.Continue):
                conds.append(ast.UnaryOp(op=ast.Not(), operand=b.test))
            else:
                return None
        last = st.body[-1]
        if isinstance(last, ast.AnnAssign):
            return None
        if not (isinstance(last, ast.Assign) and len(last.targets) == 1 and isinstance(last.targets[0], ast.Subscript)
                and isinstance(last.targets[0].value, ast.Name)):
            return None
        if not conds:
            return None
        return last.targets[0].value.id, last.targets[0].slice, last.value, conds

    def st_For(self, st, env, module, qual):
        pat = self.dict_building_loop(st)
        if pat is not None:
            dname, kexpr, vexpr, conds = pat
            try:
                target = env.lookup(dname)
            except KeyError:
                target = None
            if isinstance(target, IDict):
                # evaluated like the equivalent comprehension: symbolic skip conditions become conditional entries instead of
                # 2^n paths; the entries are merged into the dict in iteration order
                comp = ast.DictComp(key=kexpr, value=vexpr, generators=[ast.comprehension(target=st.target, iter=st.iter, ifs=conds, is_async=0)])
                ast.copy_location(comp, st)
                ast.fix_missing_locations(comp)
                new = self.ex_DictComp(comp, env)
                for k, v in new.d.items():
                    self.setitem(target, k, v)
                last = MISSING
                for x in self.iterate(self.ev(st.iter, env)):      # the loop variables stay bound to the last item, as after a real loop
                    last = x
                if last is not MISSING:
                    self.assign(st.target, last, env)
                return
        it = self.ev(st.iter, env)
        if isinstance(it, (SList, RSeq)):
            ordinal = self.loop_ordinal(st)
            contract = self.loop_contract(ordinal, it)
            if contract is None:
                raise OutOfReach("for loop over symbolic collection without invariant "
                                 "(loop #%s of %s)" % (ordinal, self.frames[-1][0].qualname if self.frames else "?"), st)
            return self.loop_rule_for(st, it, env, module, qual, contract, ordinal)
        if isinstance(it, Sym) and self.kind(it) == "str":
            # a string of unknown length: empty, or at least one character whose
            # iteration must leave the loop (raise / return / break) -- else out of reach
            t = get_s(it.term)
            if self.prover.fork(z3.Length(t) == 0):
                self.exec_block(st.orelse, env, module, qual)
                return
            self.assign(st.target, Sym(VStr(z3.SubString(t, 0, 1))), env)
            try:
                self.exec_block(st.body, env, module, qual)
            except BreakEx:
                return
            except ContinueEx:
                pass
            raise OutOfReach("loop over the characters of a symbolic string", st)
        if isinstance(it, IList):
            # a list is iterated live (by index): mutation during the loop is visible, as in CPython
            def live():
                k = 0
                while k < len(it.items):
                    yield it.items[k]
                    k += 1
            items = live()
        else:
            items = self.iterate(it)
        broke = False
        for x in items:
            self.assign(st.target, x, env)
            try:
                self.exec_block(st.body, env, module, qual)
            except BreakEx:
                broke = True
                break
            except ContinueEx:
                continue
        if not broke:
            self.exec_block(st.orelse, env, module, qual)

    # ------------------------------------------------------------ loops (invariant rule)
    def loop_ordinal(self, st):
        if not self.frames:
            return None
        f = self.frames[-1][0]
        if not hasattr(f, "_loops"):
            f._loops = [n for n in ast.walk(f.node) if isinstance(n, (ast.For, ast.While))]
            f._loops.sort(key=lambda n: (n.lineno, n.col_offset))
        for i, n in enumerate(f._loops):
            if n is st:
                return i
        return None

    def loop_contract(self, ordinal, it=None):
        if not self.frames or ordinal is None:
            return None
        f = self.frames[-1][0]
        key = (getattr(f.module, "relpath", None), f.qualname)
        c = self.contracts.get(key)
        if c is None:
            return None
        sel = getattr(c, "loop_selector", None)
        if sel is not None:
            return sel(self, ordinal, it)
        if not getattr(c, "loops", None):
            return None
        return c.loops.get(ordinal)

    def assigned_names(self, stmts):
        names = set()
        for st in stmts:
            for n in ast.walk(st):
                if isinstance(n, ast.Name) and isinstance(n.ctx, (ast.Store, ast.Del)):
                    names.add(n.id)
        return names

    def loop_rule_for(self, st, it, env, module, qual, lc, ordinal):
        """Invariant rule for `for target in <symbolic sequence>`.
        lc: LoopContract(inv=callable(ctx)->list[(name,BoolRef)], modifies=callable(ctx) havoc)."""
        P = self.prover
        fname = self.frames[-1][0].qualname
        tag = "%s%s/loop[%s]" % (getattr(lc, "props", "") and lc.props + "|", fname, getattr(lc, "label", ordinal))
        length = it.length if isinstance(it, SList) else it.region.length
        ctx = LoopCtx(self, env, it, length)
        lc.enter(ctx) if hasattr(lc, "enter") else None
        # 1. invariant holds on entry (i = 0)
        ctx.i = z3.IntVal(0)
        for nm, g in lc.inv(ctx):
            P.oblige(self._inv_name(tag, "inv-init", nm), g)
        # 2. choose: verify an arbitrary iteration, or continue after the loop
        mode = P.choice(2, "loop %s" % tag)
        tnames = {n.id for n in ast.walk(st.target) if isinstance(n, ast.Name)}
        for nm in sorted((self.assigned_names(st.body) | tnames)):
            env.vars[nm] = self.fresh_sym("h_" + nm)
        if mode == 0:
            i = self.fresh("i_" + str(ordinal), z3.IntSort())
            ctx.i = i
            P.assume(z3.And(i >= 0, i < length))
            lc.havoc(ctx)
            for nm, g in lc.inv(ctx):
                P.assume(g)
            x = self.seq_at(it, i)
            self.assign(st.target, x, env)
            self.write_log_push()
            try:
                try:
                    self.exec_block(st.body, env, module, qual)
                except ContinueEx:
                    pass
                ctx.i = i + 1
                lc.check_frame(ctx, self.write_log_pop()) if hasattr(lc, "check_frame") else self.write_log_pop()
                for nm, g in lc.inv(ctx):
                    P.oblige(self._inv_name(tag, "inv-step", nm), g)
                raise PathEnd()
            except BreakEx:
                self.write_log_pop_safe()
                return  # continue after the loop from the break state
        else:
            ctx.i = length
            P.assume(length >= 0)
            lc.havoc(ctx)
            for nm, g in lc.inv(ctx):
                P.assume(g)
            self.exec_block(st.orelse, env, module, qual)

    def loop_rule_while(self, st, env, module, qual, lc, ordinal):
        P = self.prover
        fname = self.frames[-1][0].qualname
        tag = "%s%s/loop[%s]" % (getattr(lc, "props", "") and lc.props + "|", fname, getattr(lc, "label", ordinal))
        ctx = LoopCtx(self, env, None, None)
        for nm, g in lc.inv(ctx):
            P.oblige(self._inv_name(tag, "inv-init", nm), g)
        mode = P.choice(2, "loop %s" % tag)
        for nm in sorted(self.assigned_names(st.body)):
            env.vars[nm] = self.fresh_sym("h_" + nm)
        lc.havoc(ctx)
        for nm, g in lc.inv(ctx):
            P.assume(g)
        c = self.ev(st.test, env)
        if mode == 0:
            if not self.truth(c):
                raise PathEnd()
            variant0 = lc.variant(ctx) if getattr(lc, "variant", None) else None
            try:
                try:
                    self.exec_block(st.body, env, module, qual)
                except ContinueEx:
                    pass
                for nm, g in lc.inv(ctx):
                    P.oblige(self._inv_name(tag, "inv-step", nm), g)
                if variant0 is not None:
                    v1 = lc.variant(ctx)
                    P.oblige("%s/variant-decreases" % tag, z3.And(v1 < variant0, variant0 >= 0))
                raise PathEnd()
            except BreakEx:
                return
        else:
            if self.truth(c):
                raise PathEnd()
            self.exec_block(st.orelse, env, module, qual)

    @staticmethod
    def _inv_name(tag, phase, nm):
        """Invariant items may carry their own property tag: "PROPS:name"."""
        if ":" in nm and "|" in tag:
            props, rest = nm.split(":", 1)
            return "%s|%s/%s/%s" % (props, tag.split("|", 1)[1], phase, rest)
        return "%s/%s/%s" % (tag, phase, nm)

    def write_log_push(self):
        self._wl_stack = getattr(self, "_wl_stack", [])
        self._wl_stack.append((self.write_log, getattr(self, "_wl_mark", 0)))
        self.write_log = []
        self._wl_mark = next_serial()      # objects created from here on are fresh

    def write_log_pop(self):
        mark = self._wl_mark
        # writes to objects allocated inside the region being logged are not frame-relevant
        wl = [w for w in self.write_log
              if not (w[0] in ("field", "list", "dict") and getattr(w[1], "serial", 0) > mark)]
        self.write_log, self._wl_mark = self._wl_stack.pop()
        if self.write_log is not None:
            self.write_log.extend(wl)
        return wl

    def write_log_pop_safe(self):
        if getattr(self, "_wl_stack", None):
            self.write_log_pop()

    def log_write(self, loc):
        if self.write_log is not None:
            self.write_log.append(loc)

    def seq_at(self, it, i):
        if isinstance(it, SList):
            return Sym(z3.Select(it.elt, i), it.iface)
        if isinstance(it, RSeq):
            o = RObj(it.region, i)
            if it.kind == "items":
                return (Sym(z3.Select(it.keys, i)), o)
            if it.kind in ("keys", "dict"):
                return Sym(z3.Select(it.keys, i))
            return o
        raise OutOfReach("seq_at %r" % it)

    # ------------------------------------------------------------ assignment
    def store_name(self, name, v, env):
        if self.guards:
            if name not in env.vars:
                raise OutOfReach("first assignment of %s under a symbolic guard" % name)
            g = S(z3.And(*self.guards))
            v = Sym(z3.If(g, self.to_term(v), self.to_term(env.vars[name])))
        env.vars[name] = v

    def assign(self, target, v, env):
        if isinstance(target, ast.Name):
            self.store_name(target.id, v, env)
        elif isinstance(target, ast.Attribute):
            obj = self.ev(target.value, env)
            self.setattr(obj, target.attr, v)
        elif isinstance(target, ast.Subscript):
            obj = self.ev(target.value, env)
            idx = self.ev_slice(target.slice, env)
            self.setitem(obj, idx, v)
        elif isinstance(target, (ast.Tuple, ast.List)):
            items = self.iterate(v, for_unpack=len(target.elts))
            if len(items) != len(target.elts):
                self.raise_builtin("ValueError", "not enough values to unpack" if len(items) < len(target.elts) else "too many values to unpack")
            for t, x in zip(target.elts, items):
                self.assign(t, x, env)
        else:
            raise OutOfReach("assignment target %s" % target.__class__.__name__, target)

    # ------------------------------------------------------------ expressions
    def ev(self, node, env):
        m = getattr(self, "ex_" + node.__class__.__name__, None)
        if m is None:
            raise OutOfReach("expression %s" % node.__class__.__name__, node)
        return m(node, env)

    def ex_Constant(self, node, env):
        if node.value is Ellipsis:
            return None
        return node.value

    def ex_Name(self, node, env):
        try:
            return env.lookup(node.id)
        except KeyError:
            b = self.world.builtins
            if node.id in b:
                return b[node.id]
            self.raise_builtin("NameError", node.id)

    def ex_Attribute(self, node, env):
        obj = self.ev(node.value, env)
        return self.getattr(obj, node.attr)

    def ex_Tuple(self, node, env):
        out = []
        for e in node.elts:
            if isinstance(e, ast.Starred):
                out.extend(self.iterate(self.ev(e.value, env)))
            else:
                out.append(self.ev(e, env))
        return tuple(out)

    def ex_List(self, node, env):
        return IList(self.ex_Tuple(node, env))

    def ex_Set(self, node, env):
        return ISet(self.ex_Tuple(node, env))

    def ex_Dict(self, node, env):
        d = IDict()
        for k, v in zip(node.keys, node.values):
            if k is None:
                src = self.ev(v, env)
                for kk, vv in self.dict_items(src):
                    self.setitem(d, kk, vv)
            else:
                self.setitem(d, self.ev(k, env), self.ev(v, env))
        return d

    def ex_JoinedStr(self, node, env):
        parts = []
        for v in node.values:
            if isinstance(v, ast.Constant):
                parts.append(v.value)
            else:
                val = self.ev(v.value, env)
                spec = self.ev(v.format_spec, env) if v.format_spec is not None else ""
                if v.conversion not in (-1, 115, 114):
                    raise OutOfReach("f-string conversion", node)
                parts.append(self.format_value(val, spec, v.conversion))
        return self.concat_strs(parts)

    def ex_FormattedValue(self, node, env):
        val = self.ev(node.value, env)
        spec = self.ev(node.format_spec, env) if node.format_spec is not None else ""
        return self.format_value(val, spec, node.conversion)

    def format_value(self, val, spec, conv=-1):
        from . import builtins_model as bm
        return bm.format_value(self, val, spec, conv)

    def concat_strs(self, parts):
        if all(isinstance(p, str) for p in parts):
            return "".join(parts)
        terms = []
        for p in parts:
            if isinstance(p, str):
                if p:
                    terms.append(z3.StringVal(p))
            else:
                terms.append(get_s(p.term))
        return Sym(VStr(z3.Concat(*terms) if len(terms) > 1 else terms[0]))

    def ex_Lambda(self, node, env):
        return self.make_function(node, env, self.cur_module(), self.cur_qual() + ".<lambda>")

    def cur_module(self):
        return self.frames[-1][0].module if self.frames else None

    def cur_qual(self):
        return self.frames[-1][0].qualname if self.frames else ""

    def ex_IfExp(self, node, env):
        c = self.ev(node.test, env)
        if self.spec_mode and isinstance(c, Sym):
            a = self.ev(node.body, env)
            b = self.ev(node.orelse, env)
            return Sym(z3.If(self.truthy_term(c), self.to_term(a), self.to_term(b)))
        if self.truth(c):
            return self.ev(node.body, env)
        return self.ev(node.orelse, env)

    def ex_BoolOp(self, node, env):
        is_and = isinstance(node.op, ast.And)
        if self.spec_mode:
            # term-building evaluation (no forking, no short circuit): used for
            # filter conditions evaluated at a generic, bound index
            ts = []
            for e in node.values:
                v = self.ev(e, env)
                ts.append(self.truthy_term(v) if isinstance(v, Sym) else z3.BoolVal(bool(self.truth(v))))
            return Sym(VBool(S(z3.And(*ts) if is_and else z3.Or(*ts))))
        v = None
        for i, e in enumerate(node.values):
            v = self.ev(e, env)
            if i == len(node.values) - 1:
                return v
            t = self.truth(v)
            if is_and and not t:
                return v
            if not is_and and t:
                return v
        return v

    def ex_UnaryOp(self, node, env):
        v = self.ev(node.operand, env)
        if isinstance(node.op, ast.Not):
            if isinstance(v, Sym):
                return Sym(VBool(S(z3.Not(self.truthy_term(v)))))
            return not self.truth(v)
        if isinstance(node.op, ast.USub):
            if isinstance(v, Sym):
                k = self.kind(v)
                if k == "int":
                    return Sym(VInt(-get_i(v.term)))
                if k == "real":
                    return Sym(VReal(-get_x(v.term)))
                raise OutOfReach("unary minus on %s" % k, node)
            return -v
        if isinstance(node.op, ast.UAdd):
            return v
        raise OutOfReach("unary op", node)

    def ex_BinOp(self, node, env):
        a = self.ev(node.left, env)
        b = self.ev(node.right, env)
        return self.binop(node.op, a, b)

    def ex_Compare(self, node, env):
        left = self.ev(node.left, env)
        result = None
        for op, rnode in zip(node.ops, node.comparators):
            right = self.ev(rnode, env)
            r = self.compare(op, left, right)
            if len(node.ops) == 1:
                return r
            # chained: conjunction with short circuit
            if not self.truth(r):
                return False if not isinstance(r, Sym) else r
            result = r
            left = right
        return result

    def ex_Call(self, node, env):
        f = self.ev(node.func, env)
        args = []
        for a in node.args:
            if isinstance(a, ast.Starred):
                args.extend(self.iterate(self.ev(a.value, env)))
            else:
                args.append(self.ev(a, env))
        kwargs = {}
        for k in node.keywords:
            if k.arg is None:
                src = self.ev(k.value, env)
                for kk, vv in self.dict_items(src):
                    if not isinstance(kk, str):
                        raise OutOfReach("symbolic keyword name", node)
                    if kk in kwargs:
                        self.raise_builtin("TypeError", "got multiple values for keyword argument '%s'" % kk)
                    kwargs[kk] = vv
            else:
                kwargs[k.arg] = self.ev(k.value, env)
        if (isinstance(node.func, ast.Name) and node.func.id == "super" and not args
                and f is self.world.builtins.get("super")):
            return self.zero_arg_super(env)
        return self.call(f, args, kwargs, node=node)

    def zero_arg_super(self, env):
        f, fenv = self.frames[-1]
        # find the frame that has an owner class (closures inside methods not supported)
        owner = f.owner
        if owner is None:
            raise OutOfReach("super() outside a method")
        argn = f.node.args.args[0].arg if f.node.args.args else None
        if argn is None:
            raise OutOfReach("super() without self")
        return ISuper(owner, fenv.vars[argn])

    def ex_Subscript(self, node, env):
        obj = self.ev(node.value, env)
        idx = self.ev_slice(node.slice, env)
        return self.getitem(obj, idx)

    def ev_slice(self, s, env):
        if isinstance(s, ast.Slice):
            return slice(self.ev(s.lower, env) if s.lower is not None else None,
                         self.ev(s.upper, env) if s.upper is not None else None,
                         self.ev(s.step, env) if s.step is not None else None)
        return self.ev(s, env)

    def ex_Await(self, node, env):
        v = self.ev(node.value, env)
        return self.do_await(v)

    def do_await(self, v):
        if isinstance(v, ICoroutine):
            return self.run_function(v.func, v.args, v.kwargs)
        if self.await_hook is not None:
            return self.await_hook(self, v)
        if isinstance(v, Native) or v is None:
            return None
        raise OutOfReach("await on %r" % (v,))

    def ex_Starred(self, node, env):
        raise OutOfReach("starred expression", node)

    # comprehensions ---------------------------------------------------
    def comp_envs(self, gens, env):
        """Generate environments for comprehension generators (concrete iterables)."""
        cenv = Env(parent=env)

        def rec(k):
            if k == len(gens):
                yield cenv
                return
            g = gens[k]
            it = self.ev(g.iter, cenv if k else env)
            if isinstance(it, (SList, RSeq)):
                raise OutOfReach("comprehension over symbolic collection", g.iter)
            for x in self.iterate(it):
                self.assign(g.target, x, cenv)
                ok = True
                for c in g.ifs:
                    if not self.truth(self.ev(c, cenv)):
                        ok = False
                        break
                if ok:
                    yield from rec(k + 1)
        return rec(0)

    def ex_ListComp(self, node, env):
        h = self.comp_hook(node, env)
        if h is not MISSING:
            return h
        return IList([self.ev(node.elt, e) for e in self.comp_envs(node.generators, env)])

    def ex_GeneratorExp(self, node, env):
        h = self.comp_hook(node, env)
        if h is not MISSING:
            return h
        return IList([self.ev(node.elt, e) for e in self.comp_envs(node.generators, env)])

    def ex_SetComp(self, node, env):
        return ISet([self.ev(node.elt, e) for e in self.comp_envs(node.generators, env)])

    def ex_DictComp(self, node, env):
        d = IDict()
        if len(node.generators) == 1 and node.generators[0].ifs:
            # symbolic filter conditions become conditional entries (no 2^n forking
            # over optional attributes): {k: Maybe(cond, v)}
            g = node.generators[0]
            it = self.ev(g.iter, env)
            if isinstance(it, (SList, RSeq)):
                raise OutOfReach("dict comprehension over symbolic collection", node)
            cenv = Env(parent=env)
            for x in self.iterate(it):
                self.assign(g.target, x, cenv)
                conds = []
                dead = False
                self.spec_mode += 1
                try:
                    for c in g.ifs:
                        cv = self.ev(c, cenv)
                        if isinstance(cv, Sym):
                            t = S(self.truthy_term(cv))
                            if z3.is_false(t):
                                dead = True
                                break
                            if not z3.is_true(t):
                                conds.append(t)
                        elif not self.truth(cv):
                            dead = True
                            break
                finally:
                    self.spec_mode -= 1
                if dead:
                    continue
                k = self.ev(node.key, cenv)
                v = self.ev(node.value, cenv)
                if conds:
                    if isinstance(k, Sym):
                        raise OutOfReach("conditional dict entry with symbolic key", node)
                    v = Maybe(S(z3.And(*conds)), v)
                self.setitem(d, k, v)
            return d
        for e in self.comp_envs(node.generators, env):
            k = self.ev(node.key, e)
            v = self.ev(node.value, e)
            self.setitem(d, k, v)
        return d

    def comp_hook(self, node, env):
        """Comprehension over a symbolic sequence: delegated to the contract
        of the enclosing function (`comps[ordinal]`), else out of reach."""
        if len(node.generators) != 1:
            return MISSING
        g = node.generators[0]
        it = self.ev(g.iter, env)
        if not isinstance(it, (SList, RSeq)):
            return MISSING
        from .comprehension import symbolic_comprehension
        return symbolic_comprehension(self, node, g, it, env)

    # ------------------------------------------------------------ truthiness / kinds
    def truthy_term(self, v):
        """truth value of a Sym as a formula; a reference to a known object asks its class (__bool__ / __len__) like CPython"""
        h = self.__dict__.get("ref_resolver")
        if h is not None and v.iface is None:
            o = h(self, v)
            if isinstance(o, (IObject, RObj)):
                for nm in ("__bool__", "__len__"):
                    f, _ = o.cls.lookup(nm)
                    if isinstance(f, IFunction):
                        r = self.call(IBound(f, o), [], {})
                        if isinstance(r, Sym):
                            return smt.truthy(r.term)
                        return z3.BoolVal(bool(r))
                return z3.BoolVal(True)
        return smt.truthy(v.term)

    def truth(self, v):
        """Python truthiness; forks on symbolic values (or, in spec mode,
        is not allowed on symbolic values -- spec code uses the z3 helpers)."""
        if isinstance(v, Sym):
            t = S(self.truthy_term(v))
            if z3.is_true(t):
                return True
            if z3.is_false(t):
                return False
            return self.prover.fork(t)
        if v is None or isinstance(v, (bool, int, float, str, bytes, tuple)):
            return bool(v)
        if isinstance(v, IList):
            return bool(v.items)
        if isinstance(v, IDict):
            return bool(v.d)
        if isinstance(v, ISet):
            return bool(v.items)
        if isinstance(v, SList):
            return self.prover.fork(S(v.length > 0))
        if isinstance(v, RSeq):
            return self.prover.fork(S(v.region.length > 0))
        if isinstance(v, (IObject, RObj)):
            cls = v.cls
            for nm in ("__bool__", "__len__"):
                f, _ = cls.lookup(nm)
                if isinstance(f, IFunction):
                    r = self.call(IBound(f, v), [], {})
                    return self.truth(r)
            return True
        if isinstance(v, SDict):
            raise OutOfReach("truthiness of symbolic dict")
        return True

    def kind(self, v):
        """Dynamic type of a Sym as far as the path condition determines it."""
        t = S(v.term)
        if z3.is_app(t):
            n = t.decl().name()
            m = {"VNone": "none", "VBool": "bool", "VInt": "int", "VStr": "str",
                 "VRef": "ref", "VReal": "real", "VBytes": "bytes"}
            if n in m:
                return m[n]
        P = self.prover
        for rec, k in ((is_str, "str"), (is_int, "int"), (is_none, "none"), (is_ref, "ref"),
                       (is_bool, "bool"), (is_real, "real"), (is_bytes, "bytes")):
            c = rec(t)
            if not P.sat(c):
                continue
            if not P.sat(z3.Not(c)):
                return k            # forced by the path condition
            if P.fork(c):
                return k
        raise Infeasible()

    # ------------------------------------------------------------ conversions
    def to_term(self, v):
        if isinstance(v, Sym):
            return v.term
        if v is None:
            return VNone
        if isinstance(v, bool):
            return VBool(z3.BoolVal(v))
        if isinstance(v, int):
            return VInt(z3.IntVal(v))
        if isinstance(v, str):
            return VStr(z3.StringVal(v))
        if isinstance(v, bytes):
            return VBytes(z3.StringVal(v.decode("latin1")))
        if isinstance(v, float):
            import fractions
            fr = fractions.Fraction(v)
            return VReal(z3.RealVal(fr))
        if isinstance(v, IObject):
            return VRef(z3.IntVal(0), z3.IntVal(v.oid))
        if isinstance(v, IClass):
            return VRef(z3.IntVal(-2), z3.IntVal(v.cid))
        if isinstance(v, RObj):
            return VRef(z3.IntVal(v.region.rid), v.idx)
        if isinstance(v, RDict):
            return VRef(z3.IntVal(v.region.rid), v.row)
        if isinstance(v, z3.ExprRef):
            return v
        # other host-side objects: identity via a registry
        reg = self.world.__dict__.setdefault("_ident", {})
        k = id(v)
        if k not in reg:
            reg[k] = (len(reg) + 1, v)
        return VRef(z3.IntVal(-3), z3.IntVal(reg[k][0]))

    def as_int(self, v):
        if isinstance(v, bool):
            return z3.IntVal(int(v))
        if isinstance(v, int):
            return z3.IntVal(v)
        if isinstance(v, Sym):
            k = self.kind(v)
            if k == "int":
                return S(get_i(v.term))
            if k == "bool":
                return z3.If(get_b(v.term), 1, 0)
            self.raise_builtin("TypeError", "expected int, got %s" % k)
        self.raise_builtin("TypeError", "expected int")

    def as_str(self, v):
        if isinstance(v, str):
            return z3.StringVal(v)
        if isinstance(v, Sym):
            k = self.kind(v)
            if k == "str":
                return S(get_s(v.term))
            self.raise_builtin("TypeError", "expected str, got %s" % k)
        self.raise_builtin("TypeError", "expected str")

    # ------------------------------------------------------------ operators
    def binop(self, op, a, b):
        from . import builtins_model as bm
        return bm.binop(self, op, a, b)

    def compare(self, op, a, b):
        from . import builtins_model as bm
        return bm.compare(self, op, a, b)

    def py_eq(self, a, b):
        from . import builtins_model as bm
        return bm.py_eq(self, a, b)

    def iterate(self, v, for_unpack=False):
        from . import builtins_model as bm
        return bm.iterate(self, v, for_unpack)

    def dict_items(self, v):
        if isinstance(v, IDict):
            return list(v.d.items())
        from . import builtins_model as bm
        return bm.dict_items(self, v)

    def getattr(self, obj, name, default=MISSING):
        from . import builtins_model as bm
        return bm.getattr_(self, obj, name, default)

    def setattr(self, obj, name, v):
        from . import builtins_model as bm
        return bm.setattr_(self, obj, name, v)

    def getitem(self, obj, idx):
        from . import builtins_model as bm
        return bm.getitem(self, obj, idx)

    def setitem(self, obj, idx, v):
        from . import builtins_model as bm
        return bm.setitem(self, obj, idx, v)

    def delitem(self, obj, idx):
        from . import builtins_model as bm
        return bm.delitem(self, obj, idx)

    # ------------------------------------------------------------ exceptions
    def raise_builtin(self, name, *args):
        cls = self.world.builtins[name]
        o = IObject(cls)
        o.fields["args"] = tuple(args)
        raise IRaise(o)

    # ------------------------------------------------------------ calls
    def call(self, f, args, kwargs, node=None, as_metaclass=False):
        if isinstance(f, IBound):
            return self.call(f.func, [f.self_] + list(args), kwargs, node)
        if isinstance(f, IFunction):
            hook = self.call_hooks.get((getattr(f.module, "relpath", None), f.qualname))
            if hook is not None:
                return hook(self, f, args, kwargs)
            key = (getattr(f.module, "relpath", None), f.qualname)
            c = self.contracts.get(key)
            if c is not None and getattr(c, "modular", False) and f is not self.root_func:
                return c.apply(self, f, args, kwargs)
            if f.is_async:
                return ICoroutine(f, list(args), dict(kwargs))
            return self.run_function(f, args, kwargs)
        if isinstance(f, Native):
            return f.fn(self, list(args), kwargs)
        if isinstance(f, IClass):
            if as_metaclass:
                new, _ = f.lookup("__new__")
                fn = new.func if isinstance(new, IStaticMethod) else new
                return self.call(fn, [f] + list(args), kwargs)
            return self.instantiate(f, args, kwargs)
        if isinstance(f, (IObject, RObj)):
            c, _ = f.cls.lookup("__call__")
            if c is not None:
                return self.call(IBound(c, f), args, kwargs)
        if isinstance(f, Sym) and f.iface is not None:
            return f.iface.call_self(self, f, args, kwargs)
        if isinstance(f, Sym):
            if self.kind(f) in ("int", "str", "bool", "none", "real", "bytes"):
                self.raise_builtin("TypeError", "'%s' object is not callable" % self.kind(f))
            raise OutOfReach("call of symbolic value without interface")
        self.raise_builtin("TypeError", "object is not callable: %r" % (f,))

    def instantiate(self, cls, args, kwargs):
        bi = getattr(cls, "native_new", None)
        if bi is not None:
            return bi(self, cls, list(args), kwargs)
        for c in cls.mro:
            nn = getattr(c, "native_new", None)
            if nn is not None and getattr(c, "native_subclassable", False):
                return nn(self, cls, list(args), kwargs)
        o = IObject(cls)
        init, owner = cls.lookup("__init__")
        if isinstance(init, IFunction):
            self.call(init, [o] + list(args), kwargs)
        elif isinstance(init, Native):
            init.fn(self, [o] + list(args), kwargs)
        elif args or kwargs:
            self.raise_builtin("TypeError", "%s() takes no arguments" % cls.name)
        return o

    def bind(self, f, args, kwargs):
        a = f.node.args
        env = Env(parent=f.env)
        params = [p.arg for p in a.posonlyargs + a.args]
        args = list(args)
        kwargs = dict(kwargs)
        n = len(params)
        if len(args) > n and a.vararg is None:
            self.raise_builtin("TypeError", "%s() takes %d positional arguments but %d were given" % (f.name, n, len(args)))
        for i, p in enumerate(params):
            if i < len(args):
                if p in kwargs:
                    if isinstance(kwargs[p], Maybe) and not self.prover.fork(kwargs[p].cond):
                        kwargs.pop(p)
                        env.vars[p] = args[i]
                        continue
                    self.raise_builtin("TypeError", "%s() got multiple values for argument '%s'" % (f.name, p))
                env.vars[p] = args[i]
            elif p in kwargs:
                v = kwargs.pop(p)
                if isinstance(v, Maybe):
                    di = i - (n - len(f.defaults))
                    d = f.defaults[di] if di >= 0 else MISSING
                    v = self.resolve_maybe(f, p, v, d)
                env.vars[p] = v
            else:
                di = i - (n - len(f.defaults))
                if di >= 0:
                    env.vars[p] = f.defaults[di]
                else:
                    self.raise_builtin("TypeError", "%s() missing required positional argument: '%s'" % (f.name, p))
        if a.vararg is not None:
            env.vars[a.vararg.arg] = tuple(args[n:])
        for p, d in zip(a.kwonlyargs, f.kwdefaults):
            if p.arg in kwargs:
                v = kwargs.pop(p.arg)
                if isinstance(v, Maybe):
                    v = self.resolve_maybe(f, p.arg, v, d if (d is not None or self._has_kwdefault(f, p.arg)) else MISSING)
                env.vars[p.arg] = v
            elif d is not None or self._has_kwdefault(f, p.arg):
                env.vars[p.arg] = d
            else:
                self.raise_builtin("TypeError", "%s() missing required keyword-only argument: '%s'" % (f.name, p.arg))
        if a.kwarg is not None:
            env.vars[a.kwarg.arg] = IDict(kwargs)
        elif kwargs:
            self.raise_builtin("TypeError", "%s() got an unexpected keyword argument '%s'" % (f.name, next(iter(kwargs))))
        return env

    def resolve_maybe(self, f, p, m, default):
        """A keyword argument that is present only under a condition."""
        prim = (Sym, str, int, bool, float, bytes, type(None))
        if default is not MISSING and isinstance(default, prim) and isinstance(m.value, prim):
            return Sym(z3.If(m.cond, self.to_term(m.value), self.to_term(default)))
        if self.prover.fork(m.cond):
            return m.value
        if default is MISSING:
            self.raise_builtin("TypeError", "%s() missing required argument: '%s'" % (f.name, p))
        return default

    def _has_kwdefault(self, f, name):
        for p, d in zip(f.node.args.kwonlyargs, f.node.args.kw_defaults):
            if p.arg == name:
                return d is not None
        return False

    def run_function(self, f, args, kwargs):
        env = self.bind(f, args, kwargs)
        self.call_depth += 1
        if self.call_depth > 60:
            raise OutOfReach("call depth exceeded (recursion?)")
        self.frames.append((f, env))
        try:
            if isinstance(f.node, ast.Lambda):
                return self.ev(f.node.body, env)
            try:
                self.exec_block(f.node.body, env, f.module, f.qualname + ".<locals>")
            except ReturnEx as r:
                return r.value
            return None
        finally:
            self.frames.pop()
            self.call_depth -= 1


class LoopCtx:
    """What a loop invariant can see: the interpreter, the local environment,
    the iterated sequence, the iteration index `i`, and the ghost state."""
    def __init__(self, interp, env, seq, length):
        self.interp = interp
        self.env = env
        self.seq = seq
        self.length = length
        self.i = None

    @property
    def ghost(self):
        return self.interp.ghost

    def local(self, name):
        return self.env.vars[name]

    def role(self, role, finder, default):
        """the local variable playing `role` in the function being executed: found by what the code does with it (an AST
        pattern), so that renaming a local is harmless; the historical name is only the fallback.  OutOfReach when absent."""
        fn = self.interp.frames[-1][0] if self.interp.frames else None
        cache = self.interp.__dict__.setdefault("_role_cache", {})
        key = (id(fn), role)
        if key not in cache:
            name = None
            if fn is not None and getattr(fn, "node", None) is not None:
                try:
                    name = finder(fn.node)
                except Exception:
                    name = None
            cache[key] = name or default
        name = cache[key]
        if name not in self.env.vars:
            raise OutOfReach("loop invariant: no local variable plays the role %r in %s" % (role, getattr(fn, "qualname", "?")))
        return self.env.vars[name]
