"""re.match on symbolic strings (filled in for C10/C13)."""
from .interp import OutOfReach


def match_symbolic(I, pat, s):
    raise OutOfReach("re.match on symbolic string")
