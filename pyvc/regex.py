"""Python `re` patterns (the subset used by the repository) -> z3 regular
expressions, and `re.match` on symbolic strings.

Assumed contract of the `re` engine (listed in the trusted base): for these
patterns `re.match(p, s)` succeeds iff a prefix-anchored match exists in the
language below; `\\d` is [0-9] (text is Latin-1 on the wire; Latin-1 has no
other decimal digits); `$` matches at the end or before one trailing newline;
`.` is any character except newline.  Group boundaries: the patterns used are
unambiguous (digit runs delimited by non-digit separators), so the split
produced here is the one CPython reports.
"""
import z3
from .interp import OutOfReach
from .values import Sym
from .smt import VStr, VNone, S

StrS = z3.StringSort()
ANYCHAR = z3.Range(z3.StringVal("\x00"), z3.StringVal("\xff"))  # Latin-1 alphabet


def _digit():
    return z3.Range("0", "9")


class Node:
    pass


class Lit(Node):
    def __init__(self, re_):
        self.re = re_


class Group(Node):
    def __init__(self, items):
        self.items = items


class Rep(Node):
    def __init__(self, item, lo, hi):
        self.item, self.lo, self.hi = item, lo, hi


class NCGroup(Node):
    """(?:...) -- groups without capturing"""
    def __init__(self, items):
        self.items = items


class Alt(Node):
    """a|b inside a group"""
    def __init__(self, branches):
        self.branches = branches


class Absent(Node):
    """an optional part taken as absent in one expansion: its k capture groups are None"""
    def __init__(self, k):
        self.k = k


def parse(pat):
    """-> (items, anchored_end).  items: list of Node."""
    pos = 0
    n = len(pat)

    def atom():
        nonlocal pos
        c = pat[pos]
        if c == "\\":
            d = pat[pos + 1]
            pos += 2
            if d == "d":
                return Lit(_digit())
            if d == "s":
                return Lit(z3.Union(*[z3.Re(z3.StringVal(c)) for c in " \t\n\r\x0b\x0c"]))
            if d in "-.:;$^()[]{}+*?|/\\ ":
                return Lit(z3.Re(z3.StringVal(d)))
            raise OutOfReach("regex escape \\%s" % d)
        if c == "[":
            end = pat.index("]", pos)
            body = pat[pos + 1:end]
            pos = end + 1
            if body.startswith("^"):
                raise OutOfReach("negated character class")
            alts = []
            i = 0
            while i < len(body):
                if body[i] == "\\":
                    alts.append(_digit() if body[i + 1] == "d" else z3.Re(z3.StringVal(body[i + 1])))
                    i += 2
                elif i + 2 < len(body) and body[i + 1] == "-":
                    alts.append(z3.Range(body[i], body[i + 2]))
                    i += 3
                else:
                    alts.append(z3.Re(z3.StringVal(body[i])))
                    i += 1
            return Lit(z3.Union(*alts) if len(alts) > 1 else alts[0])
        if c == "(":
            pos += 1
            capturing = True
            if pat[pos] == "?":
                if pat[pos + 1] != ":":
                    raise OutOfReach("regex group flags")
                pos += 2
                capturing = False
            items = seq(")")
            pos += 1
            return Group(items) if capturing else NCGroup(items)
        if c == ".":
            pos += 1
            nl = z3.Re(z3.StringVal("\n"))
            return Lit(z3.Intersect(ANYCHAR, z3.Complement(nl)))
        if c in "|":
            raise OutOfReach("regex alternation in an unexpected position")
        pos += 1
        return Lit(z3.Re(z3.StringVal(c)))

    def seq(stop):
        nonlocal pos
        items = []
        branches = []
        while pos < n and pat[pos] != stop:
            if pat[pos] == "|":
                if stop == "\0":
                    raise OutOfReach("top-level alternation must be split by the caller")
                branches.append(items)
                items = []
                pos += 1
                continue
            if pat[pos] == "$" and pos == n - 1 and stop == "\0":
                break
            if pat[pos:] == "\\Z" and stop == "\0":
                break
            a = atom()
            while pos < n and pat[pos] in "?+*{":
                q = pat[pos]
                if q == "?":
                    a = Rep(a, 0, 1)
                    pos += 1
                elif q == "+":
                    a = Rep(a, 1, None)
                    pos += 1
                elif q == "*":
                    a = Rep(a, 0, None)
                    pos += 1
                else:
                    end = pat.index("}", pos)
                    body = pat[pos + 1:end]
                    pos = end + 1
                    if "," in body:
                        lo, hi = body.split(",")
                        a = Rep(a, int(lo or 0), int(hi) if hi else None)
                    else:
                        a = Rep(a, int(body), int(body))
            items.append(a)
        if branches:
            branches.append(items)
            return [Alt(branches)]
        return items
    if pat.startswith("^"):
        pos = 1
    items = seq("\0")
    anchored = pos < n and pat[pos] == "$"
    if pos < n and pat[pos:] == "\\Z":
        anchored = "Z"       # end of text, no trailing-newline tolerance
    return items, anchored


def to_re(node):
    if isinstance(node, Lit):
        return node.re
    if isinstance(node, (Group, NCGroup)):
        return seq_re(node.items)
    if isinstance(node, Absent):
        return z3.Re(z3.StringVal(""))
    if isinstance(node, Alt):
        return z3.Union(*[seq_re(b) for b in node.branches]) if len(node.branches) > 1 else seq_re(node.branches[0])
    if isinstance(node, Rep):
        r = to_re(node.item)
        if node.hi is None:
            if node.lo == 0:
                return z3.Star(r)
            if node.lo == 1:
                return z3.Plus(r)
            return z3.Concat(*([r] * node.lo + [z3.Star(r)]))
        if node.lo == 0 and node.hi == 1:
            return z3.Option(r)
        if node.lo == node.hi:
            return z3.Concat(*([r] * node.lo)) if node.lo > 1 else (r if node.lo == 1 else z3.Re(z3.StringVal("")))
        return z3.Loop(r, node.lo, node.hi)
    raise OutOfReach("regex node")


def seq_re(items):
    rs = [to_re(x) for x in items]
    if not rs:
        return z3.Re(z3.StringVal(""))
    return z3.Concat(*rs) if len(rs) > 1 else rs[0]


def language(pat):
    """z3 regex of the strings s for which re.match(pat, s) succeeds."""
    alts = top_alternatives(pat)
    if len(alts) > 1:
        return z3.Union(*[language(a) for a in alts])
    items, anchored = parse(pat)
    core = seq_re(items)
    if anchored == "Z":
        return core
    if anchored:
        return z3.Concat(core, z3.Option(z3.Re(z3.StringVal("\n"))))
    return z3.Concat(core, z3.Star(ANYCHAR))


def core_language(pat):
    items, anchored = parse(pat)
    return seq_re(items)


def count_groups(items):
    n = 0
    for x in items:
        if isinstance(x, Group):
            n += 1 + count_groups(x.items)
        elif isinstance(x, NCGroup):
            n += count_groups(x.items)
        elif isinstance(x, Absent):
            n += x.k
        elif isinstance(x, Alt):
            n += sum(count_groups(b) for b in x.branches)
        elif isinstance(x, Rep):
            n += count_groups([x.item])
    return n


def top_alternatives(pat):
    """split a pattern at its top-level `|` (anchors bind tighter than alternation: `^a|b$` is `(^a)|(b$)`)"""
    out, depth, cls, i, cur = [], 0, False, 0, ""
    while i < len(pat):
        c = pat[i]
        if c == "\\" and i + 1 < len(pat):
            cur += pat[i:i + 2]
            i += 2
            continue
        if cls:
            cls = c != "]"
        elif c == "[":
            cls = True
        elif c == "(":
            depth += 1
        elif c == ")":
            depth -= 1
        elif c == "|" and depth == 0:
            out.append(cur)
            cur = ""
            i += 1
            continue
        cur += c
        i += 1
    out.append(cur)
    return out


def expansions(items):
    """the item list with every optional part that contains capture groups taken as present or absent, and non-capturing
    groups inlined; None when a construct with captures cannot be expanded (repetition other than ?)"""
    outs = [[]]
    for x in items:
        if isinstance(x, NCGroup) and count_groups(x.items):
            subs = expansions(x.items)
            if subs is None:
                return None
            outs = [o + sub for o in outs for sub in subs]
        elif isinstance(x, Rep) and count_groups([x.item]):
            if not (x.lo == 0 and x.hi == 1):
                return None
            subs = expansions([x.item])
            if subs is None:
                return None
            outs = [o + [Absent(count_groups([x.item]))] for o in outs] + [o + sub for o in outs for sub in subs]
        elif isinstance(x, (Group, Alt)) and count_groups([x] if isinstance(x, Alt) else x.items):
            return None
        else:
            outs = [o + [x] for o in outs]
        if len(outs) > 16:
            return None
    return outs


def subject_language(I, s):
    """regular language known to contain the subject: literal pieces and pieces whose language the
    formatting model recorded; None when some piece is unknown"""
    ann = I.__dict__.get("str_lang", {})
    pieces = pieces_of(s)
    out = []
    for p in pieces:
        if z3.is_string_value(p):
            out.append(z3.Re(p))
        elif p.get_id() in ann and ann[p.get_id()][0].eq(p):
            out.append(ann[p.get_id()][1])
        else:
            return None
    return z3.Concat(*out) if len(out) > 1 else out[0]


def regex_empty(r):
    x = z3.String("re_probe")
    s = z3.Solver()
    s.set("timeout", 5000)
    s.add(z3.InRe(x, r))
    return s.check() == z3.unsat


def match_symbolic(I, pat, s):
    """re.match(pat, <symbolic str s>): forks on membership; returns None or the
    list of group values (top-level groups only)."""
    alts = top_alternatives(pat)
    if len(alts) > 1:
        if any(count_groups(parse(a)[0]) for a in alts):
            raise OutOfReach("top-level alternation with capture groups")
        items, anchored = [], False
    else:
        items, anchored = parse(pat)
    lang = language(pat)
    P = I.prover
    subj = subject_language(I, s)
    decided = None
    if subj is not None:
        # decide at the language level: every text the subject can be matches / no such text matches
        if regex_empty(z3.Intersect(subj, z3.Complement(lang))):
            decided = True
        elif regex_empty(z3.Intersect(subj, lang)):
            decided = False
    if decided is False:
        return None
    if decided is True:
        P.assume(z3.InRe(s, lang))
    elif not P.fork(z3.InRe(s, lang)):
        return None
    if count_groups(items) == 0:
        return []
    if decided is True:
        al = align(I, items, anchored, s)
        if al is not None:
            return al
    if any(isinstance(x, Rep) and count_groups([x.item]) for x in items) or \
            any(isinstance(x, (Group, NCGroup)) and count_groups(x.items) for x in items):
        raise OutOfReach("nested / repeated / optional capture groups on a text whose pieces are not known")
    segs = []
    groups = []
    for k, x in enumerate(items):
        v = I.fresh("re_seg", StrS)
        P.assume(z3.InRe(v, to_re(x)))
        segs.append(v)
        if isinstance(x, Group):
            groups.append(Sym(VStr(v)))
    tail = I.fresh("re_tail", StrS)
    if anchored == "Z":
        P.assume(tail == z3.StringVal(""))
    elif anchored:
        P.assume(z3.Or(tail == z3.StringVal(""), tail == z3.StringVal("\n")))
    P.assume(s == z3.Concat(*(segs + [tail])))
    return groups


def pieces_of(s):
    """the concatenated pieces of a string term, flattened (z3 nests concatenations)"""
    s = S(s)
    out = []

    def go(t):
        if z3.is_app(t) and t.decl().kind() == z3.Z3_OP_SEQ_CONCAT:
            for c in t.children():
                go(c)
        else:
            out.append(t)
    go(s)
    return out


def piece_language(I, p):
    ann = I.__dict__.get("str_lang", {})
    if z3.is_string_value(p):
        return z3.Re(p)
    if p.get_id() in ann and ann[p.get_id()][0].eq(p):
        return ann[p.get_id()][1]
    return None


def strip_by_language(I, s, ws):
    """str.strip() of a text whose pieces have recorded languages: edge pieces that can only be whitespace are
    dropped; if what remains provably neither starts nor ends with whitespace it is the result.  None: not decided."""
    ps = pieces_of(s)
    langs = [piece_language(I, p) for p in ps]
    if any(l is None for l in langs):
        return None
    anyc = z3.Star(ANYCHAR)
    wss = z3.Star(ws)
    lo, hi = 0, len(ps)
    while lo < hi and regex_empty(z3.Intersect(langs[lo], z3.Complement(wss))):
        lo += 1
    while hi > lo and regex_empty(z3.Intersect(langs[hi - 1], z3.Complement(wss))):
        hi -= 1
    if lo == 0 and hi == len(ps):
        whole = z3.Concat(*langs) if len(langs) > 1 else langs[0]
    elif lo == hi:
        return z3.StringVal("")
    else:
        whole = z3.Concat(*langs[lo:hi]) if hi - lo > 1 else langs[lo]
    # the remainder must be non-empty with non-whitespace edges (or the empty string)
    bad = z3.Union(z3.Concat(ws, anyc), z3.Concat(anyc, ws))
    if not regex_empty(z3.Intersect(whole, bad)):
        return None
    rest = ps[lo:hi]
    return z3.Concat(*rest) if len(rest) > 1 else rest[0]


def included(a, b):
    return regex_empty(z3.Intersect(a, z3.Complement(b)))


def align(I, items, anchored, s):
    """Group values of a match that is known to succeed, when the subject is a concatenation of pieces with recorded
    languages and each top-level pattern item covers a whole number of consecutive pieces (language inclusion, checked).
    The patterns of the repository are unambiguous (runs over one alphabet delimited by characters outside it), so a
    valid assignment is the one CPython reports (assumed; sampled natively by the number oracle).  None: no such alignment."""
    exps = expansions(items)
    if exps is None:
        return None
    ps = pieces_of(s)
    langs = [piece_language(I, p) for p in ps]
    if any(l is None for l in langs):
        return None
    eps = z3.Re(z3.StringVal(""))
    tail_lang = eps if anchored == "Z" else (z3.Option(z3.Re(z3.StringVal("\n"))) if anchored else z3.Star(ANYCHAR))
    results = []
    for items in exps:
        r = _align_one(items, ps, langs, eps, tail_lang)
        if r is not None:
            results.append(r)
    if len(results) != 1:
        return None          # no expansion fits, or the optional parts are ambiguous on this text
    return results[0]


def _align_one(items, ps, langs, eps, tail_lang):
    found = []

    def cat(a, b):
        if b <= a:
            return eps
        return z3.Concat(*langs[a:b]) if b - a > 1 else langs[a]

    def go(k, pos, acc):
        if len(found) > 1:
            return
        if k == len(items):
            if included(cat(pos, len(ps)), tail_lang):
                found.append(list(acc))
            return
        r = to_re(items[k])
        for end in range(pos, len(ps) + 1):
            if included(cat(pos, end), r):
                acc.append((pos, end))
                go(k + 1, end, acc)
                acc.pop()
    go(0, 0, [])
    # pieces that may be empty admit several assignments differing only in where an empty piece goes: same group values
    if not found:
        return None
    groups = []
    for x, (a, b) in zip(items, found[0]):
        if isinstance(x, Group):
            sub = ps[a:b]
            t = z3.StringVal("") if not sub else (z3.Concat(*sub) if len(sub) > 1 else sub[0])
            groups.append(Sym(VStr(t)))
        elif isinstance(x, Absent):
            groups.extend([None] * x.k)
    return groups
