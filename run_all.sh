#!/bin/sh
# Runs every claimed check (quick tier) on /repo as it is and validates MANIFEST + evidence files.
cd "$(dirname "$0")" || exit 3
fail=0
for p in $(python3 -c "import json; print(' '.join(c['property_id'] for c in json.load(open('MANIFEST.json'))['checks']))"); do
  ./check "$p" --tier "${1:-quick}" 2>/dev/null | tail -1
  [ $? -eq 0 ] || fail=1
done
python3-vt - <<'PY'
import json, jsonschema, sys
m = json.load(open('/verif/MANIFEST.json'))
jsonschema.validate(m, json.load(open('/root/.vp/MANIFEST.schema.json')))
sch = json.load(open('/root/.vp/EVIDENCE.schema.json'))
bad = 0
for c in m['checks']:
    e = json.load(open(c['evidence_file']))
    jsonschema.validate(e, sch)
    cov = e['coverage']
    if e['level'] == 'proof' and cov['obligations'] != cov['discharged']:
        print('EVIDENCE MISMATCH', c['property_id'], cov['obligations'], cov['discharged']); bad = 1
    if cov.get('exit_code') != 0:
        print('NONZERO EXIT', c['property_id'], cov.get('exit_code')); bad = 1
print('manifest+evidence valid' if not bad else 'PROBLEMS')
sys.exit(bad)
PY
