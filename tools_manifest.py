"""Regenerates MANIFEST.json from the table below (python3 tools_manifest.py)."""
import json

CLAIMED = {
 "C04": dict(
    category="proof",
    text="Deductive: Router.process_message, executed symbolically from its real AST for every protocol message class of the real class "
         "table, an arbitrary well-formed router (any number of clients/devices, any policies) and an arbitrary sender, satisfies "
         "'each registered accepting device other than the sender receives the message exactly once, no other device does; clients receive "
         "it only if the kind is device-originated (getProperties relay)'. The representation invariant is proved to be established by "
         "Router.__init__ and preserved by every mutator, so the postcondition holds after every history, with no bound on universe size.",
    note="Trusted: PyVC engine + encoding assumptions (see evidence.trusted_base), endpoint contract (pure accepts(), no re-entrant mutation of "
         "the registries, endpoints do not raise), an endpoint is registered at most once. Loop invariants are selected by the registry a loop iterates.",
    technique="contract-based deductive verification: VCs generated from the real AST by symbolic execution with loop invariants, discharged by z3 (E-matching), counter-models replayed natively",
    design="4 C04/C05"),
 "C05": dict(
    category="proof",
    text="Deductive: same contracts as C04; the client loop's invariant states, for every endpoint, that it has received the message exactly "
         "once iff it is a registered client other than the sender whose policy for the message's device lets the message kind through "
         "(Never/unset: all but setBLOBVector; Also: all; Only: setBLOBVector only), with policy an abstract view of blob_routing. "
         "register/unregister/enableBLOB are proved to change exactly one client's row / one cell (frame), so one client's or device's policy never affects another. "
         "The endpoint contract that loop relies on is discharged on the shipped server-side client endpoints (tcp and tty ConnectionHandler.message_from_device: "
         "raises nothing, awaits nothing, calls no router mutator, does not re-enter the router, does not close the connection; construction registers exactly once).",
    note="As C04; the endpoint contract stays assumed for user-written endpoints and SnoopingClient. The oracle (direction table, payload kind, lets_through) is written from the statement, not from the code.",
    technique="contract-based deductive verification: VCs generated from the real AST by symbolic execution with loop invariants, discharged by z3 (E-matching), counter-models replayed natively",
    design="4 C04/C05"),
 "C09": dict(
    category="proof",
    text="Deductive: SwitchVector.apply_rule is verified against its contract for a vector of any size and a symbolic rule (loop invariant in "
         "defining form; the Off branch's list comprehension through the filter-length lemma); every operation of the statement - direct assignment, "
         "bool_value, set_value, a client write to one switch, a client write naming any number of switches (loop invariant over the message's "
         "children), selected_value and selected_values - is executed symbolically from the real ASTs on a vector in an arbitrary state satisfying "
         "the rule invariant and proved to re-establish it (at-most-one-On; OneOfMany keeps an On switch; AnyOfMany changes only named switches; "
         "turning On leaves On), and the same clauses are asserted at every serialisation point (Vector.to_set_message call) for the published state. "
         "Invariant preservation from an arbitrary state gives every history, with no bound on switches or history length.",
    note="Trusted: PyVC + encoding; filter-length engine lemma; event handlers do not touch the vector (reset_* bypass the rule by design); "
         "send_message/to_set_message abstracted at the serialisation point; initial configuration satisfies the rule, element names/keys distinct.",
    technique="contract-based deductive verification: VCs generated from the real AST by symbolic execution with loop invariants, discharged by z3 (E-matching), counter-models replayed natively",
    design="4 C09"),
 "C20": dict(
    category="proof",
    text="Deductive: for every concrete message class and part class of the real class table, two instances are built by the real constructors from "
         "arbitrary attribute values and an arbitrary number of children (symbolic-size child families whose field map is a path summary of the real "
         "part constructor); the real __eq__/to_dict are executed symbolically (optional attributes as conditional dict entries, children as an "
         "extensional mapped sequence) and (a == b) is proved equivalent to the structural view of the statement: same kind, every attribute equal in "
         "wire rendering (absent == None), same text, same ordered children incl. every child's attributes and value. Different kinds are proved unequal "
         "pairwise. Additional instances with exactly 2 (thorough: 1..3) concrete children cover code shapes the symbolic-children encoding cannot express.",
    note="Trusted: PyVC + encoding; str() of non-str values is an uninterpreted function; re-engine and checks.children contracts used inside constructors; "
         "attribute values range over None/str/int.",
    technique="contract-based deductive verification: VCs from the real AST (symbolic execution, function summaries, extensional sequences), z3",
    design="4 C20"),
 "C13": dict(
    category="proof",
    text="Deductive: checks.dictionary (per vocabulary), checks.number and checks.children (sequences of any length, loop invariant) are proved against "
         "contracts whose vocabularies and number grammar come from the protocol, not from const.py; every vector constructor is proved to accept only "
         "children of the protocol's kind for its tag (any number) and vocabulary-valued fields; IndiMessage.from_xml / IndiMessagePart.from_xml are "
         "executed symbolically on an arbitrary element per registered tag (every attribute present or absent with any string, any text, 0 or 1 child "
         "elements of the required and a foreign kind) and every successful parse is proved conformant: kind matches tag, constrained fields in "
         "vocabulary, required attributes present, children of the required kind, number values in the number language; unknown tags are rejected.",
    note="Trusted: PyVC + encoding; element model of xml.etree (tag, attribute map, text, children); str.strip contract; regex contract of re; "
         "a missing number value is tolerated; from_xml analysed for 0/1 child elements, the unbounded clause rests on checks.children + constructors.",
    technique="contract-based deductive verification: VCs from the real AST by symbolic execution, regular-language inclusion in z3's sequence theory, z3",
    design="4 C13"),
 "C03": dict(
    category="proof",
    text="Deductive: for every concrete message class (0 and 1 children; thorough 2) and every part class, a valid instance is built by the real "
         "constructors from arbitrary attribute values; to_xml, from_xml (element level) and to_string/from_string (byte level, through the assumed "
         "xml.etree round-trip contract) are executed symbolically and the result is proved to be of the same kind with every attribute equal to its "
         "wire rendering, text normalised (empty == absent), same children in order, and the second serialisation identical to the first; a reordered / "
         "indented foreign spelling of the same element is proved to parse to the same message; the registry is proved to contain every kind the "
         "library can emit under pairwise distinct tags equal to the protocol's wire names.",
    note="ASSUMED and sampled natively each run: xml.etree round trip (bounded conformance sample, falsification = exit 3). Trusted: PyVC + encoding; "
         "str.strip contract; any number of children rests on the per-part round trip and the pointwise child maps; attribute domain None/str/int.",
    technique="contract-based deductive verification: VCs from the real AST by symbolic execution, z3; external XML library behind an assumed, sampled contract",
    design="4 C03"),
 "C11": dict(
    category="proof",
    text="Deductive, for ANY buffer content and ANY threshold (enabled or disabled): Buffer.process is verified against a contract whose loop carries "
         "the variant |data| (strictly decreasing on every back edge: termination), hands only values produced by IndiMessage.from_string to the consumer "
         "(genuineness), raises nothing of its own, and returns with |data| <= threshold when the threshold is enabled; it uses the contracts of "
         "_cleanup_buffer (keeps a suffix; loop invariant over an arbitrary tag list), _cleanup_beginning (drops at least one character) and "
         "_find_message_in_buffer (nothing or a genuine message with 1 <= end <= |data|; scan loop with variant), each verified on its real body; "
         "recovery is exact: _cleanup_beginning is proved to drop one character and resynchronise at the next known-tag opener, never skipping the start of a later message. "
         "The whole-stream clauses (junk never delays valid neighbours; delivery after a corrupt element) are exercised by a bounded native corpus (junk x messages x "
         "truncation at every position of a start tag x fragmentations x thresholds) on every run; with the threshold DISABLED that recovery does not exist in the code "
         "(a corrupt front element blocks everything behind it): recorded known finding F36, reported by the bounded corpus on every run.",
    note="ASSUMED: ET.fromstring raises only ParseError on Latin-1 text; IndiMessage.from_string raises or returns a message. z3 sequence theory with "
         "cvc5 --strings-exp as second back end (only `unsat` used). The liveness-style clauses are bounded (stand-in), stated in the evidence.",
    technique="contract-based deductive verification: VCs from the real AST (loop invariants, variants, modular helper contracts), z3 + cvc5 for strings; bounded native stand-in for whole-stream clauses",
    design="4 C02/C11"),
 "C02": dict(
    category="proof",
    text="Deductive per-call lemmas on the real code, for arbitrary text around the message: (1) junk removal leaves exactly the text from the first known-tag "
         "opener on (any tag list, invariant with the grammar's gap condition); (2) when a complete message text is at the front of the buffer -- whatever "
         "follows -- the scan returns exactly that message and its length, never a proper prefix, never nothing (XML prefix axiom assumed), and otherwise only "
         "genuine messages; (3) process delivers exactly what the scan found, consumes exactly its text, then removes junk, keeps a suffix and terminates. "
         "(4) call sites: on the three real receive loops (client tcp, server tcp, tty) every chunk read is appended and the buffer processed before the "
         "connection waits for more data (loop invariant with ghost flags). Losslessness, order, exactly-once and promptness for a whole fragmented stream follow by induction over the stream; that induction is argued in "
         "DESIGN.md and exercised by a bounded native fragmentation stand-in (every 1-cut, sampled 2-cut, char-by-char, random cuts; 3 thresholds), not discharged by the solver.",
    note="As C11, plus the XML prefix axiom and the stream grammar of the statement as assumptions; the composition over the stream is NOT machine-checked.",
    technique="contract-based deductive verification: VCs from the real AST, string obligations discharged by cvc5 --strings-exp / z3; bounded native stand-in for the stream-level composition",
    design="4 C02/C11"),
 "C12": dict(
    category="proof",
    text="Deductive exception-freedom and frame obligations on the real code along the whole receive path: for every new*Vector kind x every target property kind "
         "(text, number with plain and sexagesimal formats, switch, BLOB, light, unknown property) with ANY number of children carrying any element names and any "
         "text / missing values (BLOB size and format any strings), Driver.message_from_client is executed symbolically (loop invariant over the children, switch rule "
         "loop, regex/float/int/base64 behind raising contracts) and proved to raise nothing and to write nothing but element values of the addressed property; every "
         "other message kind is proved to be ignored without error; Router.process_message raises nothing for any conformant message, router state and sender; the "
         "TCP and TTY receive-loop iteration (decode, buffer, dispatch) raises nothing for any bytes read and hands each message to the router with the connection as sender.",
    note="Trusted: PyVC + encoding; external converters raise only their documented exceptions; user event handlers do not raise; Buffer.process through its C11 contract, whose exception-freedom part (process and the scan, "
         "with the parser raising ANY exception) is re-discharged here on the real bodies; partial codecs (utf-8/ascii) in bytes.decode may raise UnicodeDecodeError; serialisation abstracted (C07).",
    technique="contract-based deductive verification: exception-freedom and frame VCs from the real AST by symbolic execution, z3; bounded native fault catalogue on every run (incl. number texts beyond the float range, which the real-number model cannot see)",
    design="4 C12"),
 "C14": dict(
    category="proof",
    text="Deductive: the real EventSource.raise_event is verified with a loop invariant over an arbitrary handler table (any number of handlers per event "
         "kind, each plain or coroutine, plain Write handlers may veto, plain Read handlers may refresh the value): every handler of exactly the raised kind "
         "is invoked exactly once, coroutine functions become exactly one task each and are not run synchronously, handlers of other kinds are untouched. On "
         "top of it, for text, number, light and BLOB elements of a vector of any size, direct assignment, set_value, a client write and a read are executed "
         "symbolically and proved to follow the statement: Write handlers see the old value and the requested payload; a veto changes and publishes nothing; "
         "otherwise the value is stored, exactly one update carrying it is serialised, Change handlers are invoked exactly once with (old, new) iff the value "
         "changed, in the order Write -> publication -> Change; assignment raises no Write; a read returns the value as refreshed by Read handlers, and the real element-level "
         "to_set_message is proved to run every Read handler before the element is published (text, light, switch, BLOB).",
    note="Trusted: PyVC + encoding; abstract handler model; asyncio create_task only records the task; serialisation point abstraction; switch elements are "
         "C09's; BLOB 'changed' is object identity; handler registration (dir() scan, @on) not on the verified path.",
    technique="contract-based deductive verification: loop invariant over a symbolic handler table, ghost invocation counters and ordered trace, z3",
    design="4 C14"),
 "C15": dict(
    category="proof",
    text="Deductive: the client's view is built by the real code from definitions with symbolic names/attributes/values (two devices, up to two properties and "
         "two elements each); then each message kind -- def (5 kinds), set (5 kinds, incl. kind mismatch, repeated and unknown elements, empty/absent BLOB payloads), "
         "delProperty with and without name, message/ping/getProperties -- with symbolic device/name/children is processed by the real BaseClient.process_message and "
         "the resulting view is proved equal, for an ARBITRARY query (device, property, element), to the reference step function written from the statement (whole-view "
         "postcondition: untouched keys included), and processing is proved never to raise; the client TCP receive-loop iteration is proved exception-free for any bytes.",
    note="Universe shape bounded (2 devices x 2 properties x 2 elements, 0..2 children; thorough 0..3), everything else symbolic; messages conformant (C13); well-formed BLOB payloads; "
         "base64/int external. A native reference-interpreter stand-in runs when the engine cannot reach changed code.",
    technique="contract-based deductive verification: whole-view postcondition against a reference step function, VCs from the real AST by symbolic execution, z3",
    design="4 C15"),
 "C16": dict(
    category="proof",
    text="Deductive: _CallbackConfig.accepts_event is proved equal to the statement's filter semantics for every event class x filter type with symbolic filters and names; "
         "BaseClient.trigger_event is proved with a loop invariant over ANY number of callbacks: exactly the accepting callbacks get the event once, a raising callback neither "
         "escapes nor stops delivery to the rest; onevent appends exactly one config and returns its id, rmonevent removes exactly the configs matching all given criteria "
         "(lists of 0..2, thorough 3, all fields symbolic); at the raising sites an update is proved to raise ValueUpdate/StateUpdate iff the value/state changed, each event's "
         "old value being the previous value and the last event's new value the current one (unbroken chain, repeated listings included; all five kinds incl. BLOB).",
    note="Callbacks abstract (may raise, plain or coroutine), no re-entrant (un)registration during dispatch; per-object chain (a redefinition creates new elements); BLOB identity comparison.",
    technique="contract-based deductive verification: loop invariant over a symbolic callback list, chain obligations at the event-raising sites, z3; bounded native event oracle (listener never stale, filters exact) on every run",
    design="4 C16"),
 "C18": dict(
    category="proof",
    text="Deductive over exceptional control flow: the server's per-connection coroutine (TCP handler_func, TTY handle) is executed symbolically with the receive loop under "
         "the invariant rule and every await havocked -- any data incl. EOF, an I/O error, cancellation -- and message handling allowed to raise anything; on EVERY exit it is "
         "proved that the connection was registered exactly once, is unregistered exactly once afterwards, its socket is closed exactly once (TCP), it leaves the server's "
         "connection list while the others stay, and the coroutine itself swallows the failure. The router half -- unregister_client forgets the client and its policy row and "
         "leaves all others registered with their policies, register_client starts a peer with default policy, delivery exactly to the registered clients the policy lets through, for any registry -- are the C04/C05 router obligations, re-discharged under this check.",
    note="Trusted: cooperative-asyncio segment model (awaits havocked, no scheduler), writer.close/logger do not raise. Not covered: write errors surfacing in send tasks; "
         "tasks queued before the close; router state kept in fields other than clients / blob_routing (bounded router-history stand-in only).",
    technique="contract-based deductive verification: exceptional postconditions on all exits of the connection coroutine, loop invariant for the receive loop, router delivery postcondition for any registry, z3; bounded teardown and router-history stand-ins",
    design="4 C18"),
 "C19": dict(
    category="other",
    text="Lock-discipline (ownership) contract O1..O5 discharged deductively on the real code of the three senders: bytes produced synchronously in the routing call; the "
         "routing call is a plain function creating exactly one task with exactly those bytes and awaiting nothing; every stream access inside one critical section of the "
         "connection's own lock; the whole message handed over in one write before any await in the section; nothing else touches the stream. The step from O1..O5 to "
         "'whole, non-interleaved, in routing order for every completion order, a stalled connection delays only itself' is an argument about asyncio's scheduler, Lock "
         "fairness and StreamWriter, which this technique family does not model: it is assumed and stated, hence level 'other' rather than 'proof'.",
    note="Assumed: asyncio task start order, FIFO Lock wake-up, atomic write; to_string abstracted (C03).",
    technique="contract-based deductive verification of a lock-discipline contract (trace obligations on the real coroutines); scheduler semantics assumed",
    design="4 C19 / 5"),
 "C17": dict(
    category="proof",
    text="Deductive segment analysis of the real BaseClient.waitforevent: the coroutine and its closures are split at their awaits; each atomic segment -- the temporary "
         "callback cb (for ValueUpdate and StateUpdate events, conditions expect / initial / check), the tail of timeout_check, an iteration of poll, and the tail of the wait -- "
         "is executed symbolically from an ARBITRARY shared state satisfying the invariant J (completed => exactly one of timeout / event) and proved to preserve J, never to "
         "change a completed result (first match wins), to release exactly when the event satisfies the condition, to time out only an uncompleted wait, to re-request the "
         "properties only while uncompleted and never touch the result, and to end by returning the recorded event or raising iff the timeout fired, leaving no callback "
         "registered. Arbitrary-state segment proofs cover every interleaving, i.e. every arrival time relative to timeout and polling ticks.",
    note="Cooperative-asyncio model; time is not modelled: 'at the timeout instant' and 'at the configured delay and interval' are NOT decided (they rest on the assumed "
         "asyncio.sleep contract); no liveness claim.",
    technique="contract-based deductive verification: cooperative Owicki-Gries style invariant over atomic segments of the real coroutine, z3",
    design="4 C17 / 5"),
 "C01": dict(
    category="other",
    text="Deductive invariant argument 'mirror == published view of the device state', each step a discharged obligation on the real code or a cited contract: the real mutators (Vector.enabled, "
         "Vector.state_, Group.enabled, Element.value / set_value, Driver.send_message) are proved to send exactly the definition / deletion / update messages of their table row, serialised after "
         "the state change, in order, and to leave everything else untouched; the convergence lemma -- client step (the C15 reference step) applied to the messages (content per C07) turns the "
         "published view of the old state, or anything in the case of a definition, into the published view of the new state -- is discharged by z3 on the spec functions themselves for every "
         "property kind, 0..3 elements and every enabled pattern; inheritance of groups is a ground obligation on the real metaclass. Delivery inside the router (every registered client, by policy, for any registry) is re-discharged here on Router.process_message; "
         "codec, framing and ordering are cited from C03/C02/C19, writes from C06. Two delivery call-site obligations FAIL on the tree under test and are recorded known findings (F34: messages above the control connection's "
         "junk threshold are lost; F35: two unordered connections feed one mirror), hence level 'other', not 'proof'.",
    note="Composition by contract (DESIGN 4 C01). BLOB payloads are mirrored only by clients that enabled BLOBs and not by definitions. Bounded stand-in: native random histories over random driver "
         "definitions with a network client behind the real codec/framing and a snooping client.",
    technique="contract-based deductive verification: per-mutator publication contracts on the real code + convergence lemma over the C07/C15 contracts (z3); composition over C02/C03/C05/C06/C19 cited; "
              "bounded native random-history stand-in",
    design="4 C01"),
 "C06": dict(
    category="proof",
    text="Deductive, function by function on the real write path: client-side Vector.submit is proved to emit one new*Vector addressed to the property's device and name whose children are exactly "
         "the elements assigned since the last submit (each with its new value; BLOBs base64-encoded with length and format), and to clear the pending marks; driver-side "
         "Vector.from_new_message is proved (loop invariant over a message with any number of children, vector of any size) to offer each child to the element of that name only and to ignore "
         "unknown names; Element.set_value_from_message / set_value (text, number for %f, %d and sexagesimal formats through the real str_to_num, BLOB with size check) are proved to store exactly "
         "the sent value in the addressed element unless an update handler vetoes; the frame is checked on every other element of the region; switch writes are proved with the rule (C09 tasks).",
    note="Assumed: float()/int() denote plain decimal notation; base64 round trip; C03/C02/C04 carry the message (composition by contract); the native end-to-end oracle is a bounded stand-in.",
    technique="contract-based deductive verification (symbolic execution of the real AST, loop-invariant rule with frame check, z3 / cvc5) + bounded native end-to-end stand-in",
    design="4 C06"),
 "C08": dict(
    category="other",
    text="Deductive chain lemmas on the real code: driver-side BLOB.to_set_message -> wire typing (C03) -> client-side BLOB.set_value_from_message is proved to leave the client holding identical "
         "bytes, format and length for every byte string and format (also the empty one), and client-side BLOB.to_new_message -> wire -> driver-side BLOB.set_value_from_message likewise; the "
         "router is proved to deliver a setBLOBVector to exactly the other clients whose policy for the device is Also/Only and to none with unset/Never; Buffer.process is proved to terminate for any "
         "content (never stalls); the threshold call sites are proved for the client (BLOB connection disabled, control connection announces Never). The call-site obligation fails for the two "
         "server transports (known finding F21: uploads longer than the 2048-character threshold are destroyed as junk), so this is not claimed as a proof: level 'other'.",
    note="Assumed: base64 round trip; C03/C02 contracts for codec and framing. Bounded stand-in: native transfer grid across the 1024/2048 boundaries, three fragmentations, four policies, both directions.",
    technique="contract-based deductive verification (chain lemmas over the real encoder/decoder pairs, router policy corollary, termination variant, call-site obligations; z3/cvc5) + bounded native transfer grid; one known finding",
    design="4 C08"),
 "C10": dict(
    category="proof",
    text="Deductive on the real num_to_str, str_to_num and checks.number: for each enumerated format (printf flags/width/precision combinations and the five sexagesimal precisions) and EVERY value "
         "(symbolic real and symbolic int) the rendered text is proved to be accepted by the real validator, to denote the value within the format's resolution under the INDI denotation "
         "sgn*(w + m/60 + s/3600) -- the sign on the whole magnitude --, and to parse back through the real str_to_num within the same tolerance; for every text of the INDI number grammar "
         "(integer, decimal, 2- and 3-field sexagesimal with ':' ';' or blank separators, optional sign; digit strings of any length) the validator is proved to let it through and str_to_num to return "
         "exactly the value it denotes, whatever the property's format; the validator is proved to accept nothing outside the grammar.",
    note="Assumed: CPython number formatting contract (printf language, correct rounding), float()/int() on decimal notation, re engine for the patterns used; floats as mathematical reals. "
         "Formats are enumerated, values are not. Bounded stand-in: exact-rational native grid.",
    technique="contract-based deductive verification (symbolic execution of the real AST; regular-language decisions for the validator and group alignment; linear real/integer arithmetic in z3, cvc5 for strings) "
              "+ bounded native grid against an exact-rational reference reader",
    design="4 C10"),
 "C07": dict(
    category="proof",
    text="Deductive, modular: Driver.message_from_client(getProperties) is proved to obtain and send exactly one definition per property -- only the named one when a name is given, "
         "none for an unknown name -- with the driver as sender; Vector.to_def_message / to_set_message (generic, switch and light variants) are proved, for a vector of any "
         "size, to yield the property's own kind of message carrying device name, property name, current state and the definition's metadata, a delProperty / no update exactly "
         "when the property or its group is disabled, and as children exactly '[element's own to_*_message for each enabled element, in order]'; the element-level functions "
         "are proved on a generic element: name, label, current value (numbers rendered through the real num_to_str for %f, %.2f, %d and all five sexagesimal formats and accepted "
         "by the real validator), BLOB payload attributes, and every constructor-required attribute present -- i.e. each emitted message is valid and, by C03, read back unchanged. "
         "Group inheritance through subclassing (depth 3, overriding) is a ground obligation executed from the real metaclass and constructor.",
    note="Assumed: CPython number formatting contract (printf output language, correct rounding); floats as reals; formats with width/flags excluded (the library's validator rejects "
         "them: C10); definition metadata is protocol vocabulary; comprehension recognised syntactically.",
    technique="contract-based deductive verification: modular VCs from the real AST, regular-language reasoning for rendered numbers, z3",
    design="4 C07"),
}

NOT_YET = "check not built yet (work in progress)"
ALL = ["C%02d" % i for i in range(1, 21)]
NA = {}


def main():
    checks = []
    for pid in ALL:
        if pid not in CLAIMED:
            continue
        c = CLAIMED[pid]
        checks.append({
            "property_id": pid,
            "quick_cmd": "./check %s --tier quick" % pid,
            "thorough_cmd": "./check %s --tier thorough" % pid,
            "evidence_file": "/verif/evidence/%s.json" % pid,
            "replay_cmd_template": "./check --replay {path}",
            "engine": "pyvc",
            "level_claimed": {"category": c["category"], "text": c["text"], "design_ref": c["design"]},
            "level_note": c["note"],
            "technique": c["technique"],
        })
    m = {
        "version": 1,
        "setup_cmd": "python3-vt -B -c \"import z3, sys; sys.path.insert(0, '/verif'); import pyvc.interp, pyvc.runner; print('pyvc ok, z3', z3.get_version_string())\"",
        "hooks": {"guard": "INDIPY_VERIF", "enable": "no hooks: contracts are sidecar files under /verif/contracts; the engine re-reads /repo's working tree on every run",
                  "baseline_off_cmd": "cd /repo && /venv/bin/python -m pytest -ra -q -p no:cacheprovider --timeout=900 --continue-on-collection-errors",
                  "source_commits": [], "add_only": True},
        "engines": [{"name": "pyvc", "path": "/verif/pyvc",
                     "serves_properties": sorted(CLAIMED),
                     "kind_free_text": "verification-condition generator for Python: symbolic interpreter over the real ASTs of /repo (re-parsed every run), "
                                       "sidecar contracts (pre/post, loop invariants, frames, ghost state), z3 back end, native replay of counter-models"}],
        "checks": checks,
        "notes": "Exit codes: 0 held / 1 VIOLATION (refuted obligation; replayed natively where a concrete input exists) / 0 with a NOTE when a task is out of the deductive engine's reach on the tree under test and the bounded stand-in decides (never counted as proved) / 0 with KNOWN-FINDING lines for listed findings / 2 undecided (solver unknown and no native reproduction) / 3 checker error or vacuity guard.",
        "not_applicable": [{"property_id": p, "reason": NA.get(p, NOT_YET)} for p in ALL if p not in CLAIMED],
    }
    json.dump(m, open("/verif/MANIFEST.json", "w"), indent=1)


if __name__ == "__main__":
    main()
